// Package instr rewrites Go source files of the repository so that the
// deterministic simulator (package verifsim) decides every interleaving.
// See /verif/DESIGN.md section 3.5. Standard library only.
package instr

import (
	"bytes"
	"fmt"
	"go/ast"
	"go/importer"
	"go/parser"
	"go/printer"
	"go/token"
	"go/types"
	"io"
	"os"
	"path/filepath"
	"reflect"
	"strconv"
	"strings"
)

const (
	SimPath = "github.com/ollama/ollama/verifsim"
	VFSPath = "github.com/ollama/ollama/verifsim/vfs"
	simName = "verifsim"
	vfsName = "verifvfs"
)

// Options for one package.
type Options struct {
	Dir        string            // absolute package directory
	ImportPath string            // import path of the package
	GoFiles    []string          // non-test files of the package (base names), per go list
	Full       []string          // base names to instrument fully (yields, selects, go stmts, ...)
	VFS        bool              // swap os.* file-system calls and *os.File for the vfs layer in ALL files
	ConstToVar []string          // package-level constants to turn into variables
	Redirect   map[string]string // "pkg.Func" call -> replacement identifier (package-level var in a harness file)
	SliceServe bool              // generate verifServeStartup() from server.Serve
	Exports    map[string]string // import path -> export data file (for type checking); may be nil
	OutDir     string            // where rewritten files go
}

// Result of one package.
type Result struct {
	Replace  map[string]string // original absolute path -> rewritten file path
	Warnings []string
	Yields   int
	Selects  int
	GoStmts  int
	MapRange int
}

type rewriter struct {
	fset    *token.FileSet
	base    string
	ctr     int
	warns   []string
	info    *types.Info
	opt     *Options
	res     *Result
	full    bool
	usedVFS bool
}

// Instrument rewrites the package.
func Instrument(opt Options) (*Result, error) {
	res := &Result{Replace: map[string]string{}}
	fset := token.NewFileSet()
	var files []*ast.File
	for _, name := range opt.GoFiles {
		f, err := parser.ParseFile(fset, filepath.Join(opt.Dir, name), nil, parser.ParseComments)
		if err != nil {
			return nil, err
		}
		files = append(files, f)
	}
	var info *types.Info
	if opt.Exports != nil {
		info = &types.Info{Types: map[ast.Expr]types.TypeAndValue{}, Uses: map[*ast.Ident]types.Object{}, Defs: map[*ast.Ident]types.Object{}}
		imp := importer.ForCompiler(fset, "gc", func(path string) (io.ReadCloser, error) {
			e := opt.Exports[path]
			if e == "" {
				return nil, fmt.Errorf("no export data for %s", path)
			}
			return os.Open(e)
		})
		var terrs []string
		conf := types.Config{Importer: imp, Error: func(err error) { terrs = append(terrs, err.Error()) }}
		if _, err := conf.Check(opt.ImportPath, fset, files, info); err != nil && len(terrs) > 0 {
			res.Warnings = append(res.Warnings, fmt.Sprintf("%s: type check failed (%d errors, first: %s); map ranges left as they are", opt.ImportPath, len(terrs), terrs[0]))
			info = nil
		}
	}
	fullSet := map[string]bool{}
	for _, n := range opt.Full {
		fullSet[n] = true
	}
	if err := os.MkdirAll(opt.OutDir, 0o755); err != nil {
		return nil, err
	}
	for i, name := range opt.GoFiles {
		if !fullSet[name] && !opt.VFS {
			// type swaps still apply to every file so that lock types agree across the package
			if !mentionsSyncTypes(files[i]) {
				continue
			}
		}
		rw := &rewriter{fset: fset, base: name, info: info, opt: &opt, res: res, full: fullSet[name]}
		out, err := rw.file(files[i])
		if err != nil {
			return nil, fmt.Errorf("%s: %w", name, err)
		}
		res.Warnings = append(res.Warnings, rw.warns...)
		dst := filepath.Join(opt.OutDir, name)
		if err := os.WriteFile(dst, out, 0o644); err != nil {
			return nil, err
		}
		res.Replace[filepath.Join(opt.Dir, name)] = dst
	}
	return res, nil
}

func mentionsSyncTypes(f *ast.File) bool {
	found := false
	ast.Inspect(f, func(n ast.Node) bool {
		if se, ok := n.(*ast.SelectorExpr); ok {
			if x, ok := se.X.(*ast.Ident); ok && x.Name == "sync" {
				switch se.Sel.Name {
				case "Mutex", "RWMutex", "Once", "OnceFunc", "OnceValue", "OnceValues":
					found = true
				}
			}
		}
		return !found
	})
	return found
}

func (rw *rewriter) file(f *ast.File) ([]byte, error) {
	// Comments: keep only what precedes the package clause (build constraints)
	// and directive comments; free-floating comments would be misplaced by the
	// rewriting.
	var keep []*ast.CommentGroup
	for _, cg := range f.Comments {
		if cg.End() < f.Package {
			keep = append(keep, cg)
		}
	}
	f.Comments = keep
	for _, d := range f.Decls {
		switch d := d.(type) {
		case *ast.FuncDecl:
			d.Doc = nil
		case *ast.GenDecl:
			d.Doc = nil
		}
	}

	if rw.full && rw.opt.SliceServe && rw.base == "routes.go" {
		rw.sliceServe(f)
	}
	if len(rw.opt.ConstToVar) > 0 {
		rw.constToVar(f)
	}
	if rw.full {
		for _, d := range f.Decls {
			switch d := d.(type) {
			case *ast.FuncDecl:
				if d.Body != nil {
					d.Body.List = rw.list(d.Body.List)
				}
			case *ast.GenDecl:
				ast.Inspect(d, func(n ast.Node) bool {
					if fl, ok := n.(*ast.FuncLit); ok {
						fl.Body.List = rw.list(fl.Body.List)
						return false
					}
					return true
				})
			}
		}
		rw.redirectCalls(f)
		rw.redirectRand(f)
	}
	rw.swapSync(f)
	if rw.opt.VFS {
		rw.swapVFS(f)
	}
	addImport(f, SimPath, simName)
	f.Decls = append(f.Decls, blankUse(&ast.SelectorExpr{X: ast.NewIdent(simName), Sel: ast.NewIdent("Active")}))
	if rw.usedVFS {
		addImport(f, VFSPath, vfsName)
	}
	// keep imports alive whose last use may have been swapped away
	for _, im := range f.Imports {
		if im.Name != nil && (im.Name.Name == "_" || im.Name.Name == ".") {
			continue
		}
		switch im.Path.Value {
		case `"sync"`:
			f.Decls = append(f.Decls, blankUse(&ast.SelectorExpr{X: ast.NewIdent(importName(im, "sync")), Sel: ast.NewIdent("NewCond")}))
		case `"os"`:
			f.Decls = append(f.Decls, blankUse(&ast.SelectorExpr{X: ast.NewIdent(importName(im, "os")), Sel: ast.NewIdent("Getpid")}))
		case `"math/rand/v2"`:
			f.Decls = append(f.Decls, blankUse(&ast.SelectorExpr{X: ast.NewIdent(importName(im, "rand")), Sel: ast.NewIdent("Uint64")}))
		case `"github.com/ollama/ollama/discover"`:
			f.Decls = append(f.Decls, blankUse(&ast.SelectorExpr{X: ast.NewIdent(importName(im, "discover")), Sel: ast.NewIdent("GetGPUInfo")}))
		}
	}

	var buf bytes.Buffer
	buf.WriteString("//go:build verif\n\n")
	cfg := printer.Config{Mode: printer.SourcePos | printer.UseSpaces | printer.TabIndent, Tabwidth: 8}
	if err := cfg.Fprint(&buf, rw.fset, f); err != nil {
		return nil, err
	}
	out := buf.Bytes()
	// A file may already start with a build constraint; merge by dropping ours
	// and and-ing verif into the existing one.
	out = mergeBuildTags(out)
	return out, nil
}

func mergeBuildTags(src []byte) []byte {
	lines := bytes.SplitN(src, []byte("\n"), 12)
	var other int = -1
	for i := 1; i < len(lines)-1; i++ {
		if bytes.HasPrefix(lines[i], []byte("//go:build ")) {
			other = i
			break
		}
		if bytes.HasPrefix(lines[i], []byte("package ")) {
			break
		}
	}
	if other < 0 {
		return src
	}
	expr := bytes.TrimPrefix(lines[other], []byte("//go:build "))
	lines[0] = []byte("//go:build verif && (" + string(expr) + ")")
	lines[other] = nil
	return bytes.Join(lines, []byte("\n"))
}

func importName(im *ast.ImportSpec, def string) string {
	if im.Name != nil {
		return im.Name.Name
	}
	return def
}

func blankUse(e ast.Expr) ast.Decl {
	return &ast.GenDecl{Tok: token.VAR, Specs: []ast.Spec{&ast.ValueSpec{Names: []*ast.Ident{ast.NewIdent("_")}, Values: []ast.Expr{e}}}}
}

func addImport(f *ast.File, path, name string) {
	for _, im := range f.Imports {
		if im.Path.Value == strconv.Quote(path) {
			return
		}
	}
	spec := &ast.ImportSpec{Name: ast.NewIdent(name), Path: &ast.BasicLit{Kind: token.STRING, Value: strconv.Quote(path)}}
	f.Imports = append(f.Imports, spec)
	for _, d := range f.Decls {
		if g, ok := d.(*ast.GenDecl); ok && g.Tok == token.IMPORT {
			g.Specs = append(g.Specs, spec)
			if !g.Lparen.IsValid() {
				g.Lparen = g.Pos()
				g.Rparen = g.End()
			}
			return
		}
	}
	f.Decls = append([]ast.Decl{&ast.GenDecl{Tok: token.IMPORT, Specs: []ast.Spec{spec}}}, f.Decls...)
}

// ---- type swaps ----------------------------------------------------------------

func (rw *rewriter) swapSync(f *ast.File) {
	ast.Inspect(f, func(n ast.Node) bool {
		se, ok := n.(*ast.SelectorExpr)
		if !ok {
			return true
		}
		if x, ok := se.X.(*ast.Ident); ok && x.Name == "sync" && x.Obj == nil {
			switch se.Sel.Name {
			case "Mutex", "RWMutex", "Once", "OnceFunc", "OnceValue", "OnceValues":
				se.X = ast.NewIdent(simName)
			}
		}
		return true
	})
}

var vfsFuncs = map[string]bool{
	"Create": true, "CreateTemp": true, "OpenFile": true, "Open": true, "Rename": true, "Remove": true, "RemoveAll": true,
	"WriteFile": true, "ReadFile": true, "Mkdir": true, "MkdirAll": true, "MkdirTemp": true, "Symlink": true, "Chmod": true,
	"Chtimes": true, "Truncate": true, "Stat": true, "Lstat": true, "ReadDir": true, "File": true, "Link": true,
}

func (rw *rewriter) swapVFS(f *ast.File) {
	ast.Inspect(f, func(n ast.Node) bool {
		se, ok := n.(*ast.SelectorExpr)
		if !ok {
			return true
		}
		if x, ok := se.X.(*ast.Ident); ok && x.Name == "os" && x.Obj == nil && vfsFuncs[se.Sel.Name] {
			se.X = ast.NewIdent(vfsName)
			rw.usedVFS = true
		}
		return true
	})
}

func (rw *rewriter) redirectRand(f *ast.File) {
	name := ""
	for _, im := range f.Imports {
		if im.Path.Value == `"math/rand/v2"` {
			name = importName(im, "rand")
		}
	}
	if name == "" {
		return
	}
	ast.Inspect(f, func(n ast.Node) bool {
		se, ok := n.(*ast.SelectorExpr)
		if !ok {
			return true
		}
		if x, ok := se.X.(*ast.Ident); ok && x.Name == name && x.Obj == nil {
			switch se.Sel.Name {
			case "Float64":
				se.X = ast.NewIdent(simName)
			case "IntN":
				se.X = ast.NewIdent(simName)
				se.Sel = ast.NewIdent("Intn")
			}
		}
		return true
	})
}

func (rw *rewriter) redirectCalls(f *ast.File) {
	if len(rw.opt.Redirect) == 0 {
		return
	}
	ast.Inspect(f, func(n ast.Node) bool {
		ce, ok := n.(*ast.CallExpr)
		if !ok {
			return true
		}
		if se, ok := ce.Fun.(*ast.SelectorExpr); ok {
			if x, ok := se.X.(*ast.Ident); ok {
				if to, ok := rw.opt.Redirect[x.Name+"."+se.Sel.Name]; ok {
					ce.Fun = ast.NewIdent(to)
				}
			}
		}
		return true
	})
}

func (rw *rewriter) constToVar(f *ast.File) {
	want := map[string]bool{}
	for _, n := range rw.opt.ConstToVar {
		want[n] = true
	}
	var extra []ast.Decl
	for _, d := range f.Decls {
		g, ok := d.(*ast.GenDecl)
		if !ok || g.Tok != token.CONST {
			continue
		}
		var keep []ast.Spec
		for _, sp := range g.Specs {
			vs := sp.(*ast.ValueSpec)
			if len(vs.Names) == 1 && want[vs.Names[0].Name] && len(vs.Values) == 1 {
				extra = append(extra, &ast.GenDecl{Tok: token.VAR, Specs: []ast.Spec{vs}})
				continue
			}
			keep = append(keep, sp)
		}
		g.Specs = keep
	}
	// drop emptied const blocks
	var decls []ast.Decl
	for _, d := range f.Decls {
		if g, ok := d.(*ast.GenDecl); ok && g.Tok == token.CONST && len(g.Specs) == 0 {
			continue
		}
		decls = append(decls, d)
	}
	f.Decls = append(decls, extra...)
}

// sliceServe copies the statements of Serve that precede the first use of its
// listener parameter into a new function verifServeStartup() error.
func (rw *rewriter) sliceServe(f *ast.File) {
	for _, d := range f.Decls {
		fd, ok := d.(*ast.FuncDecl)
		if !ok || fd.Name.Name != "Serve" || fd.Recv != nil || fd.Body == nil {
			continue
		}
		param := ""
		if fd.Type.Params != nil && len(fd.Type.Params.List) > 0 && len(fd.Type.Params.List[0].Names) > 0 {
			param = fd.Type.Params.List[0].Names[0].Name
		}
		var pre []ast.Stmt
		started := false
		for _, st := range fd.Body.List {
			if !started {
				// skip the logging set-up that precedes the store start-up sequence
				ast.Inspect(st, func(n ast.Node) bool {
					if id, ok := n.(*ast.Ident); ok && id.Name == "GetBlobsPath" {
						started = true
					}
					return !started
				})
				if !started {
					continue
				}
			}
			uses := false
			ast.Inspect(st, func(n ast.Node) bool {
				if id, ok := n.(*ast.Ident); ok && id.Name == param {
					uses = true
				}
				if ce, ok := n.(*ast.CallExpr); ok {
					// stop before the scheduler / router are set up
					if se, ok := ce.Fun.(*ast.SelectorExpr); ok && (se.Sel.Name == "GenerateRoutes" || se.Sel.Name == "WithCancel") {
						uses = true
					}
					if id, ok := ce.Fun.(*ast.Ident); ok && id.Name == "InitScheduler" {
						uses = true
					}
				}
				return !uses
			})
			if uses {
				break
			}
			pre = append(pre, st)
		}
		// re-parse a printed copy so that the slice is an independent tree
		var buf bytes.Buffer
		buf.WriteString("package p\nfunc verifServeStartup() error {\n")
		for _, st := range pre {
			if err := printer.Fprint(&buf, rw.fset, st); err != nil {
				rw.warns = append(rw.warns, "sliceServe: "+err.Error())
				return
			}
			buf.WriteString("\n")
		}
		buf.WriteString("return nil\n}\n")
		nf, err := parser.ParseFile(token.NewFileSet(), "", buf.Bytes(), 0)
		if err != nil {
			rw.warns = append(rw.warns, "sliceServe: reparse: "+err.Error())
			return
		}
		nd := nf.Decls[0].(*ast.FuncDecl)
		stripPos(nd)
		f.Decls = append(f.Decls, nd)
		return
	}
	rw.warns = append(rw.warns, "sliceServe: func Serve not found")
}

// stripPos zeroes every token.Pos below n (positions from a scratch file set
// are meaningless in the file's own set).
func stripPos(n ast.Node) {
	posType := reflect.TypeOf(token.NoPos)
	seen := map[uintptr]bool{}
	var walk func(v reflect.Value)
	walk = func(v reflect.Value) {
		switch v.Kind() {
		case reflect.Ptr:
			if v.IsNil() || seen[v.Pointer()] {
				return
			}
			seen[v.Pointer()] = true
			walk(v.Elem())
		case reflect.Interface:
			if !v.IsNil() {
				walk(v.Elem())
			}
		case reflect.Struct:
			if v.Type() == reflect.TypeOf(ast.Object{}) || v.Type() == reflect.TypeOf(ast.Scope{}) {
				return
			}
			for i := 0; i < v.NumField(); i++ {
				f := v.Field(i)
				if f.Type() == posType {
					if f.CanSet() {
						f.SetInt(0)
					}
					continue
				}
				walk(f)
			}
		case reflect.Slice:
			for i := 0; i < v.Len(); i++ {
				walk(v.Index(i))
			}
		}
	}
	walk(reflect.ValueOf(n))
}

// ---- helpers -------------------------------------------------------------------

func (rw *rewriter) site(p token.Pos, what string) ast.Expr {
	pos := rw.fset.Position(p)
	s := fmt.Sprintf("%s:%d", rw.base, pos.Line)
	if what != "" {
		s += ":" + what
	}
	return &ast.BasicLit{Kind: token.STRING, Value: strconv.Quote(s)}
}

func call(fn string, args ...ast.Expr) *ast.CallExpr {
	return &ast.CallExpr{Fun: &ast.SelectorExpr{X: ast.NewIdent(simName), Sel: ast.NewIdent(fn)}, Args: args}
}

func exprStmt(e ast.Expr) ast.Stmt { return &ast.ExprStmt{X: e} }

func (rw *rewriter) yield(p token.Pos, what string) ast.Stmt {
	rw.res.Yields++
	return exprStmt(call("Yield", rw.site(p, what)))
}

func (rw *rewriter) fresh(prefix string) *ast.Ident {
	rw.ctr++
	return ast.NewIdent(fmt.Sprintf("_v%s%d", prefix, rw.ctr))
}

func define(lhs ast.Expr, rhs ast.Expr) ast.Stmt {
	return &ast.AssignStmt{Lhs: []ast.Expr{lhs}, Tok: token.DEFINE, Rhs: []ast.Expr{rhs}}
}

func intLit(i int) ast.Expr { return &ast.BasicLit{Kind: token.INT, Value: strconv.Itoa(i)} }

// Calls after which the goroutine may have been blocked: yield before and after.
var blockCalls = map[string]bool{"Wait": true, "Sleep": true, "Acquire": true, "Go": true}

// Calls that may block but need a yield only before (the kernel's own lock types).
var lockCalls = map[string]bool{"Lock": true, "RLock": true, "TryLock": true, "TryRLock": true}

const (
	syncNone = 0
	syncPre  = 1
	syncBoth = 2
)

// syncKind reports whether the nodes (statement headers; nested blocks and
// function literals excluded) contain a scheduling-relevant operation.
func syncKind(nodes ...ast.Node) int {
	kind := syncNone
	for _, n := range nodes {
		if n == nil || isNilNode(n) {
			continue
		}
		ast.Inspect(n, func(n ast.Node) bool {
			switch n := n.(type) {
			case *ast.FuncLit, *ast.BlockStmt:
				return false
			case *ast.SendStmt:
				kind = syncBoth
			case *ast.UnaryExpr:
				if n.Op == token.ARROW {
					kind = syncBoth
				}
			case *ast.CallExpr:
				if se, ok := n.Fun.(*ast.SelectorExpr); ok {
					if blockCalls[se.Sel.Name] {
						kind = syncBoth
					} else if lockCalls[se.Sel.Name] && kind < syncPre {
						kind = syncPre
					}
				}
				// close(ch) wakes every receiver: they may run before the closer's next statement
				if id, ok := n.Fun.(*ast.Ident); ok && id.Name == "close" && id.Obj == nil && len(n.Args) == 1 {
					kind = syncBoth
				}
			}
			return true
		})
	}
	return kind
}

func isNilNode(n ast.Node) bool {
	switch v := n.(type) {
	case ast.Expr:
		return v == nil
	case ast.Stmt:
		return v == nil
	}
	return false
}

func nS(s ast.Stmt) ast.Node {
	if s == nil {
		return nil
	}
	return s
}

func nE(e ast.Expr) ast.Node {
	if e == nil {
		return nil
	}
	return e
}

// lits instruments function literals found in the header parts of a statement
// (nested blocks are handled when those blocks are rewritten). It returns token
// definitions to be placed before the statement.
func (rw *rewriter) lits(parts ...ast.Node) []ast.Stmt {
	var pre []ast.Stmt
	for _, p := range parts {
		if p == nil || isNilNode(p) {
			continue
		}
		var found []*ast.FuncLit
		spawn := map[*ast.FuncLit]bool{}
		skip := map[*ast.FuncLit]bool{}
		ast.Inspect(p, func(n ast.Node) bool {
			switch n := n.(type) {
			case *ast.BlockStmt:
				return false
			case *ast.CallExpr:
				name := ""
				switch f := n.Fun.(type) {
				case *ast.SelectorExpr:
					name = f.Sel.Name
				case *ast.Ident:
					name = f.Name
				}
				for _, a := range n.Args {
					if fl, ok := a.(*ast.FuncLit); ok {
						switch name {
						case "AfterFunc", "Go", "TryGo":
							spawn[fl] = true
						case "AddCleanup", "SetFinalizer":
							skip[fl] = true
						}
					}
				}
			case *ast.FuncLit:
				found = append(found, n)
				return false
			}
			return true
		})
		for _, fl := range found {
			if skip[fl] {
				continue
			}
			body := rw.list(fl.Body.List)
			if spawn[fl] {
				tok := rw.fresh("t")
				rw.res.GoStmts++
				pre = append(pre, define(tok, call("Spawn", rw.site(fl.Pos(), ""))))
				fl.Body.List = append([]ast.Stmt{
					&ast.DeferStmt{Call: call("Done", tok)},
					exprStmt(call("Enter", tok, rw.site(fl.Pos(), "start"))),
				}, body...)
			} else {
				fl.Body.List = body
			}
		}
	}
	return pre
}

func terminates(s ast.Stmt) bool {
	switch s.(type) {
	case *ast.ReturnStmt, *ast.BranchStmt:
		return true
	}
	return false
}

// ---- statements -----------------------------------------------------------------

func (rw *rewriter) list(list []ast.Stmt) []ast.Stmt {
	var out []ast.Stmt
	for _, s := range list {
		out = append(out, rw.stmt(s)...)
	}
	return out
}

func (rw *rewriter) block(b *ast.BlockStmt) {
	if b != nil {
		b.List = rw.list(b.List)
	}
}

func (rw *rewriter) stmt(s ast.Stmt) []ast.Stmt {
	switch s := s.(type) {
	case *ast.BlockStmt:
		rw.block(s)
		return []ast.Stmt{s}
	case *ast.LabeledStmt:
		inner := rw.stmt(s.Stmt)
		// the label must stay on the construct it named
		for i := len(inner) - 1; i >= 0; i-- {
			switch inner[i].(type) {
			case *ast.ForStmt, *ast.RangeStmt, *ast.SwitchStmt, *ast.TypeSwitchStmt, *ast.SelectStmt:
				s.Stmt = inner[i]
				inner[i] = s
				return inner
			}
		}
		s.Stmt = inner[0]
		inner[0] = s
		return inner
	case *ast.IfStmt:
		pre := rw.lits(nS(s.Init), nE(s.Cond))
		k := syncKind(nS(s.Init), nE(s.Cond))
		rw.block(s.Body)
		if s.Else != nil {
			e := rw.stmt(s.Else)
			if len(e) == 1 {
				s.Else = e[0]
			} else {
				s.Else = &ast.BlockStmt{List: e}
			}
		}
		if k != syncNone {
			pre = append(pre, rw.yield(s.Pos(), "if"))
			if k == syncBoth {
				s.Body.List = append([]ast.Stmt{rw.yield(s.Pos(), "if-body")}, s.Body.List...)
			}
		}
		return append(pre, s)
	case *ast.ForStmt:
		pre := rw.lits(nS(s.Init), nE(s.Cond), nS(s.Post))
		k := syncKind(nS(s.Init), nE(s.Cond), nS(s.Post))
		rw.block(s.Body)
		if k != syncNone {
			pre = append(pre, rw.yield(s.Pos(), "for"))
			s.Body.List = append([]ast.Stmt{rw.yield(s.Pos(), "for-body")}, s.Body.List...)
		}
		return append(pre, s)
	case *ast.RangeStmt:
		return rw.rangeStmt(s)
	case *ast.SwitchStmt:
		pre := rw.lits(nS(s.Init), nE(s.Tag))
		k := syncKind(nS(s.Init), nE(s.Tag))
		for _, c := range s.Body.List {
			cc := c.(*ast.CaseClause)
			for _, e := range cc.List {
				pre = append(pre, rw.lits(e)...)
			}
			cc.Body = rw.list(cc.Body)
		}
		if k != syncNone {
			pre = append(pre, rw.yield(s.Pos(), "switch"))
		}
		return append(pre, s)
	case *ast.TypeSwitchStmt:
		pre := rw.lits(nS(s.Init), s.Assign)
		for _, c := range s.Body.List {
			cc := c.(*ast.CaseClause)
			cc.Body = rw.list(cc.Body)
		}
		return append(pre, s)
	case *ast.SelectStmt:
		return rw.selectStmt(s)
	case *ast.GoStmt:
		return rw.goStmt(s)
	case *ast.DeferStmt:
		pre := rw.lits(s.Call)
		return append(pre, s)
	default:
		pre := rw.lits(s)
		switch syncKind(s) {
		case syncPre:
			pre = append(pre, rw.yield(s.Pos(), "lock"))
			return append(pre, s)
		case syncBoth:
			pre = append(pre, rw.yield(s.Pos(), "pre"))
			pre = append(pre, s)
			if !terminates(s) {
				pre = append(pre, rw.yield(s.Pos(), "post"))
			}
			return pre
		}
		return append(pre, s)
	}
}

func (rw *rewriter) rangeStmt(s *ast.RangeStmt) []ast.Stmt {
	pre := rw.lits(s.X)
	rw.block(s.Body)
	kind := "other"
	if rw.info != nil {
		if tv, ok := rw.info.Types[s.X]; ok && tv.Type != nil {
			switch tv.Type.Underlying().(type) {
			case *types.Map:
				kind = "map"
			case *types.Chan:
				kind = "chan"
			case *types.Signature:
				kind = "func"
			case *types.Slice, *types.Array, *types.Basic, *types.Pointer:
				kind = "plain"
			}
		}
	}
	switch kind {
	case "map":
		// for k, v := range m  ==>  for _, k := range verifsim.MapKeys(m) { v, ok := m[k]; if !ok { continue }; ... }
		// Only the common define / blank forms are rewritten.
		if s.Tok == token.ASSIGN {
			rw.warns = append(rw.warns, fmt.Sprintf("%s: map range with '=' left as is", rw.fset.Position(s.Pos())))
			return append(pre, s)
		}
		rw.res.MapRange++
		m := rw.fresh("m")
		pre = append(pre, define(m, s.X))
		keyName := rw.fresh("k")
		var body []ast.Stmt
		if id, ok := s.Key.(*ast.Ident); ok && id.Name != "_" {
			keyName = ast.NewIdent(id.Name)
		}
		ok := rw.fresh("ok")
		var valName ast.Expr = ast.NewIdent("_")
		if s.Value != nil {
			if id, isId := s.Value.(*ast.Ident); isId && id.Name != "_" {
				valName = ast.NewIdent(id.Name)
			}
		}
		body = append(body,
			&ast.AssignStmt{Lhs: []ast.Expr{valName, ok}, Tok: token.DEFINE, Rhs: []ast.Expr{&ast.IndexExpr{X: m, Index: keyName}}},
			&ast.IfStmt{Cond: &ast.UnaryExpr{Op: token.NOT, X: ok}, Body: &ast.BlockStmt{List: []ast.Stmt{&ast.BranchStmt{Tok: token.CONTINUE}}}},
		)
		if id, isId := valName.(*ast.Ident); isId && id.Name != "_" {
			body = append(body, &ast.AssignStmt{Lhs: []ast.Expr{ast.NewIdent("_")}, Tok: token.ASSIGN, Rhs: []ast.Expr{ast.NewIdent(id.Name)}})
		}
		if s.Key == nil {
			s.Key = ast.NewIdent("_")
		}
		ns := &ast.RangeStmt{
			For: s.For, Key: ast.NewIdent("_"), Value: keyName, Tok: token.DEFINE,
			X:    call("MapKeys", m),
			Body: &ast.BlockStmt{List: append(body, s.Body.List...)},
		}
		if keyName.Name[0] != '_' {
			// keep "declared and not used" away if the body never reads the key
			ns.Body.List = append([]ast.Stmt{&ast.AssignStmt{Lhs: []ast.Expr{ast.NewIdent("_")}, Tok: token.ASSIGN, Rhs: []ast.Expr{ast.NewIdent(keyName.Name)}}}, ns.Body.List...)
		}
		return append(pre, ns)
	case "plain":
		return append(pre, s)
	default:
		// channel, iterator function, or unknown: the loop may block between iterations
		s.Body.List = append([]ast.Stmt{rw.yield(s.Pos(), "range-body")}, s.Body.List...)
		if kind == "chan" {
			pre = append(pre, rw.yield(s.Pos(), "range"))
		}
		return append(pre, s)
	}
}

func (rw *rewriter) goStmt(s *ast.GoStmt) []ast.Stmt {
	rw.res.GoStmts++
	tok := rw.fresh("t")
	pre := []ast.Stmt{define(tok, call("Spawn", rw.site(s.Pos(), "")))}
	for _, a := range s.Call.Args {
		pre = append(pre, rw.lits(a)...)
	}
	head := []ast.Stmt{
		&ast.DeferStmt{Call: call("Done", tok)},
		exprStmt(call("Enter", tok, rw.site(s.Pos(), "go"))),
	}
	if fl, ok := s.Call.Fun.(*ast.FuncLit); ok {
		body := rw.list(fl.Body.List)
		fl.Body.List = append(head, body...)
		return append(pre, s)
	}
	// go f(a, b): evaluate f and the arguments now, run the call in a wrapper
	pre = append(pre, rw.lits(s.Call.Fun)...)
	fn := rw.fresh("f")
	pre = append(pre, define(fn, s.Call.Fun))
	var args []ast.Expr
	for _, a := range s.Call.Args {
		id := rw.fresh("a")
		pre = append(pre, define(id, a))
		args = append(args, id)
	}
	inner := &ast.CallExpr{Fun: fn, Args: args, Ellipsis: s.Call.Ellipsis}
	if s.Call.Ellipsis.IsValid() {
		inner.Ellipsis = 1
	}
	wrapper := &ast.FuncLit{
		Type: &ast.FuncType{Params: &ast.FieldList{}},
		Body: &ast.BlockStmt{List: append(head, exprStmt(inner))},
	}
	s.Call = &ast.CallExpr{Fun: wrapper}
	return append(pre, s)
}

// selectStmt makes the choice among ready cases a simulator decision.
func (rw *rewriter) selectStmt(s *ast.SelectStmt) []ast.Stmt {
	var clauses []*ast.CommClause
	var def *ast.CommClause
	for _, c := range s.Body.List {
		cc := c.(*ast.CommClause)
		cc.Body = rw.list(cc.Body)
		if cc.Comm == nil {
			def = cc
			continue
		}
		clauses = append(clauses, cc)
	}
	if len(clauses) == 0 {
		return []ast.Stmt{rw.yield(s.Pos(), "select-empty"), s}
	}
	if def != nil && len(clauses) == 1 {
		// non-blocking single-case select: deterministic as it is
		return []ast.Stmt{rw.yield(s.Pos(), "select-nb"), s}
	}
	rw.res.Selects++

	var out []ast.Stmt
	out = append(out, rw.yield(s.Pos(), "select"))
	sel := rw.fresh("sel")
	out = append(out, define(sel, &ast.UnaryExpr{Op: token.SUB, X: intLit(1)}))

	type info struct {
		ch, val, recv, ok *ast.Ident
		comm              func() ast.Stmt
		bind              []ast.Stmt
	}
	infos := make([]*info, len(clauses))
	for i, cc := range clauses {
		in := &info{}
		infos[i] = in
		switch c := cc.Comm.(type) {
		case *ast.SendStmt:
			in.ch, in.val = rw.fresh("c"), rw.fresh("s")
			out = append(out, rw.lits(c.Chan, c.Value)...)
			out = append(out, define(in.ch, c.Chan), define(in.val, c.Value))
			in.comm = func() ast.Stmt { return &ast.SendStmt{Chan: in.ch, Value: in.val} }
		case *ast.ExprStmt: // <-ch
			ue, ok := c.X.(*ast.UnaryExpr)
			if !ok {
				rw.warns = append(rw.warns, fmt.Sprintf("%s: unsupported comm clause; select left as is", rw.fset.Position(s.Pos())))
				return []ast.Stmt{rw.yield(s.Pos(), "select-raw"), s, rw.yield(s.Pos(), "select-raw-post")}
			}
			in.ch = rw.fresh("c")
			out = append(out, rw.lits(ue.X)...)
			out = append(out, define(in.ch, ue.X))
			in.comm = func() ast.Stmt { return exprStmt(&ast.UnaryExpr{Op: token.ARROW, X: in.ch}) }
		case *ast.AssignStmt: // v := <-ch ; v, ok := <-ch ; v = <-ch
			ue, ok := c.Rhs[0].(*ast.UnaryExpr)
			if !ok {
				rw.warns = append(rw.warns, fmt.Sprintf("%s: unsupported comm clause; select left as is", rw.fset.Position(s.Pos())))
				return []ast.Stmt{rw.yield(s.Pos(), "select-raw"), s, rw.yield(s.Pos(), "select-raw-post")}
			}
			in.ch, in.recv = rw.fresh("c"), rw.fresh("r")
			out = append(out, rw.lits(ue.X)...)
			out = append(out, define(in.ch, ue.X))
			out = append(out, define(in.recv, call("Zero", in.ch)))
			lhs := []ast.Expr{in.recv}
			if len(c.Lhs) == 2 {
				in.ok = rw.fresh("ok")
				out = append(out, define(in.ok, ast.NewIdent("false")))
				lhs = append(lhs, in.ok)
			}
			in.comm = func() ast.Stmt {
				return &ast.AssignStmt{Lhs: lhs, Tok: token.ASSIGN, Rhs: []ast.Expr{&ast.UnaryExpr{Op: token.ARROW, X: in.ch}}}
			}
			rhs := []ast.Expr{in.recv}
			if in.ok != nil {
				rhs = append(rhs, in.ok)
			}
			in.bind = []ast.Stmt{&ast.AssignStmt{Lhs: c.Lhs, Tok: c.Tok, Rhs: rhs}}
			if c.Tok == token.DEFINE {
				for _, l := range c.Lhs {
					if id, ok := l.(*ast.Ident); ok && id.Name != "_" {
						in.bind = append(in.bind, &ast.AssignStmt{Lhs: []ast.Expr{ast.NewIdent("_")}, Tok: token.ASSIGN, Rhs: []ast.Expr{ast.NewIdent(id.Name)}})
					}
				}
			}
		default:
			rw.warns = append(rw.warns, fmt.Sprintf("%s: unsupported comm clause; select left as is", rw.fset.Position(s.Pos())))
			return []ast.Stmt{rw.yield(s.Pos(), "select-raw"), s, rw.yield(s.Pos(), "select-raw-post")}
		}
	}

	setSel := func(i int) ast.Stmt {
		return &ast.AssignStmt{Lhs: []ast.Expr{sel}, Tok: token.ASSIGN, Rhs: []ast.Expr{intLit(i)}}
	}

	// polling phase, in simulator-chosen order
	idx := rw.fresh("i")
	var pollCases []ast.Stmt
	for i, in := range infos {
		poll := &ast.SelectStmt{Body: &ast.BlockStmt{List: []ast.Stmt{
			&ast.CommClause{Comm: in.comm(), Body: []ast.Stmt{setSel(i)}},
			&ast.CommClause{},
		}}}
		pollCases = append(pollCases, &ast.CaseClause{List: []ast.Expr{intLit(i)}, Body: []ast.Stmt{poll}})
	}
	loop := &ast.RangeStmt{
		Key: ast.NewIdent("_"), Value: idx, Tok: token.DEFINE,
		X: call("Perm", intLit(len(infos))),
		Body: &ast.BlockStmt{List: []ast.Stmt{
			&ast.SwitchStmt{Tag: idx, Body: &ast.BlockStmt{List: pollCases}},
			&ast.IfStmt{Cond: &ast.BinaryExpr{X: sel, Op: token.GEQ, Y: intLit(0)}, Body: &ast.BlockStmt{List: []ast.Stmt{&ast.BranchStmt{Tok: token.BREAK}}}},
		}},
	}
	out = append(out, loop)

	if def == nil {
		// blocking phase
		var blockCases []ast.Stmt
		for i, in := range infos {
			blockCases = append(blockCases, &ast.CommClause{Comm: in.comm(), Body: []ast.Stmt{setSel(i)}})
		}
		out = append(out, &ast.IfStmt{
			Cond: &ast.BinaryExpr{X: sel, Op: token.LSS, Y: intLit(0)},
			Body: &ast.BlockStmt{List: []ast.Stmt{
				&ast.SelectStmt{Body: &ast.BlockStmt{List: blockCases}},
				rw.yield(s.Pos(), "select-wake"),
			}},
		})
	}

	// dispatch
	var bodies []ast.Stmt
	for i, cc := range clauses {
		body := append(append([]ast.Stmt{}, infos[i].bind...), cc.Body...)
		cl := &ast.CaseClause{List: []ast.Expr{intLit(i)}, Body: body}
		if def == nil && i == len(clauses)-1 {
			cl.List = nil // default: keeps the construct a terminating statement when the select was one
		}
		bodies = append(bodies, cl)
	}
	if def != nil {
		bodies = append(bodies, &ast.CaseClause{Body: def.Body})
	}
	out = append(out, &ast.SwitchStmt{Tag: sel, Body: &ast.BlockStmt{List: bodies}})
	return out
}

// Describe is used by the driver for logging.
func (r *Result) Describe() string {
	return fmt.Sprintf("%d files rewritten, %d yields, %d selects, %d goroutine sites, %d map ranges, %d warnings",
		len(r.Replace), r.Yields, r.Selects, r.GoStmts, r.MapRange, len(r.Warnings))
}

var _ = strings.TrimSpace
