#!/usr/bin/env python3
"""Regenerates /verif/MANIFEST.json from the tables below (single source of truth for the interface)."""
import json, os
HERE = os.path.dirname(os.path.dirname(os.path.abspath(__file__)))
BASE = "for m in $(cat /w/out/gomods.txt); do MF=$(cd /repo/$m && . /w/out/goenv.sh && gomodflag); (cd /repo/$m && go test $MF -json -vet=off -count=1 -timeout 25m ./...); done"

TRUST = ("Trusted base: the instrumenter (mechanical source rewriting that preserves single-threaded semantics), "
         "testing/synctest's fake clock and quiescence detection (go1.26.8), the simulated environment listed under "
         "stub_components in the evidence file. Pre-emption happens only at synchronisation points; seeded search samples, it does not enumerate.")

CHECKS = {}
for _f in sorted(os.listdir(os.path.join(HERE, "bin", "manifest.d"))):
    if _f.endswith(".json"):
        with open(os.path.join(HERE, "bin", "manifest.d", _f)) as _fh:
            CHECKS.update(json.load(_fh)["checks"])

NA = {
 "C03": "not built yet in this revision (H-store harness pending); no claim is made",
 "C04": "not built yet in this revision (H-store harness pending); no claim is made",
 "C05": "pure function of its input (WriteGGUF -> Decode round trip): no schedule, clock, fault or interleaving for a simulator to control; input generation under simulator vocabulary would not be deterministic simulation",
 "C06": "not built yet in this revision (H-runner harness pending); no claim is made",
 "C07": "not built yet in this revision (H-runner harness pending); no claim is made",
 "C08": "not built yet in this revision (H-blob harness pending); no claim is made",
 "C09": "not built yet in this revision (H-registry harness pending); no claim is made",
 "C10": "not built yet in this revision (H-gguf harness pending); no claim is made",
 "C12": "not built yet in this revision (H-store harness pending); no claim is made",
 "C13": "pure string functions (name/digest parsing, path construction): nothing for a scheduler, clock or fault injector to act on",
 "C14": "not built yet in this revision (H-runner harness pending); no claim is made",
 "C15": "not built yet in this revision (H-api harness pending); no claim is made",
 "C16": "pure arithmetic over (model shape, GPU list, options): no concurrency, time or I/O",
 "C17": "not built yet in this revision (H-api harness pending); no claim is made",
 "C18": "pure function of (logits, parameters, seed): no concurrency, time or I/O",
 "C19": "pure function of (messages, context length, template) with a deterministic tokenizer callback",
 "C20": "pure function of (text, vocabulary)",
}

def main():
    checks = []
    for pid in sorted(CHECKS):
        c = CHECKS[pid]
        checks.append({
            "property_id": pid,
            "quick_cmd": f"./bin/check {pid} quick",
            "thorough_cmd": f"./bin/check {pid} thorough",
            "evidence_file": f"/verif/evidence/{pid}.json",
            "replay_cmd_template": "./bin/check --replay {path}",
            "engine": "detsim",
            "level_claimed": {"category": c["level"], "text": c["text"], "design_ref": "DESIGN.md section " + c["ref"]},
            "level_note": c.get("note", TRUST),
            "technique": c["technique"],
        })
    man = {
        "version": 1,
        "setup_cmd": "./bin/check --warm",
        "hooks": {
            "guard": "verif",
            "enable": "no hook is committed to /repo: every check instruments the current working tree at check time and builds with `go1.26.8 test -c -tags verif -overlay <generated overlay.json>` (the overlay adds package verifsim, the harness zz_verif_*_test.go files and the rewritten copies of the instrumented files)",
            "baseline_off_cmd": BASE,
            "source_commits": [],
            "add_only": True,
        },
        "engines": [{
            "name": "detsim", "path": "/verif/detsim",
            "serves_properties": sorted(CHECKS),
            "kind_free_text": "deterministic simulation with fault injection: seeded cooperative scheduler over testing/synctest (fake clock, quiescence), choice tape with record/replay/ddmin minimisation, source instrumenter (yields, mutex/once type swap, select and map-range determinisation), simulated runner/GPU/network/disk",
        }],
        "checks": checks,
        "not_applicable": [{"property_id": p, "reason": NA[p]} for p in sorted(NA) if p not in CHECKS],
        "notes": "VERIF_SEED selects the seed of the invocation (default 1), VERIF_TIER overrides the tier argument, VERIF_WORKERS the number of worker processes (default 16). Exit 0 held / 1 VIOLATION / 2 build, watchdog or nondeterminism trouble. Known findings: /verif/known_findings.json.",
    }
    with open(os.path.join(HERE, "MANIFEST.json"), "w") as f:
        json.dump(man, f, indent=1)
        f.write("\n")

if __name__ == "__main__":
    main()
