#!/usr/bin/env python3
"""Development aid: build findings/blob-known-proposed.json (entries in the exact
format of known_findings.json) from the replay files under findings/ of the
blob and registry harnesses. One entry per signature; signatures that share a
root defect share the defect text and the proposed fix."""
import glob, json, os, re

here = os.path.dirname(os.path.dirname(os.path.abspath(__file__)))

DEFECTS = [
    # (id, regex over the signature, defect text, fix file)
    ("D5", r"^cache-content:chunked:partial-chunks:|^pull-audit:(success:layer-(corrupt|long|short):(trusted-existing-file|plan-dup-and-gap|plan-overlapping|downloaded-concurrently|downloaded-on-retry)|standing:layer-|after-crash:layer-)",
     "chunked layers are assembled in place under the blob's final name: the file reaches the manifest's size before it is complete (last chunk first, failed or never listed chunks, crash), unverified chunk bytes are written into it (all but the last write of a chunk that then fails verification, also past the blob's end or over chunks verified earlier or by a concurrent pull), and DiskCache.Get / Registry.Pull trust any file of the right size, so a retry, a concurrent pull or a chunk plan whose byte count adds up (duplicate + gap) reports success and links the name with a corrupt layer",
     "findings/fix-5.chunked-layer-trusted-before-complete.diff"),
    ("D1", r"^cache-content:(put|chunked|import):concurrent-(failed-writer|writers):",
     "DiskCache.Put (copyNamedFile) writes into the blob's final file: with two writers of one digest a failing writer's Truncate(0) or its bad bytes hit the file under, or after, a good writer - the good writer completes the file to full size with a hole or foreign bytes (Get then reports a corrupt blob of the right size), or a blob whose Put returned nil is zeroed afterwards",
     "findings/fix-1.blob-store-in-place-concurrent-writers-and-torn-links.diff"),
    ("D1b", r"^cache-content:(resolve:(crash-during-link|after-failed-link|after-crash|disk-errors):resolve-(empty-manifest|garbage)|resolve:concurrent-name-ops:resolve-(empty-manifest|garbage)|links:(after-failed-link|crash-during-link|disk-errors):)",
     "DiskCache.Link (copyNamedFile) rewrites the manifest file in place: a crash between create and the last write, a Link that fails half-way (its error path truncates the file, destroying the previous link) or a concurrent Resolve leave or see an empty or torn manifest, and Resolve then returns the digest of bytes nobody linked (and stores them as a blob)",
     "findings/fix-1.blob-store-in-place-concurrent-writers-and-torn-links.diff"),
    ("D2", r"^cache-content:(store|resolve|link):empty-blob:",
     "the empty blob can be stored but never retrieved: Put/Import/Chunked of the empty digest return nil, yet Get treats every zero-length file as absent",
     "findings/fix-2.blob-empty-blob-not-retrievable.diff"),
    ("D3", r"resolve-stale-after-relink$|^pull-audit:success:manifest-mismatch$",
     "re-linking a name to another manifest of the same byte length is silently dropped: copyNamedFile's 'file of the right size exists' shortcut (meant for blobs) also applies to the manifest file, Link returns nil and the name keeps resolving to the old manifest (a successful pull of an updated tag leaves the old model linked)",
     "findings/fix-3.blob-relink-same-size-manifest-ignored.diff"),
    ("D4", r"^cache-content:(link:(zero-length-file|partial-file|concurrent-blob-writer|no-file):link-ok-blob-absent|resolve:linked-incomplete-blob:)",
     "Link succeeds on a zero-length blob file of a non-empty digest (left by a failed Put's Truncate(0), by a crash after create, or by Chunked, which creates the final file before any chunk arrives): copyNamedFile's size==0 early return skips the hash check, the name is linked to an empty manifest although Get reports the blob absent",
     "findings/fix-4.blob-link-of-zero-length-blob-file.diff"),
    ("D6", r"^cache-content:resolve:concurrent-name-ops:resolve-stale-after-unlink$|^cache-content:resolve:concurrent-name-ops:(case-variants-differ|resolve-notexist-but-linked)$|^cache-content:links:concurrent-name-ops:",
     "concurrent Link calls for case variants of one name each find no manifest file and create their own; Unlink then removes only the first and the name still resolves (no fix proposed: needs a lock or a canonical file name)",
     ""),
]

out = []
seen = set()
for f in sorted(glob.glob(os.path.join(here, "findings", "blob-*.C08.json")) + glob.glob(os.path.join(here, "findings", "registry-*.C09.json"))):
    r = json.load(open(f))
    sig = r["expect"]["signature"]
    if sig in seen:
        continue
    seen.add(sig)
    did, text, fix = "D?", "UNCLASSIFIED", ""
    for d, rx, t, fx in DEFECTS:
        if re.search(rx, sig):
            did, text, fix = d, t, fx
            break
    what = f"[{did}] {text}. Replay: findings/{os.path.basename(f)}"
    if fix:
        what += f"; proposed fix: {fix} (all fixes together: findings/proposed-fixes.all-combined.diff)"
    out.append({"property": r["property"], "signature": sig, "status": "open", "what": what})
# signatures of the same defects that other seeds / earlier engine versions produced (no replay kept for the current engine)
EXTRA = [
    ("C08", "cache-content:resolve:linked-incomplete-blob:resolve-empty-manifest"),
    ("C08", "cache-content:resolve:concurrent-name-ops:resolve-garbage"),
    ("C08", "cache-content:resolve:concurrent-name-ops:resolve-stale-after-relink"),
    ("C08", "cache-content:resolve:crash-during-link:resolve-stale-after-relink"),
    ("C08", "cache-content:resolve:disk-errors:resolve-stale-after-relink"),
    ("C08", "cache-content:chunked:concurrent-failed-writer:store-ok-get-missing"),
    ("C08", "cache-content:put:concurrent-writers:store-ok-get-missing"),
    ("C08", "cache-content:link:partial-file:link-ok-blob-absent"),
    ("C09", "pull-audit:success:layer-long:trusted-existing-file"),
]
for prop, sig in EXTRA:
    if sig in seen:
        continue
    seen.add(sig)
    did, text, fix = "D?", "UNCLASSIFIED", ""
    for d, rx, t, fx in DEFECTS:
        if re.search(rx, sig):
            did, text, fix = d, t, fx
            break
    what = f"[{did}] {text}. (Signature seen with other seeds; no replay file kept for the current engine version)"
    if fix:
        what += f"; proposed fix: {fix}"
    out.append({"property": prop, "signature": sig, "status": "open", "what": what})
out.sort(key=lambda e: (e["property"], e["what"][:4], e["signature"]))
with open(os.path.join(here, "findings", "blob-known-proposed.json"), "w") as fh:
    fh.write("[\n" + ",\n".join(" " + json.dumps(e) for e in out) + "\n]\n")
for e in out:
    print(e["property"], e["what"][:5], e["signature"])
print(len(out), "entries")
