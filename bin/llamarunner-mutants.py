#!/usr/bin/env python3
# Development aid of the H-llamarunner builder: seeded breakages of runner/llamarunner.
# usage: bin/llamarunner-mutants.py <id>...   (or "all")
# Needs /tmp/lr-fixed = a scratch worktree of /repo with the proposed fixes applied:
#   git -C /repo worktree add --detach /tmp/lr-fixed HEAD
#   git -C /tmp/lr-fixed apply /verif/findings/llamarunner-proposed-fix-1-*.diff /verif/findings/llamarunner-proposed-fix-2-*.diff
# (so that the genuine findings of the unchanged tree do not answer for a mutant) and the
# proposed known findings registered (bin/llamarunner-localknown) for the C14 mutants.
# Each mutant: /tmp/lr-mut = fixed tree + mutation, quick check of the llamarunner stage,
# replay on the mutant (exit 1) and on the fixed tree (exit 0). Writes seeded_self/<id>.diff
# relative to the unchanged /repo.
import subprocess, sys, os, shutil, json, re, time
VERIF='/root/work/llamarunner'
FIXED='/tmp/lr-fixed'      # /repo HEAD + proposed fixes
MUT='/tmp/lr-mut'          # scratch worktree the mutants run in
M = {
 # id: (prop, file, old, new, description)
 'C07-l1': ('C07','cache.go','c.lc.KvCacheSeqCp(longestSlot.Id, oldestSlot.Id, 0, longest)','c.lc.KvCacheSeqCp(longestSlot.Id, oldestSlot.Id, 0, longest-1)','findBestCacheSlot: the fork copies one cell less than the record it gives the new slot'),
 'C07-l2': ('C07','cache.go','			c.lc.KvCacheSeqAdd(slot.Id, numKeep+discard, inputLen, -discard)\n','			_ = inputLen\n','ShiftCacheSlot: the kept tail is not moved down after the middle was erased (KvCacheSeqAdd forgotten)'),
 'C07-l3': ('C07','cache.go','		c.lc.KvCacheSeqRm(slot.Id, 0, -1)\n		numPast = 0\n','		numPast = 0\n','LoadCacheSlot: after a refused partial erase the sequence is not cleared (recurrent caches)'),
 'C07-l4': ('C07','cache.go','		if s.InUse {\n			continue\n		}\n\n		count := countCommonPrefix(s.Inputs, prompt)\n		if count > longest {','		count := countCommonPrefix(s.Inputs, prompt)\n		if count > longest {','findLongestCacheSlot: slots in use are candidates too'),
 'C07-l5': ('C07','cache.go','	for i := numKeep + discard; i < inputLen; i++ {\n		slot.Inputs[i-discard] = slot.Inputs[i]','	for i := numKeep + discard + 1; i < inputLen; i++ {\n		slot.Inputs[i-discard] = slot.Inputs[i]','ShiftCacheSlot: the record is shifted from one input too late (first moved input keeps its old value)'),
 'C07-l6': ('C07','runner.go','batch.Add(input.token, input.embed, len(seq.cache.Inputs)+len(seq.pendingInputs), i+1 == len(seq.inputs), seq.cache.Id)','batch.Add(input.token, input.embed, len(seq.cache.Inputs)+min(len(seq.pendingInputs), 2), i+1 == len(seq.inputs), seq.cache.Id)','processBatch: positions inside a batch stop growing after the third entry of a sequence'),
 'C14-l8': ('C14','runner.go','			if tokenTruncated || origLen == newLen {\n				tokenLen--\n			}\n','			_ = tokenTruncated\n			if origLen == newLen {\n				tokenLen--\n			}\n','processBatch: a token whose text was cut by a stop string that spans several pieces stays in the slot record (P6)'),
 'C07-l7': ('C07','cache.go','	if !c.lc.KvCacheSeqRm(slot.Id, numPast, -1) {','	if !c.lc.KvCacheSeqRm(slot.Id, numPast+1, -1) {','LoadCacheSlot: the cache is trimmed one position late (the first cell behind the common prefix survives)'),
 'C07-l8': ('C07','runner.go','	seq.cache.InUse = false\n	s.seqs[seqIndex] = nil','	s.seqs[seqIndex] = nil','removeSequence: the slot is not released'),
 'C07-l9': ('C07','cache.go','		if !reflect.DeepEqual(a[i], b[i]) {','		if i > 0 && !reflect.DeepEqual(a[i], b[i]) {','countCommonPrefix: the first input always counts as common (a slot that starts with another token is resumed; only the differential oracle can see it)'),
 'C07-l10': ('C07','cache.go','	if longest == len(longestSlot.Inputs) && !longestSlot.InUse {','	if longest == len(longestSlot.Inputs) {','findBestCacheSlot: a slot whose whole record matches is reused even when it is in use (multi-user policy)'),
 'C07-l11': ('C07','runner.go','	s.mu.Lock()\n	found := false\n	for i, sq := range s.seqs {\n		if sq == nil {\n			seq.cache, seq.inputs, err = s.cache.LoadCacheSlot(seq.inputs, true)','	seqsSeen := append([]*Sequence(nil), s.seqs...)\n	s.mu.Lock()\n	found := false\n	for i, sq := range seqsSeen {\n		if sq == nil {\n			seq.cache, seq.inputs, err = s.cache.LoadCacheSlot(seq.inputs, true)','completion: the free entry of Server.seqs is chosen from a copy taken before Server.mu is locked (two handlers, one entry; schedule-dependent)'),
 'C07-l12': ('C07','runner.go','			} else if embedding != batch.IsEmbedding() || crossAttention != seq.crossAttention {','			} else if crossAttention != seq.crossAttention {','processBatch: token and image-embedding inputs are put into the same batch (needs prompts with images)'),
 'C14-l1': ('C14','runner.go','		if common.ContainsStopSuffix(sequence, seq.stop) {\n			continue\n		}\n','','processBatch: text that may be the beginning of a stop string is not withheld'),
 'C14-l2': ('C14','runner.go','		if common.IncompleteUnicode(sequence) {\n			continue\n		}\n','','processBatch: an incomplete multi-byte character is not withheld (flushPending then drops its bytes)'),
 'C14-l3': ('C14','runner.go','seq.numPredict > 0 && seq.numPredicted >= seq.numPredict','seq.numPredict > 0 && seq.numPredicted > seq.numPredict','processBatch: the prediction limit lets one token too many through'),
 'C14-l4': ('C14','runner.go','			// seq.responses <- piece\n\n			s.removeSequence(i, llm.DoneReasonStop)','			// seq.responses <- piece\n\n			s.removeSequence(i, llm.DoneReasonLength)','processBatch: end-of-sequence is reported as done_reason length'),
 'C14-l5': ('C14','runner.go','	for !utf8.ValidString(joined) {\n		joined = joined[:len(joined)-1]\n	}\n','	_ = utf8.ValidString\n','flushPending: an incomplete character at the end of generation is sent as it is'),
 'C14-l6': ('C14','runner.go','			seq.pendingResponses, tokenTruncated = common.TruncateStop(seq.pendingResponses, stop)','			_, tokenTruncated = common.TruncateStop(seq.pendingResponses, stop)','processBatch: the pending pieces are not cut at the stop string'),
 'C14-l7': ('C14','runner.go','			tokenLen -= origLen - newLen\n','			tokenLen -= origLen - newLen - 1\n','processBatch: after a stop string the slot record keeps one token more than was returned (P6)'),
}
def sh(*a, **k): return subprocess.run(a, capture_output=True, text=True, **k)
def reset():
    sh('git','-C',MUT,'checkout','--','.')
    for f in ('cache.go','runner.go'):
        shutil.copy(f'{FIXED}/runner/llamarunner/{f}', f'{MUT}/runner/llamarunner/{f}')
if not os.path.isdir(MUT):
    print(sh('git','-C','/repo','worktree','add','--detach',MUT,'HEAD').stderr)
ids = sys.argv[1:]
if ids == ['all']: ids = list(M)
os.makedirs(f'{VERIF}/seeded_self', exist_ok=True)
for mid in ids:
    prop, f, old, new, desc = M[mid]
    # diff against the original tree
    orig = open(f'/repo/runner/llamarunner/{f}').read()
    assert orig.count(old) == 1, (mid, 'orig', orig.count(old))
    tmp = f'/tmp/lr-work/{mid}.{f}'
    open(tmp,'w').write(orig.replace(old,new))
    d = sh('diff','-u','--label',f'a/runner/llamarunner/{f}','--label',f'b/runner/llamarunner/{f}',f'/repo/runner/llamarunner/{f}',tmp).stdout
    open(f'{VERIF}/seeded_self/{mid}.diff','w').write(f'# {mid} (H-llamarunner): {desc}\n'+d)
    os.remove(tmp)
    reset()
    p = f'{MUT}/runner/llamarunner/{f}'
    s = open(p).read()
    assert s.count(old) == 1, (mid, 'fixed', s.count(old))
    open(p,'w').write(s.replace(old,new))
    env = dict(os.environ, VERIF_REPO=MUT, VERIF_STAGE='llamarunner', VERIF_WORKERS=os.environ.get('MUT_WORKERS','6'), VERIF_WALL_S='25')
    t0=time.time()
    r = sh(f'{VERIF}/bin/check', prop, 'quick', env=env)
    out = r.stdout + r.stderr
    sigs = re.findall(r'violation: class=(\S+) signature=(\S+)', out)
    rep = re.findall(r'VIOLATION property=\S+ replay=(\S+)', out)
    status = 'CAUGHT' if r.returncode == 1 else ('MISSED' if r.returncode == 0 else 'TROUBLE')
    res = {'id': mid, 'status': status, 'exit': r.returncode, 'sigs': sigs, 'replays': rep, 'wall': round(time.time()-t0)}
    if status == 'CAUGHT' and rep:
        # the replay reproduces on the mutant and not on the (fixed) clean tree
        r1 = sh(f'{VERIF}/bin/check','--replay',rep[0], env=dict(env))
        reset()
        r2 = sh(f'{VERIF}/bin/check','--replay',rep[0], env=dict(env))
        res['replay_mutant_exit'] = r1.returncode
        res['replay_clean_exit'] = r2.returncode
    if status == 'TROUBLE':
        res['tail'] = out[-1500:]
    print(json.dumps(res), flush=True)
    open('/tmp/lr-work/mutants.log','a').write(json.dumps(res)+'\n')
reset()
