#!/usr/bin/env python3
"""Development aid (not used by any registered check): run a check repeatedly,
treat every violation signature seen so far as assumed-known (VERIF_ASSUME_KNOWN,
honoured by the blob and registry harnesses only), and copy the replay file of every
new signature to findings/<prefix>-<signature>.<ID>.json.

usage: bin/dev-collect.py <ID> <assume-file> <rounds> [wall_s] [workers] [prefix]
"""
import os, re, shutil, subprocess, sys

here = os.path.dirname(os.path.dirname(os.path.abspath(__file__)))
prop, assume, rounds = sys.argv[1], sys.argv[2], int(sys.argv[3])
wall = sys.argv[4] if len(sys.argv) > 4 else "20"
workers = sys.argv[5] if len(sys.argv) > 5 else "8"
prefix = sys.argv[6] if len(sys.argv) > 6 else "blob"
open(assume, "a").close()
for i in range(rounds):
    env = dict(os.environ, VERIF_ASSUME_KNOWN=assume, VERIF_WORKERS=workers, VERIF_WALL_S=wall)
    p = subprocess.run([os.path.join(here, "bin", "check"), prop, "quick"], env=env, capture_output=True, text=True)
    txt = p.stdout + p.stderr
    print("round", i, "exit", p.returncode)
    found = re.findall(r"^violation: class=\S+ signature=(\S+)\n((?:  .*\n)*?)VIOLATION property=\S+ replay=(\S+)", txt, re.M)
    for sig, msg, rp in found:
        with open(assume, "a") as f:
            f.write(sig + "\n")
        name = prefix + "-" + re.sub(r"[^A-Za-z0-9_.+-]", ".", sig.split(":", 1)[1]) + "." + prop + ".json"
        shutil.copy(rp, os.path.join(here, "findings", name))
        print("NEW", sig, "->", "findings/" + name)
        print("\n".join(l[:400] for l in msg.splitlines()[:3]))
    print(txt.strip().splitlines()[-1][:300])
    if p.returncode == 2:
        print(txt[-3000:])
        break
    if not found:
        break
