#!/usr/bin/env python3
"""Development aid: sensitivity runs. For each seeded_self/<ID>-<n>.diff apply it
to a scratch worktree of the repository (never /repo itself), run the quick
check with VERIF_REPO pointing there, replay the violation on the mutant and on
the base tree, revert.

usage: bin/dev-mutants.py <ID> <scratch-worktree> <base-tree> [assume-file] [wall_s] [workers] [only n,n,...]
"""
import glob, os, re, subprocess, sys

here = os.path.dirname(os.path.dirname(os.path.abspath(__file__)))
prop, wt, base = sys.argv[1], sys.argv[2], sys.argv[3]
assume = sys.argv[4] if len(sys.argv) > 4 else ""
wall = sys.argv[5] if len(sys.argv) > 5 else "30"
workers = sys.argv[6] if len(sys.argv) > 6 else "8"
only = set(sys.argv[7].split(",")) if len(sys.argv) > 7 else None
check = os.path.join(here, "bin", "check")
base_diff = os.environ.get("BASE_DIFF", "")  # applied to the scratch worktree before every mutant (mutants on top of proposed fixes)
suffix = os.environ.get("MUTANT_SUFFIX", "")  # seeded_self/<ID>-<n><suffix>.diff


def reset():
    subprocess.run(["git", "-C", wt, "checkout", "-q", "--", "."], check=True)
    if base_diff:
        subprocess.run(["git", "-C", wt, "apply", base_diff], check=True)



def run(args, repo):
    env = dict(os.environ, VERIF_REPO=repo, VERIF_WORKERS=workers, VERIF_WALL_S=wall)
    if assume:
        env["VERIF_ASSUME_KNOWN"] = assume
    p = subprocess.run([check] + args, env=env, capture_output=True, text=True)
    return p.returncode, p.stdout + p.stderr


for d in sorted(glob.glob(os.path.join(here, "seeded_self", prop + "-*" + suffix + ".diff")), key=lambda x: int(re.findall(r"-(\d+)[a-z]*\.diff", x)[0])):
    if not re.search(r"-\d+" + suffix + r"\.diff$", d):
        continue
    n = re.findall(r"-(\d+)[a-z]*\.diff", d)[0]
    if only and n not in only:
        continue
    reset()
    a = subprocess.run(["git", "-C", wt, "apply", d], capture_output=True, text=True)
    if a.returncode != 0:
        print(f"{prop}-{n}: DIFF DOES NOT APPLY: {a.stderr.strip()}")
        continue
    code, out = run([prop, "quick"], wt)
    sigs = re.findall(r"^violation: class=\S+ signature=(\S+)", out, re.M)
    reps = re.findall(r"^VIOLATION property=\S+ replay=(\S+)", out, re.M)
    last = out.strip().splitlines()[-1][:160] if out.strip() else ""
    res = f"{prop}-{n}: exit {code} sigs={sigs}"
    if code == 1 and reps:
        c1, _ = run(["--replay", reps[0]], wt)
        reset()
        c0, _ = run(["--replay", reps[0]], wt if base_diff else base)
        res += f" replay(mutant)={c1} replay(base)={c0}"
        keep = os.path.join(here, "seeded_self", f"{prop}-{n}{suffix}.replay.json")
        subprocess.run(["cp", reps[0], keep])
    elif code == 2:
        res += "\n" + out[-1500:]
    print(res)
    print("   ", open(d).readline().strip()[:200])
    print("   ", last)
    subprocess.run(["git", "-C", wt, "checkout", "-q", "--", "."], check=True)
