//go:build verif

package verifsim

import (
	"fmt"
	"runtime"
	"sort"
	"strconv"
	"strings"
	"testing"
	"testing/synctest"
	"time"
)

// Result is what one simulated execution produced.
type Result struct {
	Violations  []Violation
	Steps       int
	SimTime     time.Duration
	Faults      map[string]int
	Probes      map[string]int
	SchedHash   uint64
	MaxRunnable int
	Strategy    string
	TapeUsed    int
	Tape        []uint32
	TapeOver    bool
	Overflow    bool
	NonBaton    int
	Trace       []string
	HarnessErr  string
	Info        map[string]int // harness counters (requests granted, ops done, ...)
	Sample      []string       // harness-level description of the case
	States      []uint64       // abstract state hashes seen (harness-defined)
	Executions  int            // number of simulated executions this result stands for (0 = 1; enumerating harnesses)
	ExtraHashes []uint64       // schedule/case hashes of the additional executions
}

var (
	bufTasks  = make([]*Task, 0, maxTasks)
	bufParked = make([]*Task, 0, maxTasks)
	bufEvents = make([]Event, 0, maxEvents)
)

// Run executes body as the controller of a fresh bubble. body returns when the
// run is over; everything it left blocked is abandoned with the bubble.
func Run(t *testing.T, tape *Tape, keepLog bool, body func(s *Sim, res *Result)) (res Result) {
	res.Info = map[string]int{}
	finished := false
	defer func() {
		if r := recover(); r != nil {
			cur = nil
			if !finished {
				res.HarnessErr = fmt.Sprintf("controller panic: %v\n%s", r, stackHere())
			}
			// otherwise: synctest's "blocked goroutines remain" at the end of the bubble
		}
	}()
	synctest.Test(t, func(t *testing.T) {
		s := newSim(tape)
		s.tasks, s.parked, s.events = bufTasks[:0], bufParked[:0], bufEvents[:0]
		s.KeepLog = keepLog
		body(s, &res)
		s.quiesce()
		s.fill(&res)
		cur = nil
		finished = true
	})
	return res
}

func stackHere() string {
	b := make([]byte, 16384)
	return string(b[:runtime.Stack(b, false)])
}

func (s *Sim) fill(res *Result) {
	s.mu.Lock()
	defer s.mu.Unlock()
	res.Violations = append([]Violation(nil), s.viol...)
	res.Steps = s.steps
	res.SimTime = time.Since(s.epoch)
	res.Faults = map[string]int{}
	for i := 0; i < s.nfault; i++ {
		res.Faults[s.faults[i].name] = s.faults[i].n
	}
	res.Probes = map[string]int{}
	for i := 0; i < s.nprobe; i++ {
		res.Probes[s.probes[i].name] = s.probes[i].n
	}
	res.SchedHash = s.hash
	res.MaxRunnable = s.maxRun
	res.Strategy = stratNames[s.strategy]
	res.TapeUsed = s.tape.Used()
	res.Tape = s.tape.Recorded()
	res.TapeOver = s.tape.Over
	res.Overflow = s.overflow
	res.NonBaton = s.nonBaton
	if s.nStall > 0 {
		res.Faults["cpu_stall"] += s.nStall
	}
	if s.KeepLog {
		res.Trace = s.traceLocked(0)
	}
}

func (s *Sim) traceLocked(last int) []string {
	ev := s.events
	if last > 0 && len(ev) > last {
		ev = ev[len(ev)-last:]
	}
	out := make([]string, 0, len(ev))
	for _, e := range ev {
		out = append(out, fmt.Sprintf("t=%v %s[%s] %s (runnable=%d)", e.At, e.Task.key, e.Task.name, e.Label, e.Nrun))
	}
	return out
}

// TraceTail formats the last n scheduling decisions (controller only).
func (s *Sim) TraceTail(n int) []string {
	s.quiesce()
	s.mu.Lock()
	defer s.mu.Unlock()
	return s.traceLocked(n)
}

// EventLabels calls f for every scheduling decision so far (probes over the
// event log; controller only).
func (s *Sim) EventLabels(f func(task, label string)) {
	s.quiesce()
	s.mu.Lock()
	ev := s.events
	s.mu.Unlock()
	for _, e := range ev {
		f(e.Task.name, e.Label)
	}
}

// GoroutineFuncs returns, for task t, the function names on its stack (top
// first), read from an all-goroutines dump. Controller only.
func (s *Sim) GoroutineFuncs(tasks ...*Task) map[*Task][]string {
	buf := make([]byte, 1<<20)
	for {
		n := runtime.Stack(buf, true)
		if n < len(buf) {
			buf = buf[:n]
			break
		}
		buf = make([]byte, 2*len(buf))
	}
	out := map[*Task][]string{}
	blocks := strings.Split(string(buf), "\n\n")
	for _, b := range blocks {
		if !strings.HasPrefix(b, "goroutine ") {
			continue
		}
		sp := strings.IndexByte(b[10:], ' ')
		if sp < 0 {
			continue
		}
		id, _ := strconv.ParseUint(b[10:10+sp], 10, 64)
		for _, t := range tasks {
			if t.gid == id {
				out[t] = stackFuncs(b)
			}
		}
	}
	return out
}

func stackFuncs(block string) []string {
	var fns []string
	lines := strings.Split(block, "\n")
	for i := 1; i < len(lines); i++ {
		ln := lines[i]
		if strings.HasPrefix(ln, "\t") || ln == "" {
			continue
		}
		// the next line names the file: frames of harness and kernel files are not repository code
		if i+1 < len(lines) {
			file := lines[i+1]
			if strings.Contains(file, "zz_verif") || strings.Contains(file, "/verifsim/") || strings.Contains(file, "/detsim/") || strings.Contains(file, "/verif/harness/") {
				continue
			}
		}
		if j := strings.LastIndexByte(ln, '('); j > 0 {
			ln = ln[:j]
		}
		fns = append(fns, strings.TrimPrefix(ln, "created by "))
	}
	return fns
}

const repoPrefix = "github.com/ollama/ollama/"

// RepoFunc returns the first function in fns that belongs to the repository
// proper (not the kernel, not a harness file's zz/verif helpers).
func RepoFunc(fns []string) string {
	for _, f := range fns {
		if !strings.HasPrefix(f, repoPrefix) || strings.HasPrefix(f, repoPrefix+"verifsim") {
			continue
		}
		short := strings.TrimPrefix(f, repoPrefix)
		base := short[strings.LastIndexByte(short, '/')+1:]
		if strings.Contains(base, "verif") || strings.Contains(base, "Verif") || strings.Contains(base, ".sim") || strings.Contains(base, ".Sim") {
			continue
		}
		// strip closure suffixes: pkg.(*T).M.func1.2 -> pkg.(*T).M
		for {
			i := strings.LastIndexByte(short, '.')
			if i < 0 {
				break
			}
			suf := short[i+1:]
			if strings.HasPrefix(suf, "func") || strings.HasPrefix(suf, "gowrap") || isDigits(suf) {
				short = short[:i]
				continue
			}
			break
		}
		return short
	}
	return "?"
}

func isDigits(s string) bool {
	if s == "" {
		return false
	}
	for _, c := range s {
		if c < '0' || c > '9' {
			return false
		}
	}
	return true
}

func topRepoFunc(stack string) string { return RepoFunc(stackFuncs(stack)) }

// StackRepoFunc returns the innermost repository function of a single-goroutine stack dump.
func StackRepoFunc(stack string) string { return RepoFunc(stackFuncs(stack)) }

func panicString(r any) string {
	switch v := r.(type) {
	case error:
		return v.Error()
	case string:
		return v
	default:
		return fmt.Sprint(r)
	}
}

// panicClass reduces a panic message to a stable class.
func panicClass(msg string) string {
	switch {
	case strings.Contains(msg, "nil pointer dereference"):
		return "nil-deref"
	case strings.Contains(msg, "slice bounds out of range"):
		return "slice-bounds"
	case strings.Contains(msg, "index out of range"):
		return "index-range"
	case strings.Contains(msg, "close of closed channel"):
		return "double-close-chan"
	case strings.Contains(msg, "send on closed channel"):
		return "send-closed-chan"
	case strings.Contains(msg, "unlock of unlocked"):
		return "unlock-unlocked"
	case strings.Contains(msg, "interface conversion"):
		return "type-assertion"
	case strings.Contains(msg, "divide by zero"):
		return "div-zero"
	case strings.Contains(msg, "makeslice") || strings.Contains(msg, "out of memory"):
		return "alloc"
	case strings.Contains(msg, "negative WaitGroup"):
		return "waitgroup"
	}
	if len(msg) > 40 {
		msg = msg[:40]
	}
	return strings.Map(func(r rune) rune {
		if r >= '0' && r <= '9' {
			return -1
		}
		return r
	}, msg)
}

// DeadlockSignature builds the stable signature of a wait-for cycle.
func (s *Sim) DeadlockSignature(cycle []*Task) (sig string, detail string) {
	fns := s.GoroutineFuncs(cycle...)
	var parts []string
	var sb strings.Builder
	for _, t := range cycle {
		f := RepoFunc(fns[t])
		parts = append(parts, f)
		fmt.Fprintf(&sb, "task %s[%s] in %s (last yield %s) waits for a lock", t.key, t.name, f, t.label)
		var o *Task
		if t.waitM != nil {
			o = t.waitM.owner
		} else if t.waitRW != nil {
			o = t.waitRW.owner
		}
		if o != nil {
			fmt.Fprintf(&sb, " held by %s[%s]", o.key, o.name)
		}
		sb.WriteString("\n")
	}
	sort.Strings(parts)
	return "deadlock:" + strings.Join(parts, "|"), sb.String()
}

// BlockedSummary describes every task blocked inside the code under test.
func (s *Sim) BlockedSummary() (funcs []string, detail string) {
	bl := s.Blocked()
	fns := s.GoroutineFuncs(bl...)
	var sb strings.Builder
	for _, t := range bl {
		f := RepoFunc(fns[t])
		funcs = append(funcs, f)
		fmt.Fprintf(&sb, "task %s[%s] blocked in %s after yield %q\n", t.key, t.name, f, t.label)
	}
	return funcs, sb.String()
}

func sortKeys[K comparable](keys []K) {
	switch ks := any(keys).(type) {
	case []string:
		sort.Strings(ks)
	case []int:
		sort.Ints(ks)
	default:
		sort.SliceStable(keys, func(i, j int) bool {
			return fmt.Sprintf("%v", keys[i]) < fmt.Sprintf("%v", keys[j])
		})
	}
}
