//go:build verif

package verifsim

import (
	"sync"
)

// Mutex is a drop-in replacement for sync.Mutex. Inside a simulation a
// contended Lock blocks on a bubble channel (a durable block, which a real
// mutex is not) and the kernel knows owner and waiters of every lock; outside
// one it is an ordinary mutex.
type Mutex struct {
	real  sync.Mutex
	held  bool
	sim   *Sim
	owner *Task
	whead *Task
	site  string
}

//go:norace
func (m *Mutex) Lock() {
	s := cur
	if s == nil {
		m.real.Lock()
		return
	}
	for {
		raceOff()
		s.mu.Lock()
		t := s.lookup(gid())
		if m.held && m.sim != s {
			// stale state left by an abandoned goroutine of an earlier run
			m.held, m.owner, m.whead = false, nil, nil
		}
		if !m.held {
			m.held = true
			m.sim = s
			m.owner = t
			if t != nil {
				t.holding++
				t.waitM = nil
			}
			s.mu.Unlock()
			raceOn()
			raceAcquire(m)
			return
		}
		if t == nil || t == s.root {
			// controller-side or unknown goroutine: cannot park; this is a harness bug
			s.mu.Unlock()
			raceOn()
			panic("verifsim: contended Lock from a goroutine that is not a task")
		}
		t.waitM = m
		t.nextW = m.whead
		m.whead = t
		s.mu.Unlock()
		<-t.mwake
		raceOn()
		Yield("mutex-wake")
	}
}

//go:norace
func (m *Mutex) TryLock() bool {
	s := cur
	if s == nil {
		return m.real.TryLock()
	}
	raceOff()
	s.mu.Lock()
	if m.held && m.sim != s {
		m.held, m.owner, m.whead = false, nil, nil
	}
	ok := !m.held
	if ok {
		m.held = true
		m.sim = s
		t := s.lookup(gid())
		m.owner = t
		if t != nil {
			t.holding++
		}
	}
	s.mu.Unlock()
	raceOn()
	if ok {
		raceAcquire(m)
	}
	return ok
}

//go:norace
func (m *Mutex) Unlock() {
	s := cur
	if !m.held {
		if Dead() {
			// a deferred unlock run while a dead process is being unwound: in reality nothing
			// runs after the process has died, and the lock may be in any state
			return
		}
		// locked outside a simulation
		m.real.Unlock()
		return
	}
	if s == nil || m.sim != s {
		// locked inside a simulation that has ended: just drop it
		m.held, m.owner, m.whead = false, nil, nil
		return
	}
	raceRelease(m)
	raceOff()
	s.mu.Lock()
	if !m.held {
		s.mu.Unlock()
		raceOn()
		panic("sync: unlock of unlocked mutex")
	}
	m.held = false
	if m.owner != nil {
		m.owner.holding--
	}
	m.owner = nil
	w := m.whead
	m.whead = nil
	for w != nil {
		nx := w.nextW
		w.nextW = nil
		w.waitM = nil
		select {
		case w.mwake <- struct{}{}:
		default:
		}
		w = nx
	}
	s.mu.Unlock()
	raceOn()
}

// Held reports whether the mutex is held (oracles, at quiescence).
//
//go:norace
func (m *Mutex) Held() bool { return m.held }

// OwnerKey returns the key of the owning task ("" if free or unknown).
//
//go:norace
func (m *Mutex) OwnerKey() string {
	if m.owner != nil {
		return m.owner.key
	}
	return ""
}

// RWMutex is a drop-in replacement for sync.RWMutex (writer-preferring is not
// modelled; any waiter may win, the tape decides).
type RWMutex struct {
	real    sync.RWMutex
	w       bool
	readers int
	sim     *Sim
	owner   *Task
	whead   *Task
}

//go:norace
func (m *RWMutex) lock(write bool) {
	s := cur
	for {
		raceOff()
		s.mu.Lock()
		t := s.lookup(gid())
		if m.sim != s {
			m.w, m.readers, m.owner, m.whead, m.sim = false, 0, nil, nil, s
		}
		if !m.w && (!write || m.readers == 0) {
			if write {
				m.w = true
				m.owner = t
			} else {
				m.readers++
			}
			m.sim = s
			if t != nil {
				t.holding++
				t.waitRW = nil
			}
			s.mu.Unlock()
			raceOn()
			raceAcquireP(m)
			return
		}
		if t == nil || t == s.root {
			s.mu.Unlock()
			raceOn()
			panic("verifsim: contended RWMutex lock from a goroutine that is not a task")
		}
		t.waitRW = m
		t.nextW = m.whead
		m.whead = t
		s.mu.Unlock()
		<-t.mwake
		raceOn()
		Yield("rwmutex-wake")
	}
}

//go:norace
func (m *RWMutex) unlock(write bool) {
	s := cur
	raceReleaseP(m)
	raceOff()
	s.mu.Lock()
	if write {
		if !m.w {
			s.mu.Unlock()
			raceOn()
			panic("sync: Unlock of unlocked RWMutex")
		}
		m.w = false
		if m.owner != nil {
			m.owner.holding--
		}
		m.owner = nil
	} else {
		if m.readers <= 0 {
			s.mu.Unlock()
			raceOn()
			panic("sync: RUnlock of unlocked RWMutex")
		}
		m.readers--
		if t := s.lookup(gid()); t != nil {
			t.holding--
		}
	}
	w := m.whead
	m.whead = nil
	for w != nil {
		nx := w.nextW
		w.nextW = nil
		w.waitRW = nil
		select {
		case w.mwake <- struct{}{}:
		default:
		}
		w = nx
	}
	s.mu.Unlock()
	raceOn()
}

//go:norace
func (m *RWMutex) Lock() {
	if cur == nil {
		m.real.Lock()
		return
	}
	m.lock(true)
}

//go:norace
func (m *RWMutex) Unlock() {
	if !m.w {
		if Dead() {
			return // see Mutex.Unlock
		}
		m.real.Unlock()
		return
	}
	if cur == nil || m.sim != cur {
		m.w, m.owner = false, nil
		return
	}
	m.unlock(true)
}

//go:norace
func (m *RWMutex) RLock() {
	if cur == nil {
		m.real.RLock()
		return
	}
	m.lock(false)
}

//go:norace
func (m *RWMutex) RUnlock() {
	if m.readers == 0 {
		if Dead() {
			return // see Mutex.Unlock
		}
		m.real.RUnlock()
		return
	}
	if cur == nil || m.sim != cur {
		m.readers--
		return
	}
	m.unlock(false)
}

//go:norace
func (m *RWMutex) TryLock() bool {
	s := cur
	if s == nil {
		return m.real.TryLock()
	}
	raceOff()
	s.mu.Lock()
	ok := !m.w && m.readers == 0
	if ok {
		m.w = true
		m.sim = s
		m.owner = s.lookup(gid())
		if m.owner != nil {
			m.owner.holding++
		}
	}
	s.mu.Unlock()
	raceOn()
	if ok {
		raceAcquireP(m)
	}
	return ok
}

//go:norace
func (m *RWMutex) TryRLock() bool {
	s := cur
	if s == nil {
		return m.real.TryRLock()
	}
	raceOff()
	s.mu.Lock()
	ok := !m.w
	if ok {
		m.readers++
		m.sim = s
		if t := s.lookup(gid()); t != nil {
			t.holding++
		}
	}
	s.mu.Unlock()
	raceOn()
	if ok {
		raceAcquireP(m)
	}
	return ok
}

// RLocker mirrors sync.RWMutex.RLocker.
func (m *RWMutex) RLocker() sync.Locker { return (*rlocker)(m) }

type rlocker RWMutex

func (r *rlocker) Lock()   { (*RWMutex)(r).RLock() }
func (r *rlocker) Unlock() { (*RWMutex)(r).RUnlock() }

// Once is a drop-in replacement for sync.Once whose internal lock is a sim
// Mutex, so a second caller arriving while the first is parked inside f blocks
// durably instead of hanging the bubble.
type Once struct {
	m    Mutex
	done bool
}

func (o *Once) Do(f func()) {
	if cur == nil {
		o.m.Lock()
		defer o.m.Unlock()
		if !o.done {
			defer func() { o.done = true }()
			f()
		}
		return
	}
	Yield("once")
	o.m.Lock()
	defer o.m.Unlock()
	if !o.done {
		defer func() { o.done = true }()
		f()
	}
}

// OnceFunc mirrors sync.OnceFunc.
func OnceFunc(f func()) func() {
	var o Once
	return func() { o.Do(f) }
}

// OnceValue mirrors sync.OnceValue.
func OnceValue[T any](f func() T) func() T {
	var o Once
	var v T
	return func() T {
		o.Do(func() { v = f() })
		return v
	}
}

// OnceValues mirrors sync.OnceValues.
func OnceValues[T1, T2 any](f func() (T1, T2)) func() (T1, T2) {
	var o Once
	var v1 T1
	var v2 T2
	return func() (T1, T2) {
		o.Do(func() { v1, v2 = f() })
		return v1, v2
	}
}

// LockCycle looks for a cycle in the wait-for graph of sim mutexes. It returns
// the cycle as "holderTask[label] waits for lock held by ..." fragments, or nil.
// Controller only, at quiescence.
func (s *Sim) LockCycle() []*Task {
	s.quiesce()
	s.mu.Lock()
	defer s.mu.Unlock()
	for _, start := range s.tasks {
		if start.waitM == nil && start.waitRW == nil {
			continue
		}
		var path []*Task
		t := start
		for i := 0; i < len(s.tasks)+1 && t != nil; i++ {
			for j, p := range path {
				if p == t {
					return path[j:]
				}
			}
			path = append(path, t)
			switch {
			case t.waitM != nil:
				t = t.waitM.owner
			case t.waitRW != nil:
				t = t.waitRW.owner
			default:
				t = nil
			}
		}
	}
	return nil
}
