//go:build verif

package verifsim

// Collection of Go race-detector reports (DESIGN.md 3.4). The driver starts every
// worker with GORACE="halt_on_error=0 ... log_path=<wdir>/race"; the race runtime
// appends its reports to <log_path>.<pid>. A harness built with -race brackets
// each run with RaceLogMark / RaceLogCollect and turns what was appended in
// between into violations of its race property:
//
//	verifsim.RaceLogMark()
//	res := verifsim.Run(...)
//	res.Violations = append(res.Violations, verifsim.RaceViolations("C15")...)
//
// A report is kept only if, in BOTH access stacks, the innermost frame that
// belongs to the module is repository code: frames of the runtime, the standard
// library and third-party modules are skipped (the access may happen inside a
// map or a library object that repository code uses), kernel frames
// (package verifsim, e.g. MapKeys called by a rewritten map range) are
// transparent, and a stack whose innermost module frame lies in a harness file
// (zz_verif_*) is an access to harness state and drops the report. Signature:
// "race:<funcA>|<funcB>", the unordered pair of those innermost repository
// functions, closure suffixes stripped, no line numbers.
//
// The runtime by default reports each pair of racing stacks / each address once
// per process (suppress_equal_stacks, suppress_equal_addresses); confirmation,
// minimisation and in-process replay re-execute the same schedule in the same
// process and would see nothing. The driver therefore sets both options to 0,
// which the Go race runtime honours: every execution reports its own races.

import (
	"os"
	"sort"
	"strconv"
	"strings"
)

// RaceReport is one kept "WARNING: DATA RACE" block.
type RaceReport struct {
	FuncA, FuncB string // innermost repository functions of the two accesses, sorted
	Signature    string
	Text         string
}

// RaceLogStats counts what the parser saw since process start.
var RaceLogStats struct {
	Blocks, Kept, DroppedHarness, DroppedNoRepo, Unrestorable int
}

var (
	raceLogPath string
	raceLogOff  int64
)

func raceLogFile() string {
	if raceLogPath != "" {
		return raceLogPath
	}
	for _, f := range strings.Fields(os.Getenv("GORACE")) {
		if p, ok := strings.CutPrefix(f, "log_path="); ok && p != "" && p != "stderr" && p != "stdout" {
			raceLogPath = p + "." + strconv.Itoa(os.Getpid())
		}
	}
	return raceLogPath
}

// RaceLogConfigured reports whether this is a -race build whose reports go to a
// log file with per-process de-duplication switched off (see the file comment).
func RaceLogConfigured() (ok bool, why string) {
	if !RaceBuild {
		return false, "binary not built with -race"
	}
	if raceLogFile() == "" {
		return false, "GORACE has no log_path"
	}
	g := os.Getenv("GORACE")
	if !strings.Contains(g, "suppress_equal_stacks=0") || !strings.Contains(g, "suppress_equal_addresses=0") || !strings.Contains(g, "halt_on_error=0") {
		return false, "GORACE must contain halt_on_error=0 suppress_equal_stacks=0 suppress_equal_addresses=0 (got " + g + ")"
	}
	return true, ""
}

func raceLogRead() string {
	p := raceLogFile()
	if p == "" {
		return ""
	}
	f, err := os.Open(p)
	if err != nil {
		return "" // the runtime creates the file with its first report
	}
	defer f.Close()
	st, err := f.Stat()
	if err != nil || st.Size() <= raceLogOff {
		return ""
	}
	buf := make([]byte, st.Size()-raceLogOff)
	n, _ := f.ReadAt(buf, raceLogOff)
	raceLogOff += int64(n)
	return string(buf[:n])
}

// RaceLogMark forgets everything reported so far (start of a run).
func RaceLogMark() { _ = raceLogRead() }

// RaceLogCollect returns the kept reports appended since the last Mark/Collect,
// in the order in which they were reported.
func RaceLogCollect() []RaceReport {
	return ParseRaceLog(raceLogRead())
}

// RaceViolations is RaceLogCollect turned into violations of property prop
// (class "race"), one per distinct signature, in order of first occurrence.
func RaceViolations(prop string) []Violation {
	var out []Violation
	seen := map[string]bool{}
	for _, r := range RaceLogCollect() {
		if seen[r.Signature] {
			continue
		}
		seen[r.Signature] = true
		out = append(out, Violation{Property: prop, Class: "race", Signature: r.Signature,
			Msg: "data race between " + r.FuncA + " and " + r.FuncB + " (unordered by the code's own synchronisation):\n" + r.Text})
	}
	return out
}

type raceFrame struct{ fn, file string }

// ParseRaceLog parses race-runtime output and applies the filter.
func ParseRaceLog(text string) []RaceReport {
	var out []RaceReport
	for _, blk := range strings.Split(text, "==================") {
		i := strings.Index(blk, "WARNING: DATA RACE")
		if i < 0 {
			continue
		}
		RaceLogStats.Blocks++
		body := strings.TrimSpace(blk[i+len("WARNING: DATA RACE"):])
		var stacks [][]raceFrame
		for _, sec := range strings.Split(body, "\n\n") {
			lines := strings.Split(strings.TrimRight(sec, "\n"), "\n")
			if len(lines) == 0 {
				continue
			}
			h := strings.ToLower(strings.TrimSpace(lines[0]))
			h = strings.TrimPrefix(h, "previous ")
			if !(strings.HasPrefix(h, "read at ") || strings.HasPrefix(h, "write at ") || strings.HasPrefix(h, "atomic read at ") || strings.HasPrefix(h, "atomic write at ")) {
				continue
			}
			var fr []raceFrame
			for k := 1; k < len(lines); k++ {
				l := lines[k]
				if !strings.HasPrefix(l, "  ") || strings.HasPrefix(l, "   ") {
					continue
				}
				fn := strings.TrimSpace(l)
				if strings.HasPrefix(fn, "[") {
					continue // "[failed to restore the stack]"
				}
				if j := strings.LastIndex(fn, "("); j > 0 && strings.HasSuffix(fn, ")") {
					fn = fn[:j]
				}
				file := ""
				if k+1 < len(lines) && strings.HasPrefix(lines[k+1], "      ") {
					file = strings.TrimSpace(lines[k+1])
					k++
				}
				fr = append(fr, raceFrame{fn, file})
			}
			stacks = append(stacks, fr)
		}
		if len(stacks) < 2 {
			RaceLogStats.DroppedNoRepo++
			continue
		}
		fa, ka := raceRepoFunc(stacks[0])
		fb, kb := raceRepoFunc(stacks[1])
		if len(stacks[0]) == 0 || len(stacks[1]) == 0 {
			RaceLogStats.Unrestorable++
		}
		// One exception to "both sides are repository code": the router re-initialising a
		// pooled request context for the next request (gin.(*Engine).ServeHTTP and what it
		// calls inside gin) against repository code that still uses the context of a request
		// whose handler has returned. The router's side has no repository frame at all.
		if ra, rb := raceRouterReinit(stacks[0]), raceRouterReinit(stacks[1]); (ra && kb == 1) || (rb && ka == 1) {
			f := fa
			if ra {
				f = fb
			}
			RaceLogStats.Kept++
			if len(body) > 6000 {
				body = body[:6000] + "\n..."
			}
			out = append(out, RaceReport{FuncA: f, FuncB: "gin.(*Engine).ServeHTTP", Signature: "race:" + f + "|gin.(*Engine).ServeHTTP:pooled-context-reused", Text: body})
			continue
		}
		if ka == 2 || kb == 2 {
			RaceLogStats.DroppedHarness++
			continue
		}
		if ka == 0 || kb == 0 {
			RaceLogStats.DroppedNoRepo++
			continue
		}
		fs := []string{fa, fb}
		sort.Strings(fs)
		RaceLogStats.Kept++
		if len(body) > 6000 {
			body = body[:6000] + "\n..."
		}
		out = append(out, RaceReport{FuncA: fs[0], FuncB: fs[1], Signature: "race:" + fs[0] + "|" + fs[1], Text: body})
	}
	return out
}

// raceRouterReinit: the access was made by gin's ServeHTTP itself (or by gin code it
// calls) before any handler ran: the innermost frames are gin's, up to and including
// (*Engine).ServeHTTP.
func raceRouterReinit(fr []raceFrame) bool {
	const gin = "github.com/gin-gonic/gin."
	for i, f := range fr {
		if !strings.HasPrefix(f.fn, gin) || i > 4 {
			return false
		}
		if f.fn == gin+"(*Engine).ServeHTTP" {
			return true
		}
	}
	return false
}

// raceRepoFunc classifies one access stack: (function, 1) when its innermost
// module frame is repository code, ("", 2) when it is harness code, ("", 0)
// when the stack has no module frame at all.
func raceRepoFunc(fr []raceFrame) (string, int) {
	for _, f := range fr {
		if !strings.HasPrefix(f.fn, repoPrefix) {
			continue
		}
		if strings.HasPrefix(f.fn, repoPrefix+"verifsim.") || strings.HasPrefix(f.fn, repoPrefix+"verifsim/") {
			// the access was made by the kernel (e.g. a runtime helper it called); the frames
			// below it belong to whatever the goroutine was running and say nothing about it
			return "", 2
		}
		if strings.Contains(f.file, "zz_verif") || strings.Contains(f.file, "/harness/") || strings.Contains(f.file, "/detsim/") {
			return "", 2
		}
		name := RepoFunc([]string{f.fn})
		if name == "?" {
			return "", 2
		}
		return name, 1
	}
	return "", 0
}

// PanicClass reduces a panic message to the stable class used in panic
// signatures (exported for harnesses that capture recovered panics themselves).
func PanicClass(msg string) string { return panicClass(msg) }
