//go:build verif

package verifsim

// Tape is the single source of choices of a run. In search mode it draws from
// a splitmix64 stream and records every value; in replay mode it returns the
// recorded values (modulo the requested bound; 0 once exhausted).
//
// All methods are //go:norace and allocation-free on the hot path so that the
// tape never shows up in race reports and never perturbs them.
type Tape struct {
	Vals   []uint32
	pos    int
	state  uint64
	replay bool
	Over   bool // recording capacity exceeded (search mode): tape cannot be replayed
}

const tapeCap = 1 << 22

// One recording buffer per process: a worker records one run at a time
// (Recorded() copies what a violation needs), and a buffer that never grows
// keeps growslice out of the kernel paths (see the discipline note in sim.go).
var tapeBuf = make([]uint32, 0, tapeCap)

// NewTape returns a recording tape seeded with seed. At most one recording
// tape is in use at any time in a process.
func NewTape(seed uint64) *Tape {
	return &Tape{state: seed, Vals: tapeBuf[:0]}
}

// ReplayTape returns a tape that replays v.
func ReplayTape(v []uint32) *Tape {
	return &Tape{Vals: append(make([]uint32, 0, len(v)), v...), replay: true}
}

//go:norace
func (t *Tape) draw(n int) int {
	if n <= 1 {
		return 0
	}
	if t.replay {
		if t.pos >= len(t.Vals) {
			t.pos++
			return 0
		}
		v := int(t.Vals[t.pos]) % n
		t.pos++
		return v
	}
	t.state += 0x9e3779b97f4a7c15
	z := t.state
	z = (z ^ (z >> 30)) * 0xbf58476d1ce4e5b9
	z = (z ^ (z >> 27)) * 0x94d049bb133111eb
	z ^= z >> 31
	v := int(z % uint64(n))
	if len(t.Vals) < cap(t.Vals) {
		t.Vals = append(t.Vals, uint32(v))
	} else {
		t.Over = true
	}
	t.pos++
	return v
}

// Draw is the exported form of draw, for harness code that runs outside a
// bubble (between the nested runs of an enumerating RunOne).
//
//go:norace
func (t *Tape) Draw(n int) int { return t.draw(n) }

// Replaying reports whether the tape replays recorded values (confirmation,
// minimisation, --replay) rather than drawing fresh ones.
func (t *Tape) Replaying() bool { return t.replay }

// Rest returns the not yet consumed values of a replay tape.
func (t *Tape) Rest() []uint32 {
	if !t.replay || t.pos >= len(t.Vals) {
		return nil
	}
	return append([]uint32(nil), t.Vals[t.pos:]...)
}

// Used is the number of draws made so far.
//
//go:norace
func (t *Tape) Used() int { return t.pos }

// Recorded returns a copy of the recorded values (search mode) or of the
// replayed prefix actually consumed (replay mode).
func (t *Tape) Recorded() []uint32 {
	n := len(t.Vals)
	if t.replay && t.pos < n {
		n = t.pos
	}
	return append([]uint32(nil), t.Vals[:n]...)
}

// Mix derives the seed of run i from the invocation seed.
func Mix(seed uint64, i uint64) uint64 {
	z := seed*0x9e3779b97f4a7c15 + i*0xbf58476d1ce4e5b9 + 0x94d049bb133111eb
	z = (z ^ (z >> 30)) * 0xbf58476d1ce4e5b9
	z = (z ^ (z >> 27)) * 0x94d049bb133111eb
	return z ^ (z >> 31)
}
