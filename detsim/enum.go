//go:build verif

package verifsim

// Enumeration of a finite set of fault points (crash points, truncation
// offsets, ...) per generated case, inside one RunOne.
//
// Protocol (what makes confirmation, minimisation and --replay cheap and exact):
// the first tape value selects the mode. In search mode it is ignored and the
// harness enumerates: it executes the reference (fault-free) run of the case
// drawn from the rest of the tape, learns the number of points P, and then
// executes one run per point (all of them when P <= maxPoints, otherwise a
// tape-drawn sample), each on a replay of the case's tape. When point k
// violates, the returned Result carries Tape = [k+1] ++ caseTape; replaying
// that tape executes the reference and point k only. A first value of 0 in
// replay mode (the minimiser zeroed it) enumerates again.

// Enumerate runs the protocol. ref executes the reference run on the given
// tape and returns its result and the number of points; point executes the
// case with the fault at point k (0-based) on a fresh replay of the same tape.
func Enumerate(tape *Tape, maxPoints int, ref func(t *Tape) (Result, int), point func(t *Tape, k int) Result) Result {
	sel := tape.Draw(1 << 30)
	var caseVals []uint32
	var total Result
	var npoints int
	if tape.Replaying() {
		caseVals = tape.Rest()
		total, npoints = ref(ReplayTape(caseVals))
	} else {
		sel = 0
		before := tape.Used()
		total, npoints = ref(tape)
		rec := tape.Recorded()
		if before <= len(rec) {
			caseVals = rec[before:]
		}
	}
	total.Executions = 1
	if total.Info == nil {
		total.Info = map[string]int{}
	}
	finish := func(k int) Result {
		total.Tape = append([]uint32{uint32(k)}, caseVals...)
		total.TapeUsed = len(total.Tape)
		return total
	}
	if total.HarnessErr != "" || len(total.Violations) > 0 || total.TapeOver {
		return finish(0)
	}
	total.Info["enum_points_total"] += npoints
	if sel > 0 {
		k := sel - 1
		if k < npoints {
			r := point(ReplayTape(caseVals), k)
			total.Absorb(&r)
			total.Info["enum_points_run"]++
		}
		return finish(sel)
	}
	ks := make([]int, 0, npoints)
	if npoints <= maxPoints {
		for k := 0; k < npoints; k++ {
			ks = append(ks, k)
		}
		total.Info["enum_cases_exhaustive"]++
	} else {
		// stratified sample: one tape-drawn point per stratum
		for i := 0; i < maxPoints; i++ {
			lo := i * npoints / maxPoints
			hi := (i + 1) * npoints / maxPoints
			if hi <= lo {
				continue
			}
			ks = append(ks, lo+tape.Draw(hi-lo))
		}
		total.Info["enum_cases_sampled"]++
	}
	for _, k := range ks {
		r := point(ReplayTape(caseVals), k)
		total.Absorb(&r)
		total.Info["enum_points_run"]++
		if r.HarnessErr != "" || len(r.Violations) > 0 {
			return finish(k + 1)
		}
	}
	return finish(0)
}

// Absorb adds the counters of o to r and takes over o's violations.
func (r *Result) Absorb(o *Result) {
	if r.Executions == 0 {
		r.Executions = 1
	}
	n := o.Executions
	if n == 0 {
		n = 1
	}
	if n < 0 {
		n = 0 // a point that was skipped (budget): not an execution
	}
	r.Executions += n
	r.Steps += o.Steps
	r.SimTime += o.SimTime
	if r.Faults == nil {
		r.Faults = map[string]int{}
	}
	for k, v := range o.Faults {
		r.Faults[k] += v
	}
	if r.Probes == nil {
		r.Probes = map[string]int{}
	}
	for k, v := range o.Probes {
		r.Probes[k] += v
	}
	if r.Info == nil {
		r.Info = map[string]int{}
	}
	for k, v := range o.Info {
		r.Info[k] += v
	}
	r.States = append(r.States, o.States...)
	if o.MaxRunnable > r.MaxRunnable {
		r.MaxRunnable = o.MaxRunnable
	}
	r.NonBaton += o.NonBaton
	r.ExtraHashes = append(r.ExtraHashes, o.SchedHash)
	r.ExtraHashes = append(r.ExtraHashes, o.ExtraHashes...)
	if len(o.Violations) > 0 {
		r.Violations = append(r.Violations, o.Violations...)
		r.Trace = o.Trace
		if len(o.Sample) > 0 {
			r.Sample = o.Sample
		}
	}
	if o.HarnessErr != "" && r.HarnessErr == "" {
		r.HarnessErr = o.HarnessErr
	}
	if o.Overflow {
		r.Overflow = true
	}
}
