//go:build verif

package verifsim

import "time"

// Drain keeps releasing runnable tasks - whether or not a violation has been
// recorded, which makes RunUntil return at once - until nothing becomes
// runnable within idle of simulated time or stepBudget steps have been taken.
// It is for teardown: after the harness has cancelled contexts and closed
// whatever its tasks wait for, the tasks are allowed to run to their natural
// end, so that no goroutine (and nothing it refers to: the Sim, its tape, the
// system under test) is left behind in the dead bubble. Crash() afterwards
// unwinds what is still parked. OnStep is not called.
func (s *Sim) Drain(idle time.Duration, stepBudget int) int {
	n := 0
	for ; n < stepBudget; n++ {
		s.quiesce()
		if s.crashed || s.overflow {
			break
		}
		if !s.step(time.Now().Add(idle)) {
			break
		}
	}
	s.quiesce()
	return n
}

// LiveTasks is the number of tasks that have not exited (controller only).
func (s *Sim) LiveTasks() int {
	s.quiesce()
	s.mu.Lock()
	defer s.mu.Unlock()
	return len(s.tasks)
}
