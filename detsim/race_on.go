//go:build verif && race

package verifsim

import (
	"runtime"
	"unsafe"
)

func raceOff()                { runtime.RaceDisable() }
func raceOn()                 { runtime.RaceEnable() }
func raceAcquire(m *Mutex)    { runtime.RaceAcquire(unsafe.Pointer(m)) }
func raceRelease(m *Mutex)    { runtime.RaceRelease(unsafe.Pointer(m)) }
func raceAcquireP(m *RWMutex) { runtime.RaceAcquire(unsafe.Pointer(m)) }
func raceReleaseP(m *RWMutex) { runtime.RaceRelease(unsafe.Pointer(m)) }

// RaceBuild reports whether the binary was built with -race.
const RaceBuild = true
