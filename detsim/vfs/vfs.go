//go:build verif

// Package vfs is the file-system seam of the deterministic simulation: a
// pass-through layer over package os (the instrumenter rewrites os.X calls and
// the type os.File of the store code to this package) that can stop the world
// between any two file-system effects (process death), tear a write, or fail a
// call. Files live in a real directory (tmpfs), so rename/glob/sparse-file
// semantics stay the kernel's. DESIGN.md 3.7.
package vfs

import (
	"io"
	"io/fs"
	"os"
	"strings"
	"syscall"
	"time"

	"github.com/ollama/ollama/verifsim"
)

// Control is the fault plan of one run. A nil Ctl means pure pass-through.
type Control struct {
	Roots []string // only paths below one of these are simulated; everything else passes through

	// Crash-point enumeration. Every mutating call below a root is one point
	// (the process dies immediately before the call takes effect); a Write /
	// WriteAt / WriteFile of more than one byte is a second point (the process
	// dies after a prefix of the buffer has reached the file).
	Points  int // points passed so far
	CrashAt int // the process dies at this point (0-based); < 0 never
	TornSel int // selects the length of the prefix written by a torn write
	Crashed string

	// Disk errors (swarm arm): 1/ErrRate of the eligible calls fail (0 = never).
	ErrRate int

	// NoYield suppresses the pre-emption point in front of every call.
	NoYield bool

	Ops    int      // mutating calls executed
	Log    []string // human-readable log of mutating calls (bounded)
	LogCap int
}

// Ctl is installed by the harness at the start of a run and removed at its end.
var Ctl *Control

var errFrozen = syscall.EIO

//go:norace
func (c *Control) tracked(path string) bool {
	for _, r := range c.Roots {
		if strings.HasPrefix(path, r) {
			return true
		}
	}
	return false
}

//go:norace
func (c *Control) logf(op, path string, extra string) {
	c.Ops++
	if len(c.Log) < c.LogCap {
		for _, r := range c.Roots {
			path = strings.TrimPrefix(path, r)
		}
		c.Log = append(c.Log, op+" "+path+extra)
	}
}

// dead: the calling goroutine belongs to a process that has died.
func dead() bool { return verifsim.Dead() }

func frozen(op, path string) error { return &os.PathError{Op: op, Path: path, Err: errFrozen} }

// pre is called at the start of every simulated call. It returns
// (simulate, err): err != nil means the call must fail without touching anything.
//
//go:norace
func pre(op, path string, mutating bool) (*Control, error) {
	if dead() {
		return nil, frozen(op, path)
	}
	c := Ctl
	if c == nil || !verifsim.Active() || !c.tracked(path) {
		return nil, nil
	}
	if !c.NoYield {
		verifsim.Yield("vfs:" + op)
		if dead() {
			return nil, frozen(op, path)
		}
	}
	if !mutating {
		return c, nil
	}
	// crash point: before the call takes effect
	k := c.Points
	c.Points++
	if k == c.CrashAt {
		c.Crashed = "before " + op + " " + path
		verifsim.Fault("crash_before_" + op)
		verifsim.CrashHere("vfs:crash")
		return nil, frozen(op, path)
	}
	if c.ErrRate > 0 && verifsim.Draw("vfs-err", c.ErrRate) == 0 {
		verifsim.Fault("disk_error_" + op)
		e := syscall.ENOSPC
		if op == "rename" || op == "remove" {
			e = syscall.EACCES
		}
		return nil, &os.PathError{Op: op, Path: path, Err: e}
	}
	return c, nil
}

// tornPoint is the second crash point of a data write: a prefix reaches the file.
//
//go:norace
func (c *Control) tornPoint(op, path string, n int) (prefix int, crash bool) {
	if n <= 1 {
		return 0, false
	}
	k := c.Points
	c.Points++
	if k != c.CrashAt {
		return 0, false
	}
	sel := c.TornSel
	if sel < 0 {
		sel = -sel
	}
	return 1 + sel%(n-1), true
}

// File wraps *os.File; methods that change the file are interposed.
type File struct{ *os.File }

func wrap(f *os.File, err error) (*File, error) {
	if err != nil {
		return nil, err
	}
	return &File{f}, nil
}

func Open(name string) (*File, error) {
	if _, err := pre("open", name, false); err != nil {
		return nil, err
	}
	return wrap(os.Open(name))
}

func Create(name string) (*File, error) {
	c, err := pre("create", name, true)
	if err != nil {
		return nil, err
	}
	if c != nil {
		c.logf("create", name, "")
	}
	return wrap(os.Create(name))
}

func OpenFile(name string, flag int, perm os.FileMode) (*File, error) {
	mut := flag&(os.O_CREATE|os.O_TRUNC) != 0
	c, err := pre("openfile", name, mut)
	if err != nil {
		return nil, err
	}
	if c != nil && mut {
		c.logf("openfile", name, "")
	}
	return wrap(os.OpenFile(name, flag, perm))
}

func CreateTemp(dir, pattern string) (*File, error) {
	c, err := pre("createtemp", dir+"/"+pattern, true)
	if err != nil {
		return nil, err
	}
	if c != nil {
		c.logf("createtemp", dir+"/"+pattern, "")
	}
	return wrap(os.CreateTemp(dir, pattern))
}

func Rename(a, b string) error {
	c, err := pre("rename", b, true)
	if err != nil {
		return err
	}
	if c != nil {
		c.logf("rename", a, " -> "+strings.TrimPrefix(b, rootOf(c, b)))
	}
	return os.Rename(a, b)
}

func rootOf(c *Control, p string) string {
	for _, r := range c.Roots {
		if strings.HasPrefix(p, r) {
			return r
		}
	}
	return ""
}

func Link(a, b string) error {
	c, err := pre("link", b, true)
	if err != nil {
		return err
	}
	if c != nil {
		c.logf("link", a, " -> "+strings.TrimPrefix(b, rootOf(c, b)))
	}
	return os.Link(a, b)
}

func Symlink(a, b string) error {
	c, err := pre("symlink", b, true)
	if err != nil {
		return err
	}
	if c != nil {
		c.logf("symlink", a, " -> "+strings.TrimPrefix(b, rootOf(c, b)))
	}
	return os.Symlink(a, b)
}

func Remove(a string) error {
	c, err := pre("remove", a, true)
	if err != nil {
		return err
	}
	if c != nil {
		c.logf("remove", a, "")
	}
	return os.Remove(a)
}

func RemoveAll(a string) error {
	c, err := pre("removeall", a, true)
	if err != nil {
		return err
	}
	if c != nil {
		c.logf("removeall", a, "")
	}
	return os.RemoveAll(a)
}

func WriteFile(name string, data []byte, perm os.FileMode) error {
	c, err := pre("writefile", name, true)
	if err != nil {
		return err
	}
	if c != nil {
		c.logf("writefile", name, "")
		// os.WriteFile = open(O_CREATE|O_TRUNC) + write: the torn variant leaves a prefix
		if n, crash := c.tornPoint("writefile", name, len(data)); crash {
			_ = os.WriteFile(name, data[:n], perm)
			c.Crashed = "torn writefile " + name
			verifsim.Fault("crash_torn_write")
			verifsim.CrashHere("vfs:crash")
			return frozen("writefile", name)
		}
	}
	return os.WriteFile(name, data, perm)
}

func ReadFile(name string) ([]byte, error) {
	if _, err := pre("readfile", name, false); err != nil {
		return nil, err
	}
	return os.ReadFile(name)
}

func Mkdir(p string, perm os.FileMode) error {
	c, err := pre("mkdir", p, true)
	if err != nil {
		return err
	}
	if c != nil {
		c.logf("mkdir", p, "")
	}
	return os.Mkdir(p, perm)
}

func MkdirAll(p string, perm os.FileMode) error {
	if dead() {
		return frozen("mkdirall", p)
	}
	// creating directories that already exist is not an effect: no point, no yield
	if st, err := os.Stat(p); err == nil && st.IsDir() {
		return nil
	}
	c, err := pre("mkdirall", p, true)
	if err != nil {
		return err
	}
	if c != nil {
		c.logf("mkdirall", p, "")
	}
	return os.MkdirAll(p, perm)
}

func MkdirTemp(dir, pattern string) (string, error) {
	c, err := pre("mkdirtemp", dir+"/"+pattern, true)
	if err != nil {
		return "", err
	}
	if c != nil {
		c.logf("mkdirtemp", dir+"/"+pattern, "")
	}
	return os.MkdirTemp(dir, pattern)
}

func Chmod(name string, mode os.FileMode) error {
	if _, err := pre("chmod", name, true); err != nil {
		return err
	}
	return os.Chmod(name, mode)
}

func Chtimes(name string, a, m time.Time) error {
	if dead() {
		return frozen("chtimes", name)
	}
	return os.Chtimes(name, a, m)
}

func Truncate(name string, size int64) error {
	c, err := pre("truncate", name, true)
	if err != nil {
		return err
	}
	if c != nil {
		c.logf("truncate", name, "")
	}
	return os.Truncate(name, size)
}

func Stat(name string) (os.FileInfo, error) {
	if _, err := pre("stat", name, false); err != nil {
		return nil, err
	}
	return os.Stat(name)
}

func Lstat(name string) (os.FileInfo, error) {
	if _, err := pre("lstat", name, false); err != nil {
		return nil, err
	}
	return os.Lstat(name)
}

func ReadDir(name string) ([]os.DirEntry, error) {
	if _, err := pre("readdir", name, false); err != nil {
		return nil, err
	}
	return os.ReadDir(name)
}

func DirFS(dir string) fs.FS { return os.DirFS(dir) }

// ---- File methods ---------------------------------------------------------------

func (f *File) write(op string, p []byte, do func([]byte) (int, error)) (int, error) {
	name := f.File.Name()
	c, err := pre(op, name, true)
	if err != nil {
		return 0, err
	}
	if c != nil {
		c.logf(op, name, "")
		if n, crash := c.tornPoint(op, name, len(p)); crash {
			_, _ = do(p[:n])
			c.Crashed = "torn " + op + " " + name
			verifsim.Fault("crash_torn_write")
			verifsim.CrashHere("vfs:crash")
			return 0, frozen(op, name)
		}
	}
	return do(p)
}

func (f *File) Write(p []byte) (int, error) {
	return f.write("write", p, f.File.Write)
}

func (f *File) WriteString(s string) (int, error) {
	return f.write("write", []byte(s), f.File.Write)
}

func (f *File) WriteAt(p []byte, off int64) (int, error) {
	return f.write("writeat", p, func(b []byte) (int, error) { return f.File.WriteAt(b, off) })
}

func (f *File) Truncate(n int64) error {
	name := f.File.Name()
	c, err := pre("ftruncate", name, true)
	if err != nil {
		return err
	}
	if c != nil {
		c.logf("ftruncate", name, "")
	}
	return f.File.Truncate(n)
}

func (f *File) Read(p []byte) (int, error) {
	if dead() {
		return 0, frozen("read", f.File.Name())
	}
	return f.File.Read(p)
}

func (f *File) ReadAt(p []byte, off int64) (int, error) {
	if dead() {
		return 0, frozen("read", f.File.Name())
	}
	return f.File.ReadAt(p, off)
}

func (f *File) Close() error {
	if f == nil || f.File == nil {
		return os.ErrInvalid
	}
	// closing has no effect on the directory tree; it is never a crash point,
	// and a dead process's descriptors are closed by the kernel anyway
	return f.File.Close()
}

func (f *File) Sync() error {
	if dead() {
		return frozen("sync", f.File.Name())
	}
	return f.File.Sync()
}

// ReadFrom / WriteTo shadow the promoted fast paths of *os.File so that
// io.Copy goes through the interposed Write / Read.
func (f *File) ReadFrom(r io.Reader) (int64, error) {
	buf := make([]byte, 32*1024)
	var n int64
	for {
		k, err := r.Read(buf)
		if k > 0 {
			w, werr := f.Write(buf[:k])
			n += int64(w)
			if werr != nil {
				return n, werr
			}
			if w < k {
				return n, io.ErrShortWrite
			}
		}
		if err == io.EOF {
			return n, nil
		}
		if err != nil {
			return n, err
		}
	}
}

func (f *File) WriteTo(w io.Writer) (int64, error) {
	buf := make([]byte, 32*1024)
	var n int64
	for {
		k, err := f.Read(buf)
		if k > 0 {
			x, werr := w.Write(buf[:k])
			n += int64(x)
			if werr != nil {
				return n, werr
			}
		}
		if err == io.EOF {
			return n, nil
		}
		if err != nil {
			return n, err
		}
	}
}
