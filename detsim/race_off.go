//go:build verif && !race

package verifsim

func raceOff()                {}
func raceOn()                 {}
func raceAcquire(m *Mutex)    {}
func raceRelease(m *Mutex)    {}
func raceAcquireP(m *RWMutex) {}
func raceReleaseP(m *RWMutex) {}

// RaceBuild reports whether the binary was built with -race.
const RaceBuild = false
