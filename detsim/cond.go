//go:build verif

package verifsim

import "sync"

// Cond is a drop-in replacement for sync.Cond (instrumenter type swap, like
// Mutex). A goroutine woken from a real sync.Cond re-acquires the Locker by
// itself, without holding the baton: whether it finds the (simulated) mutex
// free depends on how far the signaller has run in real time, so the outcome
// would differ from run to run. Here a waiter blocks on a bubble channel (a
// durable block), and after Signal/Broadcast it first parks in Yield; it takes
// the lock again only when the scheduler releases it.
//
// Outside a simulation it behaves like sync.Cond.
type Cond struct {
	L sync.Locker

	real  *sync.Cond
	rmu   sync.Mutex
	sim   *Sim
	whead *condWaiter
	wtail *condWaiter
}

type condWaiter struct {
	ch   chan struct{}
	next *condWaiter
	t    *Task
}

// NewCond mirrors sync.NewCond.
func NewCond(l sync.Locker) *Cond { return &Cond{L: l} }

func (c *Cond) fallback() *sync.Cond {
	c.rmu.Lock()
	defer c.rmu.Unlock()
	if c.real == nil {
		c.real = sync.NewCond(c.L)
	}
	return c.real
}

// Wait mirrors (*sync.Cond).Wait: unlock, sleep until signalled, lock again.
//
//go:norace
func (c *Cond) Wait() {
	s := cur
	if s == nil {
		c.fallback().Wait()
		return
	}
	raceOff()
	s.mu.Lock()
	if c.sim != s {
		// waiters left behind by an abandoned run
		c.sim, c.whead, c.wtail = s, nil, nil
	}
	w := &condWaiter{ch: make(chan struct{}), t: s.lookup(gid())}
	if c.wtail == nil {
		c.whead, c.wtail = w, w
	} else {
		c.wtail.next = w
		c.wtail = w
	}
	condRegister(s, c)
	s.mu.Unlock()
	raceOn()
	c.L.Unlock()
	raceOff()
	<-w.ch
	raceOn()
	if w.t != nil && w.t.unwind {
		panic(crashSentinel{})
	}
	Yield("cond-wake")
	c.L.Lock()
}

//go:norace
func (c *Cond) wake(all bool) {
	s := cur
	if s == nil {
		if all {
			c.fallback().Broadcast()
		} else {
			c.fallback().Signal()
		}
		return
	}
	raceOff()
	s.mu.Lock()
	if c.sim != s {
		c.sim, c.whead, c.wtail = s, nil, nil
	}
	for c.whead != nil {
		w := c.whead
		c.whead = w.next
		if c.whead == nil {
			c.wtail = nil
		}
		close(w.ch)
		if !all {
			break
		}
	}
	s.mu.Unlock()
	raceOn()
}

// Signal wakes the longest-waiting goroutine, if any (sync.Cond is FIFO too).
//
//go:norace
func (c *Cond) Signal() { c.wake(false) }

// Broadcast wakes all waiters.
//
//go:norace
func (c *Cond) Broadcast() { c.wake(true) }

// AbortCondWaiters unwinds every task that is blocked in Cond.Wait (teardown:
// a loop such as `for idle() { cond.Wait() }` has no exit of its own, and a
// goroutine abandoned with the bubble is never collected). The waiters do not
// re-acquire their Locker. Controller only, at quiescence.
func (s *Sim) AbortCondWaiters() {
	s.quiesce()
	s.mu.Lock()
	for i := 0; i < ncondReg; i++ {
		c := condReg[i]
		condReg[i] = nil
		if c == nil || c.sim != s {
			continue
		}
		for w := c.whead; w != nil; w = w.next {
			if w.t != nil {
				w.t.unwind = true
			}
			close(w.ch)
		}
		c.whead, c.wtail = nil, nil
	}
	ncondReg = 0
	s.mu.Unlock()
	s.quiesce()
}

// registry of the Conds that have (had) waiters in the current run; guarded by Sim.mu.
var (
	condReg  [64]*Cond
	ncondReg int
)

//go:norace
func condRegister(s *Sim, c *Cond) {
	for i := 0; i < ncondReg; i++ {
		if condReg[i] == c {
			return
		}
	}
	if ncondReg == len(condReg) {
		// drop entries of earlier runs
		n := 0
		for i := 0; i < ncondReg; i++ {
			if condReg[i] != nil && condReg[i].sim == s {
				condReg[n] = condReg[i]
				n++
			}
		}
		for i := n; i < ncondReg; i++ {
			condReg[i] = nil
		}
		ncondReg = n
	}
	if ncondReg < len(condReg) {
		condReg[ncondReg] = c
		ncondReg++
	}
}
