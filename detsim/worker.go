//go:build verif

package verifsim

import (
	"encoding/json"
	"fmt"
	"os"
	"os/exec"
	"path/filepath"
	"sort"
	"strconv"
	"strings"
	"testing"
	"time"
)

// Harness is what a zz_verif_*_test.go file registers.
type Harness struct {
	Name string
	// RunOne performs one simulated execution for property prop. It must be a
	// pure function of (tape, prop, tier, tree).
	RunOne func(t *testing.T, tape *Tape, prop, tier string, keepLog bool) Result
	// PanicProps lists the properties against which an unrecovered panic in
	// the code under test counts.
	PanicProps []string
	// Real/Stub components, for the evidence file.
	Real, Stub []string
	// Rule describes what one evaluation is and what makes it non-trivial.
	Rule map[string]string
	// NonTrivial decides whether a run counts as non-trivial (default: >=2 runnable tasks at some step).
	NonTrivial func(prop string, r *Result) bool
	// Assumptions for the evidence file.
	Assumptions []string
}

// KnownFinding is one entry of /verif/known_findings.json.
type KnownFinding struct {
	Property  string `json:"property"`
	Signature string `json:"signature"`
	What      string `json:"what"`
	Status    string `json:"status"`
	Commit    string `json:"commit,omitempty"`
}

// ReplayFile is the on-disk form of a violation (DESIGN C.3).
type ReplayFile struct {
	Property string   `json:"property"`
	Harness  string   `json:"harness"`
	Race     bool     `json:"race"`
	Tier     string   `json:"tier"`
	Seed     uint64   `json:"seed"`
	RunSeed  uint64   `json:"run_seed"`
	RunIndex uint64   `json:"run_index"`
	Tape     []uint32 `json:"tape"`
	Expect   struct {
		Class     string `json:"class"`
		Signature string `json:"signature"`
	} `json:"expect"`
	Message  string   `json:"message"`
	OrigTape int      `json:"original_tape_len"`
	MinRuns  int      `json:"minimiser_runs"`
	Trace    []string `json:"trace"`
	Sample   []string `json:"case,omitempty"`
	// Fresh: the violation depends on state a process has only once (one-time initialisation of
	// package-level state): found in the first execution of a worker process, it reproduces in
	// the first execution of a fresh process and nowhere else. Replayed without warm-up.
	Fresh bool `json:"fresh_process,omitempty"`
}

// FreshReplay is set while a replay file marked fresh_process is executed.
var FreshReplay bool

// WorkerOut is what a worker process hands back to the driver.
type WorkerOut struct {
	Harness     string            `json:"harness"`
	Property    string            `json:"property"`
	Runs        int               `json:"runs"`
	Cases       int               `json:"cases"`
	NonTrivial  int               `json:"nontrivial"`
	Hashes      []string          `json:"hashes"` // schedule hashes of non-trivial runs
	States      []string          `json:"states"`
	Steps       int64             `json:"steps"`
	SimSeconds  float64           `json:"sim_seconds"`
	Faults      map[string]int    `json:"faults"`
	Probes      map[string]int    `json:"probes"`
	Strategies  map[string]int    `json:"strategies"`
	Info        map[string]int    `json:"info"`
	Known       map[string]int    `json:"known"`
	Violations  []WorkerViolation `json:"violations"`
	Samples     [][]string        `json:"samples"`
	Errors      []string          `json:"errors"`
	Discarded   int               `json:"discarded_overflow"`
	NonBaton    int               `json:"non_baton_draws"`
	WallS       float64           `json:"wall_s"`
	Real        []string          `json:"real"`
	Stub        []string          `json:"stub"`
	Rule        string            `json:"rule"`
	Assumptions []string          `json:"assumptions"`
	DetHashes   map[string]string `json:"det_hashes,omitempty"` // selftest: run index -> full hash
	Replay      *ReplayOutcome    `json:"replay,omitempty"`
	MaxRunnable int               `json:"max_runnable"`
}

type WorkerViolation struct {
	Property  string `json:"property"`
	Class     string `json:"class"`
	Signature string `json:"signature"`
	Msg       string `json:"msg"`
	Replay    string `json:"replay"`
	RunIndex  uint64 `json:"run_index"`
}

type ReplayOutcome struct {
	Reproduced bool   `json:"reproduced"`
	Got        string `json:"got"`
	Want       string `json:"want"`
	Msg        string `json:"msg"`
}

func envInt(name string, def int) int {
	if v := os.Getenv(name); v != "" {
		if n, err := strconv.Atoi(v); err == nil {
			return n
		}
	}
	return def
}

func envU64(name string, def uint64) uint64 {
	if v := os.Getenv(name); v != "" {
		if n, err := strconv.ParseUint(v, 10, 64); err == nil {
			return n
		}
		if n, err := strconv.ParseInt(v, 10, 64); err == nil {
			return uint64(n)
		}
	}
	return def
}

func loadKnown(path string) []KnownFinding {
	var k []KnownFinding
	b, err := os.ReadFile(path)
	if err != nil {
		return nil
	}
	_ = json.Unmarshal(b, &k)
	return k
}

// relevant returns the first violation of r that counts against prop.
func relevant(h *Harness, prop string, r *Result) *Violation {
	for i := range r.Violations {
		v := &r.Violations[i]
		if v.Property == prop {
			return v
		}
		if v.Property == "*" {
			for _, p := range h.PanicProps {
				if p == prop {
					return v
				}
			}
			// a panic that is not this property's business still ends the run
			return nil
		}
	}
	return nil
}

// relevantAll returns every violation of r that counts against prop.
func relevantAll(h *Harness, prop string, r *Result) []*Violation {
	var out []*Violation
	for i := range r.Violations {
		v := &r.Violations[i]
		if v.Property == prop {
			out = append(out, v)
			continue
		}
		if v.Property == "*" {
			for _, p := range h.PanicProps {
				if p == prop {
					out = append(out, v)
				}
			}
		}
	}
	return out
}

// withSignature returns the violation of r against prop that has the given signature.
func withSignature(h *Harness, prop string, r *Result, sig string) *Violation {
	for _, v := range relevantAll(h, prop, r) {
		if v.Signature == sig {
			return v
		}
	}
	return nil
}

// WorkerMain is the body of every TestVerif<Harness> function.
func WorkerMain(t *testing.T, h Harness) {
	prop := os.Getenv("VERIF_PROP")
	if prop == "" {
		t.Skip("VERIF_PROP not set (run through /verif/bin/check)")
	}
	tier := os.Getenv("VERIF_TIER")
	if tier == "" {
		tier = "quick"
	}
	seed := envU64("VERIF_SEED", 1)
	worker := envInt("VERIF_WORKER", 0)
	nworkers := envInt("VERIF_NWORKERS", 1)
	wall := time.Duration(envInt("VERIF_WALL_S", 30)) * time.Second
	maxRuns := envInt("VERIF_MAXRUNS", 1<<30)
	outPath := os.Getenv("VERIF_OUT")
	replayDir := os.Getenv("VERIF_REPLAY_DIR")
	if replayDir == "" {
		replayDir = "/verif/replays"
	}
	known := loadKnown(os.Getenv("VERIF_KNOWN"))
	// additional known findings for development (e.g. proposed entries that are not yet registered)
	known = append(known, loadKnown(os.Getenv("VERIF_KNOWN_EXTRA"))...)
	selftest := os.Getenv("VERIF_SELFTEST") != ""

	out := WorkerOut{Harness: h.Name, Property: prop, Faults: map[string]int{}, Probes: map[string]int{}, Strategies: map[string]int{},
		Info: map[string]int{}, Known: map[string]int{}, Real: h.Real, Stub: h.Stub, Rule: h.Rule[prop], Assumptions: h.Assumptions}
	if out.Rule == "" {
		out.Rule = h.Rule["*"]
	}
	start := time.Now()
	defer func() {
		out.WallS = time.Since(start).Seconds()
		if outPath != "" {
			b, _ := json.Marshal(out)
			if err := os.WriteFile(outPath, b, 0o644); err != nil {
				t.Errorf("write %s: %v", outPath, err)
			}
		}
	}()

	if rp := os.Getenv("VERIF_REPLAY"); rp != "" {
		replayOne(t, &h, rp, &out)
		return
	}

	seenState := map[uint64]bool{}
	for i := uint64(worker); ; i += uint64(nworkers) {
		if int(i) >= maxRuns || time.Since(start) > wall {
			break
		}
		runSeed := Mix(seed, i)
		tape := NewTape(runSeed)
		r := h.RunOne(t, tape, prop, tier, false)
		if r.HarnessErr != "" {
			out.Errors = append(out.Errors, fmt.Sprintf("run %d (seed %d): %s", i, runSeed, r.HarnessErr))
			if len(out.Errors) > 3 {
				break
			}
			continue
		}
		out.Cases++
		if r.Executions > 1 {
			out.Runs += r.Executions
		} else {
			out.Runs++
		}
		out.Steps += int64(r.Steps)
		out.SimSeconds += r.SimTime.Seconds()
		out.NonBaton += r.NonBaton
		if r.MaxRunnable > out.MaxRunnable {
			out.MaxRunnable = r.MaxRunnable
		}
		for k, v := range r.Faults {
			out.Faults[k] += v
		}
		for k, v := range r.Probes {
			out.Probes[k] += v
		}
		for k, v := range r.Info {
			out.Info[k] += v
		}
		out.Strategies[r.Strategy]++
		nt := r.MaxRunnable >= 2
		if h.NonTrivial != nil {
			nt = h.NonTrivial(prop, &r)
		}
		if nt {
			out.NonTrivial++
			out.Hashes = append(out.Hashes, strconv.FormatUint(r.SchedHash, 16))
			for _, h := range r.ExtraHashes {
				out.Hashes = append(out.Hashes, strconv.FormatUint(h, 16))
			}
		}
		for _, st := range r.States {
			if !seenState[st] {
				seenState[st] = true
				out.States = append(out.States, strconv.FormatUint(st, 16))
			}
		}
		if r.Overflow || r.TapeOver {
			out.Discarded++
		}
		if len(out.Samples) < 2 && len(r.Sample) > 0 && nt {
			out.Samples = append(out.Samples, r.Sample)
		}
		if selftest {
			if out.DetHashes == nil {
				out.DetHashes = map[string]string{}
			}
			out.DetHashes[strconv.FormatUint(i, 10)] = fullHash(&r)
			continue
		}
		// a run may carry several violations (e.g. several race reports): known findings are
		// counted, the first one that is not a known finding is pursued
		var v *Violation
		var unconfirmed []*Violation
		countedKnown := map[string]bool{}
		for _, cand := range relevantAll(&h, prop, &r) {
			if kf := matchKnown(known, prop, cand.Signature); kf != nil {
				if !countedKnown[kf.Signature] {
					countedKnown[kf.Signature] = true
					out.Known[kf.Signature]++
				}
				continue
			}
			if cand.Unconfirmed {
				unconfirmed = append(unconfirmed, cand)
			} else if v == nil {
				v = cand
			}
		}
		if v == nil && len(unconfirmed) > 0 {
			// seen once, not again when the harness re-executed the tape in this process: two
			// fresh processes must both show it; what they do not show is counted and dropped
			stop := false
			for _, u := range unconfirmed {
				rf := ReplayFile{Property: prop, Harness: h.Name, Race: RaceBuild, Tier: tier, Seed: seed, RunSeed: runSeed, RunIndex: i, Tape: r.Tape, OrigTape: len(r.Tape), Fresh: true}
				rf.Expect.Class, rf.Expect.Signature, rf.Message = u.Class, u.Signature, u.Msg
				rf.Sample = r.Sample
				_ = os.MkdirAll(replayDir, 0o755)
				path := filepath.Join(replayDir, fmt.Sprintf("%s-%d-%d.json", prop, seed, i))
				b, _ := json.MarshalIndent(rf, "", " ")
				if err := os.WriteFile(path, b, 0o644); err != nil {
					out.Errors = append(out.Errors, "write replay: "+err.Error())
					stop = true
					break
				}
				ok, _ := replayInFreshProcess(path)
				if ok {
					ok, _ = replayInFreshProcess(path)
				}
				if ok {
					// bounded minimisation: the shortest prefix of the tape that still shows it in a
					// fresh process (every candidate costs a process start, so nothing finer is tried)
					cur, tries := r.Tape, 0
					for n := len(cur) / 2; n >= 1 && tries < 14; n /= 2 {
						for len(cur) > n && tries < 14 {
							tries++
							rf.Tape = cur[:len(cur)-n]
							b, _ := json.MarshalIndent(rf, "", " ")
							if os.WriteFile(path, b, 0o644) != nil {
								break
							}
							if ok, _ := replayInFreshProcess(path); !ok {
								break
							}
							cur = cur[:len(cur)-n]
						}
					}
					rf.Tape, rf.MinRuns = cur, tries
					b, _ := json.MarshalIndent(rf, "", " ")
					_ = os.WriteFile(path, b, 0o644)
					if ok, _ := replayInFreshProcess(path); !ok {
						rf.Tape = r.Tape
						b, _ := json.MarshalIndent(rf, "", " ")
						_ = os.WriteFile(path, b, 0o644)
					}
					out.Violations = append(out.Violations, WorkerViolation{prop, u.Class, u.Signature, u.Msg, path, i})
					stop = true
					break
				}
				os.Remove(path)
				out.Info["unconfirmed_report_dropped"]++
			}
			if stop {
				break
			}
		}
		if v == nil {
			continue
		}
		// a new violation: confirm by replaying the recorded tape
		if r.TapeOver {
			out.Errors = append(out.Errors, fmt.Sprintf("run %d: violation %s but tape overflowed; cannot replay", i, v.Signature))
			break
		}
		r2 := h.RunOne(t, ReplayTape(r.Tape), prop, tier, false)
		v2 := withSignature(&h, prop, &r2, v.Signature)
		if v2 == nil && out.Cases == 1 && len(out.Errors) == 0 {
			// the first execution of this process: what it showed may need the state of a
			// process that has just started. Confirm in a fresh process.
			rf := ReplayFile{Property: prop, Harness: h.Name, Race: RaceBuild, Tier: tier, Seed: seed, RunSeed: runSeed, RunIndex: i, Tape: r.Tape, OrigTape: len(r.Tape), Fresh: true}
			rf.Expect.Class, rf.Expect.Signature, rf.Message = v.Class, v.Signature, v.Msg
			rf.Sample = r.Sample
			_ = os.MkdirAll(replayDir, 0o755)
			path := filepath.Join(replayDir, fmt.Sprintf("%s-%d-%d.json", prop, seed, i))
			b, _ := json.MarshalIndent(rf, "", " ")
			if err := os.WriteFile(path, b, 0o644); err != nil {
				out.Errors = append(out.Errors, "write replay: "+err.Error())
				break
			}
			if ok, why := replayInFreshProcess(path); ok {
				out.Violations = append(out.Violations, WorkerViolation{prop, v.Class, v.Signature, v.Msg, path, i})
				break
			} else {
				os.Remove(path)
				out.Errors = append(out.Errors, fmt.Sprintf("NONDETERMINISM run %d (seed %d): violation %q of the first execution of the process reproduced neither in this process nor in a fresh one (%s): %s", i, runSeed, v.Signature, why, v.Msg))
				break
			}
		}
		if v2 == nil {
			got := "<none>"
			if o := relevant(&h, prop, &r2); o != nil {
				got = o.Signature
			}
			out.Errors = append(out.Errors, fmt.Sprintf("NONDETERMINISM run %d (seed %d): violation %q did not reproduce on replay (got %s): %s", i, runSeed, v.Signature, got, v.Msg))
			break
		}
		minTape, nruns := minimise(t, &h, prop, tier, r.Tape, v.Signature)
		rf := ReplayFile{Property: prop, Harness: h.Name, Race: RaceBuild, Tier: tier, Seed: seed, RunSeed: runSeed, RunIndex: i, Tape: minTape, OrigTape: len(r.Tape), MinRuns: nruns}
		rm := h.RunOne(t, ReplayTape(minTape), prop, tier, true)
		vm := withSignature(&h, prop, &rm, v.Signature)
		if vm == nil {
			// minimised tape is flaky: fall back to the original
			rf.Tape = r.Tape
			rm = h.RunOne(t, ReplayTape(r.Tape), prop, tier, true)
			vm = withSignature(&h, prop, &rm, v.Signature)
			if vm == nil {
				// report the violation that was found and confirmed, never a different one
				// that the last execution happens to show first
				vm = v
			}
		}
		rf.Expect.Class, rf.Expect.Signature, rf.Message = vm.Class, vm.Signature, vm.Msg
		rf.Trace = rm.Trace
		if len(rf.Trace) > 400 {
			rf.Trace = append([]string{fmt.Sprintf("... %d earlier events omitted ...", len(rf.Trace)-400)}, rf.Trace[len(rf.Trace)-400:]...)
		}
		rf.Sample = rm.Sample
		_ = os.MkdirAll(replayDir, 0o755)
		path := filepath.Join(replayDir, fmt.Sprintf("%s-%d-%d.json", prop, seed, i))
		b, _ := json.MarshalIndent(rf, "", " ")
		if err := os.WriteFile(path, b, 0o644); err != nil {
			out.Errors = append(out.Errors, "write replay: "+err.Error())
		}
		out.Violations = append(out.Violations, WorkerViolation{prop, vm.Class, vm.Signature, vm.Msg, path, i})
		break
	}
}

// replayInFreshProcess executes a replay file in a new process of this test binary.
func replayInFreshProcess(path string) (bool, string) {
	tmp := path + ".out"
	defer os.Remove(tmp)
	cmd := exec.Command(os.Args[0], os.Args[1:]...)
	for _, e := range os.Environ() {
		if strings.HasPrefix(e, "VERIF_REPLAY=") || strings.HasPrefix(e, "VERIF_OUT=") || strings.HasPrefix(e, "VERIF_MAXRUNS=") {
			continue
		}
		cmd.Env = append(cmd.Env, e)
	}
	cmd.Env = append(cmd.Env, "VERIF_REPLAY="+path, "VERIF_OUT="+tmp)
	outb, err := cmd.CombinedOutput()
	b, rerr := os.ReadFile(tmp)
	if rerr != nil {
		return false, fmt.Sprintf("fresh process gave no result: %v %v %s", err, rerr, lastBytes(outb, 300))
	}
	var wo WorkerOut
	if err := json.Unmarshal(b, &wo); err != nil || wo.Replay == nil {
		return false, fmt.Sprintf("fresh process gave no replay outcome: %v %v", err, wo.Errors)
	}
	if wo.Replay.Reproduced {
		return true, ""
	}
	return false, "fresh process got " + strconv.Quote(wo.Replay.Got)
}

func lastBytes(b []byte, n int) string {
	if len(b) > n {
		b = b[len(b)-n:]
	}
	return string(b)
}

func matchKnown(known []KnownFinding, prop, sig string) *KnownFinding {
	for i := range known {
		k := &known[i]
		if k.Status == "open" && k.Property == prop && k.Signature == sig {
			return k
		}
	}
	return nil
}

func fullHash(r *Result) string {
	var sb strings.Builder
	fmt.Fprintf(&sb, "%x/%d/%d/%d", r.SchedHash, r.Steps, int64(r.SimTime), r.TapeUsed)
	for _, v := range r.Violations {
		sb.WriteString("/" + v.Signature)
	}
	for _, h := range r.ExtraHashes {
		fmt.Fprintf(&sb, "/%x", h)
	}
	keys := make([]string, 0, len(r.Info))
	for k := range r.Info {
		keys = append(keys, k)
	}
	sort.Strings(keys)
	for _, k := range keys {
		fmt.Fprintf(&sb, "/%s=%d", k, r.Info[k])
	}
	return sb.String()
}

func replayOne(t *testing.T, h *Harness, path string, out *WorkerOut) {
	b, err := os.ReadFile(path)
	if err != nil {
		out.Errors = append(out.Errors, err.Error())
		return
	}
	var rf ReplayFile
	if err := json.Unmarshal(b, &rf); err != nil {
		out.Errors = append(out.Errors, err.Error())
		return
	}
	FreshReplay = rf.Fresh
	r := h.RunOne(t, ReplayTape(rf.Tape), rf.Property, rf.Tier, true)
	FreshReplay = false
	if r.HarnessErr != "" {
		out.Errors = append(out.Errors, r.HarnessErr)
		return
	}
	out.Runs = 1
	ro := &ReplayOutcome{Want: rf.Expect.Signature}
	if v := withSignature(h, rf.Property, &r, rf.Expect.Signature); v != nil {
		ro.Got, ro.Msg, ro.Reproduced = v.Signature, v.Msg, true
	} else if v := relevant(h, rf.Property, &r); v != nil {
		ro.Got, ro.Msg = v.Signature, v.Msg
	}
	out.Replay = ro
	out.Samples = append(out.Samples, r.Trace)
}

// minimise shrinks a violating tape: truncate, zero chunks, delete chunks.
func minimise(t *testing.T, h *Harness, prop, tier string, tape []uint32, sig string) ([]uint32, int) {
	deadline := time.Now().Add(90 * time.Second)
	runs := 0
	try := func(c []uint32) bool {
		if runs >= 4000 || time.Now().After(deadline) {
			return false
		}
		runs++
		r := h.RunOne(t, ReplayTape(c), prop, tier, false)
		return withSignature(h, prop, &r, sig) != nil
	}
	cur := append([]uint32(nil), tape...)
	// 1. shortest failing prefix
	for n := len(cur) / 2; n >= 1; n /= 2 {
		for len(cur) > n {
			cand := cur[:len(cur)-n]
			if try(cand) {
				cur = cand
			} else {
				break
			}
		}
	}
	// 2. zero chunks
	for n := len(cur) / 2; n >= 1; n /= 2 {
		for i := 0; i+n <= len(cur); i += n {
			allZero := true
			for _, v := range cur[i : i+n] {
				if v != 0 {
					allZero = false
					break
				}
			}
			if allZero {
				continue
			}
			cand := append([]uint32(nil), cur...)
			for j := i; j < i+n; j++ {
				cand[j] = 0
			}
			if try(cand) {
				cur = cand
			}
		}
	}
	// 3. delete chunks
	for n := len(cur) / 2; n >= 1; n /= 2 {
		for i := 0; i+n <= len(cur); {
			cand := append(append([]uint32(nil), cur[:i]...), cur[i+n:]...)
			if try(cand) {
				cur = cand
			} else {
				i += n
			}
		}
	}
	// strip trailing zeros (an exhausted tape reads as zeros)
	for len(cur) > 0 && cur[len(cur)-1] == 0 {
		cur = cur[:len(cur)-1]
	}
	return cur, runs
}
