//go:build verif

// Package verifsim is the deterministic-simulation kernel that instrumented
// copies of the repository's packages are linked against (overlay only; this
// package does not exist in the shipped tree).
//
// One run = one testing/synctest bubble. The bubble's root goroutine is the
// controller; every goroutine that executes instrumented code is a task that
// parks in Yield and is released one at a time, in an order drawn from the
// choice tape. See /verif/DESIGN.md section 3.
//
// Discipline for everything reachable from Yield/Enter/Done/Mutex: functions are
// //go:norace, use no closures, no maps, no growing slices and no fmt, so that
// under -race the kernel neither creates happens-before edges between tasks
// (hand-off is bracketed by RaceDisable/RaceEnable) nor shows up in reports.
package verifsim

import (
	"runtime"
	"strconv"
	"sync"
	"testing/synctest"
	"time"
)

const (
	maxTasks  = 2048
	maxEvents = 1 << 17
	maxViol   = 16
	maxCount  = 128
)

// Task is one goroutine of the system under test (or of the harness).
type Task struct {
	key     string // deterministic identity: parentKey/n
	name    string // spawn site or harness name
	gid     uint64
	grant   chan struct{}
	mwake   chan struct{} // mutex wake-up, buffered 1
	label   string
	nspawn  int
	dead    bool
	parked  bool
	atomic  int
	prio    int // PCT priority, assigned by the controller
	unwind  bool
	waitM   *Mutex
	waitRW  *RWMutex
	nextW   *Task // intrusive waiter list of a mutex
	steps   int
	holding int // number of sim locks held (diagnostics)
	tok     *Token
	epoch   int // process incarnation the task belongs to (see Crash/ResetCrash)
}

// Token carries a deterministic identity from a parent to the goroutine it starts.
type Token struct {
	key   string
	site  string
	used  int
	epoch int
}

// Event is one scheduling decision.
type Event struct {
	At    time.Duration
	Task  *Task
	Label string
	Nrun  int // number of runnable tasks when the decision was taken
}

// Violation is what oracles and the kernel record.
type Violation struct {
	Property  string
	Class     string
	Signature string
	Msg       string
	Step      int
	TapePos   int
	// Unconfirmed: the harness saw it once and could not see it again when it re-executed the
	// tape in this process (a report of an observer such as the race detector, which can hinge
	// on state a process has only once). The worker confirms it in fresh processes; what does
	// not reproduce there either is counted and dropped.
	Unconfirmed bool
}

type counter struct {
	name string
	n    int
}

// Strategy of the scheduler for one run.
const (
	StratUniform = iota
	StratPCT
	StratRunToBlock
	StratStarve
	numStrat
)

var stratNames = [...]string{"uniform", "pct", "run_to_block", "starve"}

// Sim is one simulated execution.
type Sim struct {
	tape *Tape
	mu   sync.Mutex

	tasks   []*Task
	parked  []*Task
	events  []Event
	nEvDrop int
	wake    chan struct{}
	epoch   time.Time
	steps   int
	root    *Task
	nAnon   int

	running *Task

	viol  []Violation
	nviol int

	faults [maxCount]counter
	nfault int
	probes [maxCount]counter
	nprobe int

	hash      uint64
	maxRun    int
	overflow  bool
	crashed   bool
	strategy  int
	pctChange [3]int
	last      *Task
	victim    int
	nonBaton  int
	epochN    int // current process incarnation; tasks of older ones are zombies
	stallRate int // one step in stallRate starts with a stall of all runnable tasks (0 = never)
	nStall    int

	KeepLog bool
	OnStep  func()                  // controller-side invariant hook, called at quiescence after every step
	OnYield func(label string) bool // task-side crash/fault-point hook (vfs); return true to crash here
}

var cur *Sim

type crashSentinel struct{}

// Active reports whether a simulation is running.
//
//go:norace
func Active() bool { return cur != nil }

// Cur returns the running simulation (nil outside one).
//
//go:norace
func Cur() *Sim { return cur }

//go:norace
func gid() uint64 {
	var buf [64]byte
	n := runtime.Stack(buf[:], false)
	// "goroutine 123 ["
	var id uint64
	for i := 10; i < n; i++ {
		c := buf[i]
		if c < '0' || c > '9' {
			break
		}
		id = id*10 + uint64(c-'0')
	}
	return id
}

// newSim must be called on the bubble's root goroutine.
//
//go:norace
func newSim(tp *Tape) *Sim {
	s := &Sim{
		tape:   tp,
		tasks:  make([]*Task, 0, maxTasks),
		parked: make([]*Task, 0, maxTasks),
		events: make([]Event, 0, maxEvents),
		viol:   make([]Violation, 0, maxViol),
		wake:   make(chan struct{}, 1),
		epoch:  time.Now(),
		hash:   14695981039346656037,
	}
	s.root = &Task{key: "r", name: "root", gid: gid()}
	s.strategy = tp.draw(numStrat + 2)
	if s.strategy >= numStrat {
		s.strategy = StratUniform
	}
	for i := range s.pctChange {
		s.pctChange[i] = 1 + tp.draw(4000)
	}
	s.victim = tp.draw(8)
	// CPU starvation: in some runs every runnable task is occasionally held back for a
	// while (a loaded machine, a GC or VM pause), so that timers of sleeping tasks fire
	// although something was runnable - otherwise a runnable task would always run
	// before the clock moves, and "the ticker fired between these two steps" would be
	// unreachable.
	s.stallRate = [...]int{0, 0, 0, 200, 50, 15}[tp.draw(6)]
	cur = s
	return s
}

var stallDurations = [...]time.Duration{200 * time.Microsecond, 2 * time.Millisecond, 20 * time.Millisecond, 150 * time.Millisecond, 1100 * time.Millisecond, 3 * time.Second}

//go:norace
func (s *Sim) lookup(g uint64) *Task {
	if s.root.gid == g {
		return s.root
	}
	for i := len(s.tasks) - 1; i >= 0; i-- {
		if t := s.tasks[i]; t.gid == g {
			return t
		}
	}
	return nil
}

//go:norace
func (s *Sim) poke() {
	select {
	case s.wake <- struct{}{}:
	default:
	}
}

// Spawn is called by the parent immediately before it starts a goroutine (or
// hands a callback to something that will run it on a new goroutine).
//
//go:norace
func Spawn(site string) *Token {
	s := cur
	if s == nil {
		return nil
	}
	raceOff()
	s.mu.Lock()
	p := s.lookup(gid())
	var tok *Token
	if p == nil {
		tok = &Token{key: "?", site: site, epoch: s.epochN}
	} else {
		p.nspawn++
		tok = &Token{key: p.key + "/" + strconv.Itoa(p.nspawn), site: site, epoch: p.epoch}
	}
	s.mu.Unlock()
	raceOn()
	return tok
}

// Enter is the first statement of every goroutine body started by instrumented
// code: it registers the goroutine as a task and parks until first scheduled.
// If the goroutine already is a task (an AfterFunc/errgroup literal invoked
// synchronously) it just yields.
//
//go:norace
func Enter(tok *Token, site string) {
	s := cur
	if s == nil {
		return
	}
	raceOff()
	g := gid()
	s.mu.Lock()
	t := s.lookup(g)
	if t != nil {
		s.mu.Unlock()
		raceOn()
		if t != s.root {
			Yield(site)
		}
		return
	}
	if len(s.tasks) >= maxTasks {
		s.overflow = true
		s.mu.Unlock()
		raceOn()
		return
	}
	t = &Task{gid: g, grant: make(chan struct{}), mwake: make(chan struct{}, 1), name: site, tok: tok, epoch: s.epochN}
	if tok != nil {
		t.epoch = tok.epoch
	}
	if t.epoch < s.epochN || s.crashed {
		// started by a goroutine of a dead process incarnation: never runs
		t.unwind = true
		t.dead = true
		s.mu.Unlock()
		raceOn()
		panic(crashSentinel{})
	}
	if tok != nil && tok.key != "?" {
		tok.used++
		t.key = tok.key
		if tok.used > 1 {
			t.key += "#" + strconv.Itoa(tok.used)
		}
	} else {
		s.nAnon++
		t.key = "anon/" + site + "/" + strconv.Itoa(s.nAnon)
	}
	s.tasks = append(s.tasks, t)
	t.label = site
	t.parked = true
	s.parked = append(s.parked, t)
	s.mu.Unlock()
	s.poke()
	<-t.grant
	raceOn()
	if t.unwind {
		panic(crashSentinel{})
	}
}

// Done is deferred at the top of every goroutine body started by instrumented
// code. It reports task exit and turns a panic that would have killed the
// process into a recorded violation.
//
//go:norace
func Done(tok *Token) {
	r := recover()
	s := cur
	if s == nil {
		if r != nil {
			panic(r)
		}
		return
	}
	if r != nil {
		if _, ok := r.(crashSentinel); !ok && !s.crashed && !Dead() {
			site := "?"
			if tok != nil {
				site = tok.site
			}
			recordPanic(s, r, site)
		}
	}
	raceOff()
	s.mu.Lock()
	if t := s.lookup(gid()); t != nil && t != s.root && t.tok == tok {
		t.dead = true
		if s.running == t {
			s.running = nil
		}
		// remove from live list
		for i, x := range s.tasks {
			if x == t {
				copy(s.tasks[i:], s.tasks[i+1:])
				s.tasks = s.tasks[:len(s.tasks)-1]
				break
			}
		}
	}
	s.mu.Unlock()
	s.poke()
	raceOn()
}

// Yield parks the calling task until the controller releases it.
//
//go:norace
func Yield(label string) {
	s := cur
	if s == nil {
		return
	}
	raceOff()
	s.mu.Lock()
	t := s.lookup(gid())
	if t == nil || t == s.root || t.unwind {
		s.mu.Unlock()
		raceOn()
		return
	}
	if t.epoch < s.epochN {
		// a goroutine of a dead process incarnation woke up (timer, channel): unwind it
		t.unwind = true
		s.mu.Unlock()
		raceOn()
		panic(crashSentinel{})
	}
	if t.atomic > 0 {
		s.mu.Unlock()
		raceOn()
		return
	}
	t.label = label
	t.parked = true
	s.parked = append(s.parked, t)
	if s.running == t {
		s.running = nil
	}
	s.mu.Unlock()
	s.poke()
	<-t.grant
	raceOn()
	if t.unwind {
		panic(crashSentinel{})
	}
}

// CrashHere is called by a task (from the vfs or network seam) that has
// decided that the process dies at this very point: the world freezes, the
// task parks and is unwound by Sim.Crash like every other parked task.
//
//go:norace
func CrashHere(label string) {
	s := cur
	if s == nil {
		return
	}
	raceOff()
	s.mu.Lock()
	s.crashed = true
	t := s.lookup(gid())
	if t != nil {
		t.atomic = 0
	}
	s.mu.Unlock()
	raceOn()
	Yield(label)
}

// Dead reports whether the calling goroutine belongs to a process that has
// died: the world is frozen (between Crash and ResetCrash) or the goroutine is
// a leftover of an earlier incarnation. The vfs and network seams refuse to do
// anything for dead callers.
//
//go:norace
func Dead() bool {
	s := cur
	if s == nil {
		return false
	}
	if s.crashed {
		return true
	}
	if s.epochN == 0 {
		return false
	}
	raceOff()
	s.mu.Lock()
	t := s.lookup(gid())
	d := t != nil && t != s.root && t.epoch < s.epochN
	s.mu.Unlock()
	raceOn()
	return d
}

// Sleep is time.Sleep followed by a yield (harness and environment code).
func Sleep(d time.Duration) {
	if d > 0 {
		time.Sleep(d)
	}
	Yield("sleep")
}

// Atomic runs f with yields suppressed for the calling task.
func Atomic(f func()) {
	s := cur
	if s == nil {
		f()
		return
	}
	t := s.self()
	if t != nil {
		t.atomic++
	}
	defer func() {
		if t != nil {
			t.atomic--
		}
	}()
	f()
}

//go:norace
func (s *Sim) self() *Task {
	raceOff()
	s.mu.Lock()
	t := s.lookup(gid())
	s.mu.Unlock()
	raceOn()
	if t == s.root {
		return nil
	}
	return t
}

// TaskKey returns the deterministic key of the calling task ("" for the
// controller or outside a simulation).
//
//go:norace
func TaskKey() string {
	s := cur
	if s == nil {
		return ""
	}
	if t := s.self(); t != nil {
		return t.key
	}
	return ""
}

// Draw returns a tape-chosen value in [0,n).
//
//go:norace
func Draw(tag string, n int) int {
	s := cur
	if s == nil {
		return 0
	}
	raceOff()
	s.mu.Lock()
	if s.crashed || s.epochN > 0 {
		if t := s.lookup(gid()); t != nil && t != s.root && (s.crashed || t.unwind || t.epoch < s.epochN) {
			s.mu.Unlock()
			raceOn()
			return 0
		}
	}
	if s.running != nil {
		if g := gid(); g != s.running.gid && g != s.root.gid {
			s.nonBaton++
		}
	}
	v := s.tape.draw(n)
	s.mu.Unlock()
	raceOn()
	return v
}

// Intn is Draw without a tag.
//
//go:norace
func Intn(n int) int { return Draw("", n) }

// Chance is true with probability num/den.
//
//go:norace
func Chance(num, den int) bool { return Draw("", den) < num }

// Float64 returns a tape-chosen value in [0,1).
//
//go:norace
func Float64() float64 { return float64(Draw("", 1<<24)) / float64(1<<24) }

// Perm returns a tape-chosen permutation of 0..n-1.
//
//go:norace
func Perm(n int) []int {
	p := make([]int, n)
	for i := range p {
		p[i] = i
	}
	if cur == nil {
		return p
	}
	for i := n - 1; i > 0; i-- {
		j := Draw("", i+1)
		p[i], p[j] = p[j], p[i]
	}
	return p
}

// Zero returns the zero value of a channel's element type (select rewriting).
func Zero[C ~chan T | ~<-chan T, T any](c C) (z T) { return }

// ---- controller ---------------------------------------------------------------

// Stop says why RunUntil returned.
type Stop int

const (
	CondTrue Stop = iota
	Idle
	StepBudget
	SimBudget
	Violated
	Crashed
	Overflow
)

func (s Stop) String() string {
	return [...]string{"cond", "idle", "step-budget", "sim-budget", "violation", "crashed", "overflow"}[s]
}

//go:norace
func less(a, b string) bool { return a < b }

//go:norace
func (s *Sim) sortParked() {
	p := s.parked
	for i := 1; i < len(p); i++ {
		for j := i; j > 0 && less(p[j].key, p[j-1].key); j-- {
			p[j], p[j-1] = p[j-1], p[j]
		}
	}
}

//go:norace
func (s *Sim) pick() int {
	n := len(s.parked)
	s.sortParked()
	if n > s.maxRun {
		s.maxRun = n
	}
	switch s.strategy {
	case StratPCT:
		for _, t := range s.parked {
			if t.prio == 0 {
				t.prio = 1000 + s.tape.draw(1000000)
			}
		}
		for _, c := range s.pctChange {
			if s.steps == c && s.last != nil {
				s.last.prio = 1 + s.tape.draw(999)
			}
		}
		// a small amount of noise keeps PCT from being fully priority-driven
		if s.tape.draw(16) == 0 {
			return s.tape.draw(n)
		}
		best := 0
		for i, t := range s.parked {
			if t.prio > s.parked[best].prio {
				best = i
			}
		}
		return best
	case StratRunToBlock:
		if s.last != nil && s.last.parked {
			for i, t := range s.parked {
				if t == s.last {
					if n == 1 || s.tape.draw(12) != 0 {
						return i
					}
					break
				}
			}
		}
		return s.tape.draw(n)
	case StratStarve:
		i := s.tape.draw(n)
		if n > 1 && s.steps < 3000 {
			// the victim is the (victim mod n)-th oldest key; skip it 7 times out of 8
			v := s.victim % n
			if i == v && s.tape.draw(8) != 0 {
				i = (i + 1 + s.tape.draw(n-1)) % n
			}
		}
		return i
	}
	return s.tape.draw(n)
}

// step releases one parked task. It returns false when nothing became
// runnable before the deadline.
//
//go:norace
func (s *Sim) step(deadline time.Time) bool {
	raceOff()
	defer raceOn()
	for {
		synctest.Wait()
		s.mu.Lock()
		np := len(s.parked)
		s.mu.Unlock()
		if np == 0 {
			d := time.Until(deadline)
			if d <= 0 {
				return false
			}
			tm := time.NewTimer(d)
			select {
			case <-s.wake:
				tm.Stop()
			case <-tm.C:
				synctest.Wait()
				s.mu.Lock()
				np = len(s.parked)
				s.mu.Unlock()
				if np == 0 {
					return false
				}
			}
			continue
		}
		// real code takes time: let 1..50us pass before the next step
		time.Sleep(time.Duration(1+s.tape.draw(50)) * time.Microsecond)
		synctest.Wait()
		if s.stallRate > 0 && s.tape.draw(s.stallRate) == 0 {
			// hold every runnable task back: timers that expire meanwhile fire one after the
			// other (the bubble quiesces between two of them) and their goroutines park too
			s.nStall++
			time.Sleep(stallDurations[s.tape.draw(len(stallDurations))])
			synctest.Wait()
		}
		s.mu.Lock()
		select {
		case <-s.wake:
		default:
		}
		i := s.pick()
		t := s.parked[i]
		n := len(s.parked)
		copy(s.parked[i:], s.parked[i+1:])
		s.parked = s.parked[:n-1]
		t.parked = false
		t.steps++
		at := time.Since(s.epoch)
		if len(s.events) < cap(s.events) {
			s.events = append(s.events, Event{at, t, t.label, n})
		} else {
			s.nEvDrop++
		}
		s.hashStr(t.key)
		s.hashStr(t.label)
		s.hash = (s.hash ^ uint64(at)) * 1099511628211
		s.steps++
		s.last = t
		s.running = t
		s.mu.Unlock()
		t.grant <- struct{}{}
		return true
	}
}

//go:norace
func (s *Sim) hashStr(x string) {
	h := s.hash
	for i := 0; i < len(x); i++ {
		h = (h ^ uint64(x[i])) * 1099511628211
	}
	s.hash = (h ^ 0xff) * 1099511628211
}

// RunUntil drives the simulation until cond holds (evaluated at quiescence
// between steps), nothing becomes runnable within simBudget of simulated time,
// or a budget is exhausted.
func (s *Sim) RunUntil(cond func() bool, simBudget time.Duration, stepBudget int) Stop {
	deadline := time.Now().Add(simBudget)
	start := s.steps
	for {
		s.quiesce()
		if s.nviol > 0 {
			return Violated
		}
		if s.crashed {
			return Crashed
		}
		if s.overflow {
			return Overflow
		}
		if cond != nil && cond() {
			return CondTrue
		}
		if s.steps-start >= stepBudget {
			return StepBudget
		}
		if !s.step(deadline) {
			s.quiesce()
			if s.nviol > 0 {
				return Violated
			}
			if cond != nil && cond() {
				return CondTrue
			}
			if !time.Now().Before(deadline) {
				// nothing runnable for the whole remaining horizon
				return Idle
			}
			return Idle
		}
		s.quiesce()
		if s.OnStep != nil {
			s.OnStep()
		}
	}
}

//go:norace
func (s *Sim) quiesce() {
	raceOff()
	synctest.Wait()
	raceOn()
}

// Steps returns the number of scheduling decisions so far.
func (s *Sim) Steps() int { return s.steps }

// Now returns simulated time since the start of the run.
func (s *Sim) Now() time.Duration { return time.Since(s.epoch) }

// Tape returns the run's tape.
func (s *Sim) Tape() *Tape { return s.tape }

// NumParked returns the number of currently runnable tasks (controller only).
func (s *Sim) NumParked() int {
	s.quiesce()
	s.mu.Lock()
	defer s.mu.Unlock()
	return len(s.parked)
}

// Go starts a harness task.
func (s *Sim) Go(name string, f func()) {
	tok := Spawn(name)
	go taskMain(tok, name, f)
}

// Go starts a harness task from inside another task (or the controller).
func Go(name string, f func()) {
	tok := Spawn(name)
	go taskMain(tok, name, f)
}

func taskMain(tok *Token, name string, f func()) {
	defer Done(tok)
	Enter(tok, name)
	f()
}

// Crash models process death: the controller stops releasing tasks normally;
// every parked task is unwound with a sentinel panic (its deferred calls run
// against a frozen vfs), tasks blocked in channel operations are abandoned
// with the bubble.
func (s *Sim) Crash() {
	s.crashed = true
	for iter := 0; iter < 10000; iter++ {
		s.quiesce()
		s.mu.Lock()
		if len(s.parked) == 0 {
			s.mu.Unlock()
			break
		}
		s.sortParked()
		t := s.parked[0]
		copy(s.parked, s.parked[1:])
		s.parked = s.parked[:len(s.parked)-1]
		t.parked = false
		t.unwind = true
		s.mu.Unlock()
		raceOffGrant(t)
	}
	s.quiesce()
}

//go:norace
func raceOffGrant(t *Task) {
	raceOff()
	t.grant <- struct{}{}
	raceOn()
}

// IsCrashed reports whether Crash was called (vfs freezes on it).
//
//go:norace
func IsCrashed() bool {
	s := cur
	return s != nil && s.crashed
}

// ResetCrash lets the harness "restart the process" in the same bubble.
//
// Goroutines of the dead incarnation that are still blocked somewhere become
// zombies: when one wakes up it is unwound at its next yield, its draws do not
// touch the tape and the vfs / network seams ignore it.
func (s *Sim) ResetCrash() {
	s.mu.Lock()
	s.crashed = false
	s.epochN++
	s.root.epoch = s.epochN
	s.mu.Unlock()
}

// ---- violations, probes, faults ---------------------------------------------------

// Violate records a violation (from an oracle, in any task).
//
//go:norace
func Violate(property, class, signature, msg string) {
	s := cur
	if s == nil {
		return
	}
	raceOff()
	s.mu.Lock()
	if len(s.viol) < cap(s.viol) {
		s.viol = append(s.viol, Violation{property, class, signature, msg, s.steps, s.tape.pos, false})
	}
	s.nviol++
	s.mu.Unlock()
	raceOn()
}

func recordPanic(s *Sim, r any, site string) {
	msg := panicString(r)
	stack := make([]byte, 8192)
	stack = stack[:runtime.Stack(stack, false)]
	fn := topRepoFunc(string(stack))
	Violate("*", "panic", "panic:"+panicClass(msg)+"@"+fn, "unrecovered panic in goroutine spawned at "+site+": "+msg+"\n"+string(stack))
}

//go:norace
func bump(arr *[maxCount]counter, n *int, name string) {
	for i := 0; i < *n; i++ {
		if arr[i].name == name {
			arr[i].n++
			return
		}
	}
	if *n < maxCount {
		arr[*n] = counter{name, 1}
		*n++
	}
}

// Probe counts that a rare branch or condition was reached.
//
//go:norace
func Probe(name string) {
	s := cur
	if s == nil {
		return
	}
	raceOff()
	s.mu.Lock()
	bump(&s.probes, &s.nprobe, name)
	s.mu.Unlock()
	raceOn()
}

// Fault counts that a fault of the given kind actually fired.
//
//go:norace
func Fault(kind string) {
	s := cur
	if s == nil {
		return
	}
	raceOff()
	s.mu.Lock()
	bump(&s.faults, &s.nfault, kind)
	s.mu.Unlock()
	raceOn()
}

// Violations returns what was recorded so far.
func (s *Sim) Violations() []Violation {
	s.mu.Lock()
	defer s.mu.Unlock()
	return append([]Violation(nil), s.viol...)
}

// Blocked lists live tasks that are neither parked nor dead (controller only,
// at quiescence): they are blocked inside the code under test.
func (s *Sim) Blocked() []*Task {
	s.quiesce()
	s.mu.Lock()
	defer s.mu.Unlock()
	var out []*Task
	for _, t := range s.tasks {
		if !t.parked && !t.dead {
			out = append(out, t)
		}
	}
	return out
}

// WaitingForLock reports whether the task is blocked waiting for a sim mutex
// (as opposed to a channel operation, a timer, ...). Controller only, at quiescence.
func (t *Task) WaitingForLock() bool { return t.waitM != nil || t.waitRW != nil }

func (t *Task) Key() string   { return t.key }
func (t *Task) Name() string  { return t.name }
func (t *Task) Label() string { return t.label }

// MapKeys returns the keys of m in a deterministic, tape-rotated order.
func MapKeys[M ~map[K]V, K comparable, V any](m M) []K {
	keys := make([]K, 0, len(m))
	for k := range m {
		keys = append(keys, k)
	}
	sortKeys(keys)
	if cur != nil && len(keys) > 1 {
		r := Draw("maprange", len(keys))
		if r > 0 {
			rot := make([]K, 0, len(keys))
			rot = append(rot, keys[r:]...)
			rot = append(rot, keys[:r]...)
			keys = rot
		}
	}
	return keys
}
