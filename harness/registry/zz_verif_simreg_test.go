//go:build verif

package registry

// Simulated registry for the NEW registry client (server/internal/client/ollama):
// an in-memory http.RoundTripper installed as Registry.HTTPClient.Transport. It
// plays the registry (manifests, blobs with Range, chunksums/ plans, uploads)
// and a CDN host for chunk downloads, keeps real protocol state, injects faults
// drawn from the tape, and is the monitor of the push-side oracle. No socket is
// opened. DESIGN.md 3.6 and 5 (C09).

import (
	"bytes"
	"context"
	"crypto/sha256"
	"encoding/json"
	"errors"
	"fmt"
	"io"
	"net/http"
	"sort"
	"strconv"
	"strings"
	"time"

	"github.com/ollama/ollama/verifsim"
)

const (
	regHost = "registry.sim"
	cdnHost = "cdn.sim"
)

// per-request fault kinds
const (
	nfConnReset    = "net_conn_reset"        // error before any response ("connection reset by peer": retried by the handler)
	nfConnOther    = "net_conn_error"        // error before any response (not retried)
	nf5xx          = "net_5xx"               // JSON error body
	nf5xxPlain     = "net_5xx_plain"         // non-JSON error body
	nf404          = "net_404"               //
	nfShort        = "net_short_body"        // io.ErrUnexpectedEOF after a prefix
	nfReset        = "net_reset_mid_body"    // connection reset by peer after a prefix
	nfFlip         = "net_flipped_byte"      //
	nfStall        = "net_stall"             // body goes quiet for longer than the read timeout
	nfRangeIgnored = "net_range_ignored"     // 200 with the whole blob
	nfUploadLost   = "net_upload_reply_lost" // the upload was committed but the reply is lost
	nfUploadCut    = "net_upload_cut"        // the registry stops reading the upload body
	nfUploadMoved  = "net_upload_redirected" // the registry answers the upload PUT with a redirect (nothing is stored)
)

// chunk plan kinds (chunksums/ endpoint)
const (
	planContiguous = "contiguous"
	planUnordered  = "unordered"
	planGapped     = "gapped"
	planOverlap    = "overlapping"
	planDupGap     = "dup-and-gap" // one chunk listed twice, another of the same size missing: byte count adds up
	planPastEnd    = "past-the-end"
	planBadDigest  = "wrong-chunk-digest"
	planCut        = "cut-mid-line"
	planCutClean   = "cut-between-lines"
)

var allPlanKinds = []string{planContiguous, planUnordered, planGapped, planOverlap, planDupGap, planPastEnd, planBadDigest, planCut, planCutClean}

var allNetKinds = []string{nfConnReset, nfConnOther, nf5xx, nf5xxPlain, nf404, nfShort, nfReset, nfFlip, nfStall, nfRangeIgnored, nfUploadLost, nfUploadCut, nfUploadMoved}

type netPlan struct {
	enabled map[string]bool
	plans   map[string]bool
	rate    int // one request in rate is faulted (0 = fault-free)
	budget  int
	off     bool
}

func drawNetPlan() *netPlan {
	D := verifsim.Draw
	p := &netPlan{enabled: map[string]bool{}, plans: map[string]bool{planContiguous: true}}
	// chunk plans: swarm subset, contiguous always possible
	for _, k := range allPlanKinds[1:] {
		if D("plan-kind", 3) == 0 {
			p.plans[k] = true
		}
	}
	if D("net-faultfree", 5) == 0 {
		return p
	}
	p.rate = []int{2, 3, 5, 8, 12}[D("net-rate", 5)]
	p.budget = 1 + D("net-budget", 10)
	n := 0
	for _, k := range allNetKinds {
		if D("net-kind", 3) == 0 {
			p.enabled[k] = true
			n++
		}
	}
	if n == 0 {
		p.enabled[allNetKinds[D("net-kind1", len(allNetKinds))]] = true
	}
	return p
}

func (p *netPlan) String() string {
	var pk []string
	for k := range p.plans {
		pk = append(pk, k)
	}
	sort.Strings(pk)
	if p.rate == 0 {
		return fmt.Sprintf("no request faults; chunk plans %v", pk)
	}
	var ks []string
	for k := range p.enabled {
		ks = append(ks, strings.TrimPrefix(k, "net_"))
	}
	sort.Strings(ks)
	return fmt.Sprintf("1/%d of requests faulted, at most %d, kinds %v; chunk plans %v", p.rate, p.budget, ks, pk)
}

func (p *netPlan) pick(cands ...string) string {
	if p == nil || p.off || p.rate == 0 || p.budget <= 0 {
		return ""
	}
	var en []string
	for _, c := range cands {
		if p.enabled[c] {
			en = append(en, c)
		}
	}
	if len(en) == 0 {
		return ""
	}
	if verifsim.Draw("net-fault?", p.rate) != 0 {
		return ""
	}
	k := en[verifsim.Draw("net-which", len(en))]
	p.budget--
	verifsim.Fault(k)
	return k
}

func (p *netPlan) pickPlan() string {
	if p == nil || p.off {
		return planContiguous
	}
	var en []string
	for _, k := range allPlanKinds {
		if p.plans[k] {
			en = append(en, k)
		}
	}
	// half of the plans are well-formed
	if verifsim.Draw("plan-ok?", 2) == 0 {
		return planContiguous
	}
	return en[verifsim.Draw("plan-which", len(en))]
}

func sha256Hex(b []byte) string { return fmt.Sprintf("sha256:%x", sha256.Sum256(b)) }

// layerStat is what the registry saw for one layer digest during one attempt.
type layerStat struct {
	requests int
	plan     string
	faults   []string
}

type simReg struct {
	now  func() time.Duration
	plan *netPlan

	manifests map[string][]byte            // "ns/model:tag" (lower case) -> manifest
	blobs     map[string]map[string][]byte // repo -> digest -> content (committed)
	present   map[string]map[string]bool   // repo -> digest reported present to an upload POST
	uploads   map[string]*simUpload
	nextUp    int
	chunkSize int // preferred chunk size of well-formed plans

	// what the client was told (pull oracle)
	delivered    map[string][]byte   // lower-case name -> last manifest body completely delivered
	deliveredAll map[string][][]byte // the same, every body of the current attempt

	// per attempt, per layer digest
	stats         map[string]*layerStat
	everRequested map[string]bool

	// push monitor
	accepted    map[string][]byte // name -> manifest accepted by a PUT
	pushViol    func(sig, msg string)
	manifestPut int

	nreq     int
	log      []string
	cancelAt int // cancel the attempt's context at this request number (0 = never)
	cancelFn func()
}

type simUpload struct {
	id, repo, digest string
}

func newSimReg(now func() time.Duration) *simReg {
	return &simReg{now: now, manifests: map[string][]byte{}, blobs: map[string]map[string][]byte{}, present: map[string]map[string]bool{},
		uploads: map[string]*simUpload{}, delivered: map[string][]byte{}, deliveredAll: map[string][][]byte{}, stats: map[string]*layerStat{}, accepted: map[string][]byte{}}
}

func (r *simReg) logf(f string, a ...any) {
	if len(r.log) < 400 {
		r.log = append(r.log, fmt.Sprintf("t=%v ", r.now())+fmt.Sprintf(f, a...))
	}
}

func (r *simReg) stat(d string) *layerStat {
	if r.everRequested == nil {
		r.everRequested = map[string]bool{}
	}
	r.everRequested[d] = true
	s := r.stats[d]
	if s == nil {
		s = &layerStat{}
		r.stats[d] = s
	}
	return s
}

func (r *simReg) addBlob(repo string, b []byte) string {
	d := sha256Hex(b)
	if r.blobs[repo] == nil {
		r.blobs[repo] = map[string][]byte{}
	}
	r.blobs[repo][d] = b
	return d
}

func (r *simReg) findBlob(repo, d string) ([]byte, bool) {
	b, ok := r.blobs[repo][d]
	return b, ok
}

// anyBlob looks a digest up in every repository (the CDN is content-addressed).
func (r *simReg) anyBlob(d string) ([]byte, bool) {
	repos := make([]string, 0, len(r.blobs))
	for k := range r.blobs {
		repos = append(repos, k)
	}
	sort.Strings(repos)
	for _, k := range repos {
		if b, ok := r.blobs[k][d]; ok {
			return b, true
		}
	}
	return nil, false
}

func regResp(req *http.Request, code int, hdr http.Header, body io.ReadCloser, n int64) *http.Response {
	if hdr == nil {
		hdr = http.Header{}
	}
	if body == nil {
		body = http.NoBody
	}
	return &http.Response{Status: strconv.Itoa(code) + " " + http.StatusText(code), StatusCode: code, Proto: "HTTP/1.1", ProtoMajor: 1, ProtoMinor: 1,
		Header: hdr, Body: body, ContentLength: n, Request: req}
}

func (r *simReg) text(req *http.Request, code int, s string) *http.Response {
	return regResp(req, code, http.Header{"Content-Length": {strconv.Itoa(len(s))}}, &regBody{ctx: req.Context(), data: []byte(s), end: len(s)}, int64(len(s)))
}

func regErrJSON(code, msg string) string {
	return fmt.Sprintf(`{"errors":[{"code":%q,"message":%q}]}`, code, msg)
}

func regSleepCtx(ctx context.Context, d time.Duration) {
	t := time.NewTimer(d)
	select {
	case <-t.C:
	case <-ctx.Done():
		t.Stop()
	}
	verifsim.Yield("sim:net-wake")
}

var errNetDead = errors.New("sim: network down (process is dead)")

// RoundTrip implements http.RoundTripper.
func (r *simReg) RoundTrip(req *http.Request) (*http.Response, error) {
	verifsim.Yield("sim:net-request")
	closeBody := func() {
		if req.Body != nil {
			req.Body.Close()
		}
	}
	if verifsim.Dead() {
		closeBody()
		return nil, errNetDead
	}
	if err := req.Context().Err(); err != nil {
		closeBody()
		return nil, err
	}
	r.nreq++
	if r.cancelAt > 0 && r.nreq == r.cancelAt && r.cancelFn != nil {
		verifsim.Fault("client_cancel")
		r.cancelFn()
		closeBody()
		return nil, context.Canceled
	}
	if verifsim.Draw("net-latency?", 3) == 0 {
		regSleepCtx(req.Context(), time.Duration(1+verifsim.Draw("net-latency", 200))*time.Millisecond)
		if err := req.Context().Err(); err != nil {
			closeBody()
			return nil, err
		}
		if verifsim.Dead() {
			closeBody()
			return nil, errNetDead
		}
	}
	resp, err := r.route(req)
	closeBody()
	if err != nil {
		r.logf("%s %s%s %s -> error %v", req.Method, req.URL.Host, req.URL.Path, req.Header.Get("Range"), err)
		return nil, err
	}
	r.logf("%s %s%s %s -> %d", req.Method, req.URL.Host, req.URL.Path, req.Header.Get("Range"), resp.StatusCode)
	return resp, nil
}

// splitV2 splits /v2/<ns>/<model>/<kind>/<rest>.
func splitV2(path string) (repo, kind, rest string, ok bool) {
	p := strings.TrimPrefix(path, "/v2/")
	if p == path {
		return "", "", "", false
	}
	parts := strings.SplitN(p, "/", 4)
	if len(parts) < 4 {
		return "", "", "", false
	}
	return strings.ToLower(parts[0] + "/" + parts[1]), parts[2], parts[3], true
}

func (r *simReg) route(req *http.Request) (*http.Response, error) {
	host := req.URL.Hostname()
	if host == cdnHost {
		d := strings.TrimPrefix(req.URL.Path, "/blobs/")
		b, ok := r.anyBlob(d)
		if !ok {
			return r.text(req, 404, "not found"), nil
		}
		return r.serveBlob(req, d, b)
	}
	if host != regHost {
		return nil, fmt.Errorf("sim: dial tcp: lookup %s: no such host", host)
	}
	repo, kind, rest, ok := splitV2(req.URL.Path)
	if !ok {
		return r.text(req, 404, regErrJSON("NOT_FOUND", "no such route")), nil
	}
	switch kind {
	case "manifests":
		return r.manifest(req, repo, rest)
	case "blobs":
		if strings.HasPrefix(rest, "uploads") {
			return r.upload(req, repo, rest)
		}
		if req.Method != http.MethodGet {
			return r.text(req, 405, "method not allowed"), nil
		}
		b, ok := r.findBlob(repo, rest)
		if !ok {
			return r.text(req, 404, regErrJSON("BLOB_UNKNOWN", "blob unknown")), nil
		}
		return r.serveBlob(req, rest, b)
	case "chunksums":
		return r.chunksums(req, repo, rest)
	}
	return r.text(req, 404, regErrJSON("NOT_FOUND", "no such route")), nil
}

// headerFault applies the faults that replace the whole response.
func (r *simReg) headerFault(req *http.Request, layer string, cands ...string) (*http.Response, error, bool) {
	k := r.plan.pick(cands...)
	if k == "" {
		return nil, nil, false
	}
	if layer != "" {
		s := r.stat(layer)
		s.faults = append(s.faults, k)
	}
	switch k {
	case nfConnReset:
		return nil, errors.New("sim: read tcp 10.0.0.1:1234->10.0.0.2:443: read: connection reset by peer"), true
	case nfConnOther:
		return nil, errors.New("sim: dial tcp 10.0.0.2:443: connect: connection refused"), true
	case nf5xx:
		return r.text(req, 500+verifsim.Draw("5xx", 4), regErrJSON("INTERNAL", "try again")), nil, true
	case nf5xxPlain:
		return r.text(req, 502, "<html>bad gateway</html>"), nil, true
	case nf404:
		return r.text(req, 404, regErrJSON("BLOB_UNKNOWN", "blob unknown")), nil, true
	}
	return nil, nil, false
}

func (r *simReg) manifest(req *http.Request, repo, tag string) (*http.Response, error) {
	name := repo + ":" + strings.ToLower(tag)
	switch req.Method {
	case http.MethodGet:
		if resp, err, ok := r.headerFault(req, "", nfConnReset, nfConnOther, nf5xx, nf5xxPlain); ok {
			return resp, err
		}
		m, ok := r.manifests[name]
		if !ok {
			return r.text(req, 404, regErrJSON("MANIFEST_UNKNOWN", "manifest unknown")), nil
		}
		// a manifest GET is the start of one Registry.Pull invocation (the handler retries invisibly):
		// what the registry sees per layer is counted per invocation
		var mj struct {
			Config *struct {
				Digest string `json:"digest"`
			} `json:"config"`
			Layers []struct {
				Digest string `json:"digest"`
			} `json:"layers"`
		}
		if json.Unmarshal(m, &mj) == nil {
			for _, l := range mj.Layers {
				delete(r.stats, l.Digest)
			}
			if mj.Config != nil {
				delete(r.stats, mj.Config.Digest)
			}
		}
		body := &regBody{ctx: req.Context(), data: m, end: len(m), plan: r.plan, kinds: []string{nfShort, nfReset, nfFlip}, reg: r}
		body.onEOF = func(got []byte) {
			r.delivered[name] = got
			r.deliveredAll[name] = append(r.deliveredAll[name], got)
		}
		return regResp(req, 200, http.Header{"Content-Length": {strconv.Itoa(len(m))}}, body, int64(len(m))), nil
	case http.MethodPut:
		data, err := r.readUpload(req, "")
		if err != nil {
			return nil, err
		}
		r.manifestPut++
		// ---- push oracle: the monitor ----
		var m struct {
			Layers []struct {
				Digest string `json:"digest"`
				Size   int64  `json:"size"`
			} `json:"layers"`
		}
		if json.Unmarshal(data, &m) != nil {
			return r.text(req, 400, regErrJSON("MANIFEST_INVALID", "manifest invalid")), nil
		}
		for _, l := range m.Layers {
			// hex digits of either case denote the same digest (a manifest pulled with a flipped bit may carry upper-case ones)
			l.Digest = strings.ToLower(l.Digest)
			b, committed := r.blobs[repo][l.Digest]
			if committed && sha256Hex(b) == l.Digest {
				continue
			}
			if r.present[repo][l.Digest] {
				continue
			}
			if r.pushViol != nil {
				var have, pres, ups []string
				for d := range r.blobs[repo] {
					have = append(have, d[7:15])
				}
				for d := range r.present[repo] {
					pres = append(pres, d[7:15])
				}
				for _, u := range r.uploads {
					ups = append(ups, u.id+"="+u.digest[7:15])
				}
				sort.Strings(have)
				sort.Strings(pres)
				sort.Strings(ups)
				r.pushViol("push-order:manifest-before-layer", fmt.Sprintf("the manifest PUT for %s arrived at the registry while layer %s (%d bytes) was neither committed there nor reported present (committed in %s: %v; reported present: %v; uploads open: %v)", name, l.Digest[:19], l.Size, repo, have, pres, ups))
			}
			return r.text(req, 400, regErrJSON("MANIFEST_BLOB_UNKNOWN", "blob unknown to registry")), nil
		}
		if resp, err, ok := r.headerFault(req, "", nfConnReset, nf5xx, nf5xxPlain); ok {
			return resp, err
		}
		r.manifests[name] = data
		r.accepted[name] = data
		verifsim.Probe("push_manifest_accepted")
		return regResp(req, 201, nil, nil, 0), nil
	}
	return r.text(req, 405, "method not allowed"), nil
}

// readUpload reads a request body the way a server does; the fault
// nfUploadCut makes it stop early (the client sees an error).
func (r *simReg) readUpload(req *http.Request, layer string) ([]byte, error) {
	if req.Body == nil || req.Body == http.NoBody {
		return nil, nil
	}
	cut := -1
	if req.ContentLength > 1 && r.plan.pick(nfUploadCut) != "" {
		cut = verifsim.Draw("upload-cut", int(req.ContentLength))
		if layer != "" {
			s := r.stat(layer)
			s.faults = append(s.faults, nfUploadCut)
		}
	}
	var buf bytes.Buffer
	tmp := make([]byte, 4096)
	for {
		verifsim.Yield("sim:net-upload-read")
		if err := req.Context().Err(); err != nil {
			return nil, err
		}
		if verifsim.Dead() {
			return nil, errNetDead
		}
		n := len(tmp)
		if n > 1 && verifsim.Draw("up-frag?", 2) == 0 {
			n = 1 + verifsim.Draw("up-frag", n)
		}
		k, err := req.Body.Read(tmp[:n])
		buf.Write(tmp[:k])
		if cut >= 0 && buf.Len() >= cut {
			return nil, errors.New("sim: write tcp: broken pipe")
		}
		if err == io.EOF {
			break
		}
		if err != nil {
			return nil, err
		}
	}
	if req.ContentLength >= 0 && int64(buf.Len()) != req.ContentLength {
		return nil, fmt.Errorf("http: ContentLength=%d with Body length %d", req.ContentLength, buf.Len())
	}
	return buf.Bytes(), nil
}

func (r *simReg) upload(req *http.Request, repo, rest string) (*http.Response, error) {
	// POST /v2/<repo>/blobs/uploads/?digest=D  -> 200 without Location (present) | 202 Location: <upload URL>
	// PUT  <upload URL> (body = blob)           -> 201
	id := strings.Trim(strings.TrimPrefix(rest, "uploads"), "/")
	switch req.Method {
	case http.MethodPost:
		d := req.URL.Query().Get("digest")
		if resp, err, ok := r.headerFault(req, d, nfConnReset, nfConnOther, nf5xx, nf5xxPlain); ok {
			return resp, err
		}
		if _, ok := r.blobs[repo][d]; ok {
			if r.present[repo] == nil {
				r.present[repo] = map[string]bool{}
			}
			r.present[repo][d] = true
			verifsim.Probe("push_layer_already_present")
			return regResp(req, 200, nil, nil, 0), nil
		}
		r.nextUp++
		u := &simUpload{id: "up" + strconv.Itoa(r.nextUp), repo: repo, digest: d}
		r.uploads[u.id] = u
		loc := fmt.Sprintf("http://%s/v2/%s/blobs/uploads/%s", regHost, repo, u.id)
		return regResp(req, 202, http.Header{"Location": {loc}}, nil, 0), nil
	case http.MethodPut:
		u := r.uploads[id]
		if u == nil {
			return r.text(req, 404, regErrJSON("BLOB_UPLOAD_UNKNOWN", "unknown upload")), nil
		}
		if resp, err, ok := r.headerFault(req, u.digest, nfConnReset, nf5xx); ok {
			return resp, err
		}
		if r.plan.pick(nfUploadMoved) != "" {
			// the body of an upload cannot be replayed, so net/http hands the 3xx answer back
			// instead of following it: the layer has NOT been accepted
			s := r.stat(u.digest)
			s.faults = append(s.faults, nfUploadMoved)
			code := []int{307, 308, 302}[verifsim.Draw("upload-moved", 3)]
			return regResp(req, code, http.Header{"Location": {fmt.Sprintf("http://%s/elsewhere/%s", regHost, u.id)}}, nil, 0), nil
		}
		data, err := r.readUpload(req, u.digest)
		if err != nil {
			return nil, err
		}
		if sha256Hex(data) != u.digest {
			verifsim.Probe("push_upload_rejected_digest")
			return r.text(req, 400, regErrJSON("DIGEST_INVALID", "digest mismatch")), nil
		}
		r.addBlob(u.repo, data)
		delete(r.uploads, id)
		verifsim.Probe("push_layer_uploaded")
		if r.plan.pick(nfUploadLost) != "" {
			s := r.stat(u.digest)
			s.faults = append(s.faults, nfUploadLost)
			return nil, errors.New("sim: read tcp: connection reset by peer")
		}
		return regResp(req, 201, nil, nil, 0), nil
	}
	return r.text(req, 405, "method not allowed"), nil
}

func parseRangeHdr(h string, n int) (lo, hi int, ok bool) {
	if !strings.HasPrefix(h, "bytes=") {
		return 0, 0, false
	}
	a, b, found := strings.Cut(strings.TrimPrefix(h, "bytes="), "-")
	if !found {
		return 0, 0, false
	}
	lo, err := strconv.Atoi(a)
	if err != nil || lo < 0 {
		return 0, 0, false
	}
	hi = n - 1
	if b != "" {
		if hi, err = strconv.Atoi(b); err != nil {
			return 0, 0, false
		}
	}
	if hi > n-1 {
		hi = n - 1
	}
	return lo, hi, true
}

func (r *simReg) serveBlob(req *http.Request, d string, b []byte) (*http.Response, error) {
	st := r.stat(d)
	st.requests++
	if resp, err, ok := r.headerFault(req, d, nfConnReset, nfConnOther, nf5xx, nf5xxPlain, nf404); ok {
		return resp, err
	}
	lo, hi, ranged := parseRangeHdr(req.Header.Get("Range"), len(b))
	code := 206
	if !ranged || r.plan.pick(nfRangeIgnored) != "" {
		if ranged {
			st.faults = append(st.faults, nfRangeIgnored)
		}
		lo, hi, code = 0, len(b)-1, 200
	}
	if lo > hi+1 || lo > len(b) {
		return r.text(req, 416, "range not satisfiable"), nil
	}
	body := &regBody{ctx: req.Context(), data: b, pos: lo, end: hi + 1, plan: r.plan, kinds: []string{nfShort, nfReset, nfFlip, nfStall}, reg: r, layer: d}
	hdr := http.Header{"Content-Length": {strconv.Itoa(hi + 1 - lo)}}
	if code == 206 {
		hdr.Set("Content-Range", fmt.Sprintf("bytes %d-%d/%d", lo, hi, len(b)))
	}
	return regResp(req, code, hdr, body, int64(hi+1-lo)), nil
}

// chunksums serves a chunk plan for the layer, of a tape-drawn kind.
func (r *simReg) chunksums(req *http.Request, repo, d string) (*http.Response, error) {
	b, ok := r.findBlob(repo, d)
	if !ok {
		return r.text(req, 404, regErrJSON("BLOB_UNKNOWN", "blob unknown")), nil
	}
	st := r.stat(d)
	st.requests++
	if resp, err, ok := r.headerFault(req, d, nfConnReset, nfConnOther, nf5xx, nf5xxPlain, nf404); ok {
		return resp, err
	}
	type ch struct{ lo, hi int }
	n := len(b)
	var cs []ch
	size := r.chunkSize
	if verifsim.Draw("plan-resize", 3) == 0 {
		size = 1 + verifsim.Draw("plan-size", 2*r.chunkSize)
	}
	if size < n/12+1 {
		size = n/12 + 1
	}
	for lo := 0; lo < n; lo += size {
		hi := lo + size - 1
		if hi > n-1 {
			hi = n - 1
		}
		cs = append(cs, ch{lo, hi})
	}
	kind := r.plan.pickPlan()
	bad := -1
	switch kind {
	case planUnordered:
		p := verifsim.Perm(len(cs))
		sh := make([]ch, len(cs))
		for i, j := range p {
			sh[i] = cs[j]
		}
		cs = sh
	case planGapped:
		if len(cs) < 2 {
			kind = planContiguous
			break
		}
		i := verifsim.Draw("plan-gap", len(cs))
		cs = append(cs[:i:i], cs[i+1:]...)
	case planOverlap:
		if len(cs) < 2 {
			kind = planContiguous
			break
		}
		i := 1 + verifsim.Draw("plan-ovl", len(cs)-1)
		cs[i].lo -= 1 + verifsim.Draw("plan-ovl-n", cs[i].lo)
	case planDupGap:
		// find two chunks of equal size: drop one, list the other twice
		if len(cs) < 3 {
			kind = planContiguous
			break
		}
		i := verifsim.Draw("plan-dup", len(cs)-1)
		j := (i + 1 + verifsim.Draw("plan-dup2", len(cs)-2)) % (len(cs) - 1)
		if cs[i].hi-cs[i].lo != cs[j].hi-cs[j].lo {
			kind = planContiguous
			break
		}
		cs[j] = cs[i]
	case planPastEnd:
		cs[len(cs)-1].hi += 1 + verifsim.Draw("plan-past", size)
	case planBadDigest:
		bad = verifsim.Draw("plan-bad", len(cs))
	}
	if kind != planContiguous {
		verifsim.Fault("plan_" + kind)
	}
	st.plan = kind
	var sb strings.Builder
	for i, c := range cs {
		lo, hi := c.lo, c.hi
		end := hi + 1
		if end > n {
			end = n
		}
		sum := sha256.Sum256(b[lo:end])
		if i == bad {
			sum[5] ^= 0x10
		}
		fmt.Fprintf(&sb, "sha256:%x %d-%d\n", sum, lo, hi)
	}
	text := sb.String()
	switch kind {
	case planCut:
		if len(text) > 2 {
			text = text[:1+verifsim.Draw("plan-cut", len(text)-1)]
		}
	case planCutClean:
		if len(cs) > 1 {
			lines := strings.SplitAfter(text, "\n")
			text = strings.Join(lines[:1+verifsim.Draw("plan-cutl", len(cs)-1)], "")
		}
	}
	loc := fmt.Sprintf("http://%s/v2/%s/blobs/%s", regHost, repo, d)
	if verifsim.Draw("plan-cdn", 2) == 0 {
		loc = fmt.Sprintf("http://%s/blobs/%s", cdnHost, d)
	}
	body := &regBody{ctx: req.Context(), data: []byte(text), end: len(text), plan: r.plan, kinds: []string{nfShort, nfReset, nfFlip}, reg: r, layer: d}
	return regResp(req, 200, http.Header{"Content-Location": {loc}}, body, -1), nil
}

// regBody is a response body: every Read is a pre-emption point and a fault point.
type regBody struct {
	ctx    context.Context
	data   []byte
	pos    int
	end    int
	plan   *netPlan
	kinds  []string
	reg    *simReg
	layer  string
	closed bool
	cut    int
	cutErr error
	flipAt int
	flip   bool
	armed  bool
	got    []byte
	onEOF  func(got []byte)
}

func (b *regBody) Read(p []byte) (int, error) {
	verifsim.Yield("sim:net-read")
	if verifsim.Dead() {
		return 0, errNetDead
	}
	if b.closed {
		return 0, errors.New("http: read on closed response body")
	}
	if err := b.ctx.Err(); err != nil {
		return 0, err
	}
	if !b.armed {
		b.armed = true
		if b.end-b.pos > 0 && b.plan != nil {
			k := b.plan.pick(b.kinds...)
			if k != "" && b.layer != "" {
				s := b.reg.stat(b.layer)
				s.faults = append(s.faults, k)
			}
			switch k {
			case nfShort:
				b.cut, b.cutErr = b.pos+verifsim.Draw("cut", b.end-b.pos), io.ErrUnexpectedEOF
			case nfReset:
				b.cut, b.cutErr = b.pos+verifsim.Draw("cut", b.end-b.pos), errors.New("sim: read tcp: read: connection reset by peer")
			case nfFlip:
				b.flip, b.flipAt = true, b.pos+verifsim.Draw("flip", b.end-b.pos)
			case nfStall:
				// the connection goes quiet; the client's read timeout (1-30 s) decides
				regSleepCtx(b.ctx, time.Duration(500+verifsim.Draw("stall-ms", 60000))*time.Millisecond)
				if err := b.ctx.Err(); err != nil {
					return 0, err
				}
				if verifsim.Dead() {
					return 0, errNetDead
				}
			}
		}
	}
	if len(p) == 0 {
		return 0, nil
	}
	limit := b.end
	if b.cutErr != nil && b.cut < limit {
		limit = b.cut
	}
	if b.pos >= limit {
		if b.cutErr != nil {
			return 0, b.cutErr
		}
		if b.onEOF != nil {
			b.onEOF(b.got)
			b.onEOF = nil
		}
		return 0, io.EOF
	}
	n := limit - b.pos
	if n > len(p) {
		n = len(p)
	}
	// a tape-chosen number of bytes, so that write boundaries fall everywhere; at most ~16 reads per body
	if n > 1 && verifsim.Draw("net-frag?", 2) == 0 {
		lo := (b.end-b.pos)/16 + 1
		if lo < n {
			n = lo + verifsim.Draw("net-frag", n-lo+1)
		}
	}
	copy(p, b.data[b.pos:b.pos+n])
	if b.flip && b.flipAt >= b.pos && b.flipAt < b.pos+n {
		p[b.flipAt-b.pos] ^= 0x20
	}
	if b.onEOF != nil {
		b.got = append(b.got, p[:n]...)
	}
	b.pos += n
	if verifsim.Draw("net-slow?", 8) == 0 {
		regSleepCtx(b.ctx, time.Duration(1+verifsim.Draw("net-slow", 2000))*time.Millisecond)
	}
	return n, nil
}

func (b *regBody) Close() error {
	b.closed = true
	return nil
}
