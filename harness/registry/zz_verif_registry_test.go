//go:build verif

package registry

// H-registry (property C09): the real new registry client (ollama.Registry:
// Pull with chunked layers, chunk markers, errgroup streams, read timeout; Push)
// driven through the real registry.Local /api/pull handler (backoff.Loop +
// canRetry) and directly, over the simulated registry of
// zz_verif_simreg_test.go, with the real blob cache on the simulated disk.
// DESIGN.md section 5 "C09", 3.6.
//
// One run = a tape-drawn history: 1-2 published models (1-4 layers on both
// sides of the chunking threshold, optional config, shared layers, optional tag
// update), 1-4 pull attempts on one cache (handler streaming / non-streaming /
// direct, sometimes two pulls at once, sometimes cancelled at a tape-chosen
// request, sometimes under another casing of the name), then pushes of what
// was pulled to another repository of the registry.
//
// Oracle (only what C09 states):
//   pull, on success: every layer (and the config) of the manifest the client
//     was served is in the cache with the manifest's size and SHA-256, and the
//     name resolves to that manifest;
//   pull, always: whenever the name becomes linked to a manifest (checked at the
//     step at which the manifest file changes), after every failed attempt and
//     at the end: if the name resolves to a manifest at all, every layer of that
//     manifest is present and intact;
//   push: the simulated registry is the monitor - when a manifest PUT arrives,
//     every layer digest it names is committed there with correct content or was
//     reported present to the client; a nil return implies the manifest was accepted.

import (
	"context"
	"crypto/sha256"
	"encoding/json"
	"errors"
	"fmt"
	"io"
	"log/slog"
	"net/http"
	"os"
	"path/filepath"
	"sort"
	"strings"
	"testing"
	"time"

	"github.com/ollama/ollama/server/internal/cache/blob"
	"github.com/ollama/ollama/server/internal/client/ollama"
	"github.com/ollama/ollama/verifsim"
	"github.com/ollama/ollama/verifsim/vfs"
)

const regProp = "C09"

type regLayer struct {
	digest string
	size   int64
	data   []byte
}

type regModel struct {
	envSha   string // manifest the name was linked to when the environment last removed a layer file
	idx      int
	repo     string // library/m0
	tag      string
	name     string   // registry.sim/library/m0:latest  (as the cache links it)
	pullName string   // http://registry.sim/library/m0:latest
	variants []string // other casings of pullName
	versions [][]byte // manifest bytes per published version
	layers   [][]regLayer
	lastSha  string // sha of the manifest file content last audited at step level
}

type regAttempt struct {
	how      int // 0 handler stream, 1 handler no stream, 2 direct
	models   []int
	variant  int // 0 = canonical name
	cancelAt int
	update   bool // publish the next version of model 0 before this attempt
	crash    bool // the process dies during this attempt ...
	crashAt  int  // ... immediately before (or in the middle of) its crashAt-th mutating file-system call
}

// pullTrace is what one pull told its Trace about each layer, per
// Registry.Pull invocation (an invocation starts with an update (0, nil) for
// every layer; the handler's retries are separate invocations).
type pullTrace struct {
	model  *regModel
	layers map[string]*layerTrace
}

type layerTrace struct {
	downloads int // updates with progress and no error
	cached    int // updates with ErrCached
	starts    int // invocations that announced the layer so far
}

func (pt *pullTrace) ctx(ctx context.Context) context.Context {
	return ollama.WithTrace(ctx, &ollama.Trace{Update: func(l *ollama.Layer, n int64, err error) {
		d := l.Digest.String()
		lt := pt.layers[d]
		if lt == nil {
			lt = &layerTrace{}
			pt.layers[d] = lt
		}
		switch {
		case n == 0 && err == nil:
			*lt = layerTrace{starts: lt.starts + 1}
		case errors.Is(err, ollama.ErrCached):
			lt.cached++
		case err == nil:
			lt.downloads++
		}
	}})
}

// trusted: the invocation took the layer (or every chunk of it) from the cache without downloading anything.
func (pt *pullTrace) trusted(digest string) bool {
	lt := pt.layers[digest]
	return lt != nil && lt.downloads == 0 && lt.cached > 0
}

type pullResult struct {
	m      *regModel
	ok     bool
	detail string
}

type regWorld struct {
	envRemoved map[string]bool // layer files removed from the cache by the environment (envRemoveLayer)
	t          *testing.T
	sim        *verifsim.Sim
	dir        string
	ctl        *vfs.Control
	reg        *simReg
	cache      *blob.DiskCache
	cl         *ollama.Registry
	local      *Local

	models   []*regModel
	attempts []regAttempt
	pushes   int

	lastOps  int
	phase    string
	inflight []*pullTrace
	finished chan *pullResult // results of the pulls of the current attempt
	attempt  int              // index of the current attempt
	pullsOf  map[string]int   // current attempt: layer digest -> number of pulls whose model has the layer
	touched  map[string]bool  // layers some earlier attempt has requested
	desc     []string
	info     map[string]int
}

func (w *regWorld) note(f string, a ...any) {
	if len(w.desc) < 120 {
		w.desc = append(w.desc, fmt.Sprintf("t=%v ", w.sim.Now())+fmt.Sprintf(f, a...))
	}
}

func (w *regWorld) violate(class, sig, f string, a ...any) {
	msg := fmt.Sprintf(f, a...) + "\ncase:\n  " + strings.Join(w.desc, "\n  ")
	tail := w.reg.log
	if len(tail) > 40 && os.Getenv("VERIF_DUMP") == "" {
		tail = tail[len(tail)-40:]
	}
	msg += "\nlast requests at the registry:\n  " + strings.Join(tail, "\n  ")
	fl := w.ctl.Log
	if len(fl) > 60 && os.Getenv("VERIF_DUMP") == "" {
		fl = fl[len(fl)-60:]
	}
	msg += "\nlast mutating file-system calls:\n  " + strings.Join(fl, "\n  ")
	if p := os.Getenv("VERIF_DUMP"); p != "" {
		// development aid: the driver prints only the head of a message
		os.WriteFile(p, []byte(sig+"\n"+msg+"\n"), 0o644)
	}
	verifsim.Violate(regProp, class, sig, msg)
}

func regScratch() string {
	d := os.Getenv("VERIF_SCRATCH")
	if d == "" {
		d = os.TempDir()
	}
	return d
}

func regNoise(seed uint64, n int) []byte {
	b := make([]byte, n)
	s := seed*0x9e3779b97f4a7c15 + 0x7654321
	for i := 0; i < n; i += 8 {
		s += 0x9e3779b97f4a7c15
		z := s
		z = (z ^ (z >> 30)) * 0xbf58476d1ce4e5b9
		z = (z ^ (z >> 27)) * 0x94d049bb133111eb
		z ^= z >> 31
		for j := 0; j < 8 && i+j < n; j++ {
			b[i+j] = byte(z >> (8 * j))
		}
	}
	return b
}

func newRegWorld(t *testing.T, sim *verifsim.Sim) *regWorld {
	w := &regWorld{t: t, sim: sim, info: map[string]int{}}
	base := filepath.Join(regScratch(), "regrun")
	os.RemoveAll(base)
	w.dir = filepath.Join(base, "models")
	c, err := blob.Open(w.dir)
	if err != nil {
		panic(err)
	}
	w.cache = c
	w.ctl = &vfs.Control{Roots: []string{base + string(filepath.Separator)}, CrashAt: -1, LogCap: 4000}
	vfs.Ctl = w.ctl
	w.reg = newSimReg(sim.Now)
	w.reg.pushViol = func(sig, msg string) { w.violate("push-order", sig, "%s", msg) }
	return w
}

func (w *regWorld) close() {
	vfs.Ctl = nil
	os.RemoveAll(filepath.Dir(w.dir))
}

type manifestJSON struct {
	SchemaVersion int          `json:"schemaVersion"`
	MediaType     string       `json:"mediaType"`
	Config        *layerJSON   `json:"config,omitempty"`
	Layers        []*layerJSON `json:"layers"`
}

type layerJSON struct {
	Digest    string `json:"digest"`
	MediaType string `json:"mediaType"`
	Size      int64  `json:"size"`
}

func (w *regWorld) publish(m *regModel, layers []regLayer, config *regLayer) {
	mj := manifestJSON{SchemaVersion: 2, MediaType: "application/vnd.docker.distribution.manifest.v2+json"}
	all := append([]regLayer{}, layers...)
	for _, l := range layers {
		mj.Layers = append(mj.Layers, &layerJSON{Digest: l.digest, MediaType: "application/vnd.ollama.image.model", Size: l.size})
		w.reg.addBlob(m.repo, l.data)
	}
	if config != nil {
		mj.Config = &layerJSON{Digest: config.digest, MediaType: "application/vnd.docker.container.image.v1+json", Size: config.size}
		w.reg.addBlob(m.repo, config.data)
		all = append(all, *config)
	}
	data, err := json.Marshal(mj)
	if err != nil {
		panic(err)
	}
	m.versions = append(m.versions, data)
	m.layers = append(m.layers, all)
}

func mkLayer(data []byte) regLayer {
	return regLayer{digest: sha256Hex(data), size: int64(len(data)), data: data}
}

// drawCase draws the whole history on the controller.
func (w *regWorld) drawCase(tier string) {
	D := verifsim.Draw
	thr := 1024 * (1 + D("threshold-kb", 32))
	if D("threshold-small", 2) == 0 {
		thr = 1024 * (1 + D("threshold-kb", 4))
	}
	streams := 1 + D("streams", 8)
	rto := time.Duration(1+D("read-timeout-s", 30)) * time.Second
	w.cl = &ollama.Registry{Cache: w.cache, HTTPClient: &http.Client{Transport: w.reg}, MaxStreams: streams, ChunkingThreshold: int64(thr), ReadTimeout: rto, UserAgent: "verif"}
	w.local = &Local{Client: w.cl, Logger: slog.New(slog.NewTextHandler(io.Discard, &slog.HandlerOptions{Level: slog.LevelError + 8}))}
	w.reg.chunkSize = 1 + D("chunk-size", thr)
	if w.reg.chunkSize < thr/8 {
		w.reg.chunkSize = thr/8 + 1
	}
	w.reg.plan = drawNetPlan()
	maxBig := 4 * thr
	if lim := 48 * 1024; maxBig > lim && tier != "thorough" {
		maxBig = lim
	}
	if maxBig > 96*1024 {
		maxBig = 96 * 1024
	}
	if maxBig <= thr {
		maxBig = thr + 1
	}
	drawLayer := func(seed int) regLayer {
		n := 0
		switch D("layer-class", 8) {
		case 0:
			n = 0
		case 1, 2, 3:
			n = 1 + D("layer-small", thr-1) // below the threshold: one request
		case 4:
			n = thr - 1 + D("layer-edge", 3) // around the threshold
		default:
			n = thr + D("layer-big", maxBig-thr) // chunked
		}
		return mkLayer(regNoise(uint64(seed)*977+uint64(D("layer-seed", 1<<30)), n))
	}
	nm := 1 + D("models", 2)
	for i := 0; i < nm; i++ {
		m := &regModel{idx: i, repo: fmt.Sprintf("library/m%d", i), tag: "latest"}
		m.name = regHost + "/" + m.repo + ":" + m.tag
		m.pullName = "http://" + m.name
		m.variants = []string{"http://" + strings.ToUpper(regHost) + "/Library/M" + fmt.Sprint(i) + ":LATEST", "http://" + regHost + "/LIBRARY/m" + fmt.Sprint(i) + ":Latest"}
		nl := 1 + D("layers", 4)
		var layers []regLayer
		for j := 0; j < nl; j++ {
			if i > 0 && D("share", 3) == 0 {
				prev := w.models[0].layers[0]
				layers = append(layers, prev[D("share-which", len(prev))])
				continue
			}
			layers = append(layers, drawLayer(i*10+j))
		}
		// distinct digests within one manifest
		seen := map[string]bool{}
		var uniq []regLayer
		for _, l := range layers {
			if !seen[l.digest] {
				seen[l.digest] = true
				uniq = append(uniq, l)
			}
		}
		var cfg *regLayer
		if D("config", 2) == 0 {
			c := mkLayer([]byte(fmt.Sprintf(`{"model_format":"gguf","model_family":"sim","seed":%d}`, D("cfg-seed", 1<<20))))
			cfg = &c
		}
		w.publish(m, uniq, cfg)
		if i == 0 && D("update", 3) == 0 {
			// a second version of the tag: one layer replaced, one added or removed
			l2 := append([]regLayer{}, uniq...)
			l2[D("upd-which", len(l2))] = drawLayer(100)
			if D("upd-add", 2) == 0 {
				l2 = append(l2, drawLayer(101))
			}
			seen := map[string]bool{}
			var u2 []regLayer
			for _, l := range l2 {
				if !seen[l.digest] {
					seen[l.digest] = true
					u2 = append(u2, l)
				}
			}
			w.publish(m, u2, cfg)
		}
		w.models = append(w.models, m)
		w.reg.manifests[m.repo+":"+m.tag] = m.versions[0]
	}
	na := 1 + D("attempts", 4)
	for k := 0; k < na; k++ {
		a := regAttempt{how: D("how", 3), models: []int{D("which-model", nm)}}
		if D("two-pulls", 4) == 0 {
			// a second pull at the same time: the other model, or the same one again
			a.models = append(a.models, D("which-model2", nm))
		}
		if k > 0 && D("case-variant", 6) == 0 {
			a.variant = 1 + D("variant", 2)
		}
		if D("cancel?", 5) == 0 {
			a.cancelAt = 1 + D("cancel-at", 12)
		}
		if k > 0 && len(w.models[0].versions) > 1 && D("publish-update", 2) == 0 {
			a.update = true
		}
		if D("crash?", 6) == 0 {
			a.crash = true
			a.crashAt = D("crash-at", 40)
			if D("crash-late", 2) == 0 {
				a.crashAt = D("crash-at", 400)
			}
		}
		w.attempts = append(w.attempts, a)
	}
	w.pushes = D("pushes", 3)
	// description
	for _, m := range w.models {
		for vi, ls := range m.layers {
			var s []string
			for _, l := range ls {
				s = append(s, fmt.Sprintf("%s/%dB", l.digest[7:15], l.size))
			}
			w.note("published %s v%d: [%s]", m.name, vi+1, strings.Join(s, " "))
		}
	}
	w.note("client: threshold %d B, %d streams, read timeout %v; registry: plan chunk size %d B; %s", thr, streams, rto, w.reg.chunkSize, w.reg.plan)
}

// ---- in-memory HTTP client side of the Local handler -------------------------------

type regRecorder struct {
	hdr  http.Header
	code int
	body strings.Builder
}

func (r *regRecorder) Header() http.Header { return r.hdr }
func (r *regRecorder) WriteHeader(c int) {
	if r.code == 0 {
		r.code = c
	}
}
func (r *regRecorder) Write(p []byte) (int, error) {
	if r.code == 0 {
		r.code = 200
	}
	verifsim.Yield("sim:resp-write")
	return r.body.Write(p)
}
func (r *regRecorder) Flush() {}

// pullVia performs one pull and reports whether it claimed success.
func (w *regWorld) pullVia(ctx context.Context, how int, name string) (ok bool, detail string) {
	switch how {
	case 2:
		err := w.cl.Pull(ctx, name)
		if err != nil {
			return false, err.Error()
		}
		return true, "Pull = nil"
	default:
		body := fmt.Sprintf(`{"model":%q}`, name)
		if how == 1 {
			body = fmt.Sprintf(`{"model":%q,"stream":false}`, name)
		}
		req, err := http.NewRequestWithContext(ctx, "POST", "http://127.0.0.1:11434/api/pull", strings.NewReader(body))
		if err != nil {
			panic(err)
		}
		rec := &regRecorder{hdr: http.Header{}}
		w.local.ServeHTTP(rec, req)
		success, errMsg := false, ""
		for _, ln := range strings.Split(rec.body.String(), "\n") {
			var m map[string]any
			if json.Unmarshal([]byte(strings.TrimSpace(ln)), &m) != nil {
				continue
			}
			if e, ok := m["error"].(string); ok && errMsg == "" {
				errMsg = e
			}
			if s, _ := m["status"].(string); s == "success" {
				success = true
			}
		}
		if success && errMsg == "" && rec.code/100 == 2 {
			return true, "handler: success"
		}
		return false, fmt.Sprintf("handler: status %d error %q", rec.code, errMsg)
	}
}

// ---- audit ------------------------------------------------------------------------------

// findManifest returns the manifest file of a name the way the cache looks it up (case-insensitively).
func (w *regWorld) findManifest(name string) (string, []byte, bool) {
	n := strings.Replace(name, ":", "/", 1) // host/ns/model/tag  (the host carries no port here)
	want := filepath.Join("manifests", n)
	ms, _ := filepath.Glob(filepath.Join(w.dir, "manifests", "*", "*", "*", "*"))
	sort.Strings(ms)
	for _, p := range ms {
		rel, _ := filepath.Rel(w.dir, p)
		if strings.EqualFold(rel, want) {
			b, err := os.ReadFile(p)
			if err != nil {
				return p, nil, false
			}
			return p, b, true
		}
	}
	return "", nil, false
}

type layerProblem struct {
	kind   string // layer-missing | layer-short | layer-long | layer-corrupt
	digest string
	detail string
}

func (w *regWorld) checkLayers(manifest []byte) (parsed bool, probs []layerProblem) {
	var mj manifestJSON
	if json.Unmarshal(manifest, &mj) != nil || len(mj.Layers) == 0 {
		return false, nil
	}
	ls := append([]*layerJSON{}, mj.Layers...)
	if mj.Config != nil && mj.Config.Digest != "" {
		ls = append(ls, mj.Config)
	}
	for _, l := range ls {
		if l == nil {
			continue
		}
		// hex digits of either case denote the same digest (a flipped bit in a served manifest can change the case)
		l.Digest = strings.ToLower(l.Digest)
		p := filepath.Join(w.dir, "blobs", strings.Replace(l.Digest, ":", "-", 1))
		b, err := os.ReadFile(p)
		switch {
		case err != nil:
			probs = append(probs, layerProblem{"layer-missing", l.Digest, fmt.Sprintf("layer %s (%d bytes) is not in the cache", l.Digest[:19], l.Size)})
		case int64(len(b)) < l.Size:
			probs = append(probs, layerProblem{"layer-short", l.Digest, fmt.Sprintf("layer %s has only %d bytes in the cache, the manifest says %d", l.Digest[:19], len(b), l.Size)})
		case int64(len(b)) > l.Size:
			probs = append(probs, layerProblem{"layer-long", l.Digest, fmt.Sprintf("layer %s has %d bytes in the cache, the manifest says %d", l.Digest[:19], len(b), l.Size)})
		case sha256Hex(b) != l.Digest:
			probs = append(probs, layerProblem{"layer-corrupt", l.Digest, fmt.Sprintf("layer %s has the manifest's size %d in the cache but content %s (%s)", l.Digest[:19], l.Size, sha256Hex(b)[:19], w.damage(l.Digest, b))})
		}
	}
	return true, probs
}

func (w *regWorld) damage(digest string, got []byte) string {
	want, ok := w.reg.anyBlob(digest)
	if !ok || len(want) != len(got) {
		return "?"
	}
	first, last, nbad, zero := -1, -1, 0, 0
	for i := range want {
		if want[i] != got[i] {
			if first < 0 {
				first = i
			}
			last = i
			nbad++
			if got[i] == 0 {
				zero++
			}
		}
	}
	return fmt.Sprintf("%d differing bytes in [%d,%d], %d of them zero", nbad, first, last, zero)
}

// layerCause names how the pull(s) that could have linked the name came by the layer.
func (w *regWorld) layerCause(pts []*pullTrace, digest string) string {
	retried := false
	for _, pt := range pts {
		if pt.trusted(digest) {
			return "trusted-existing-file"
		}
		if lt := pt.layers[digest]; lt != nil && lt.starts > 1 {
			retried = true
		}
	}
	if w.pullsOf[digest] > 1 {
		// another pull of this attempt wanted the same layer (what the registry saw cannot be told apart per pull)
		return "downloaded-concurrently"
	}
	if retried || w.touched[digest] {
		return "downloaded-on-retry" // an earlier invocation or attempt has worked on the layer
	}
	// first invocation that touches the layer, alone: the chunk plan it was served is the only input
	if st := w.reg.stats[digest]; st != nil && st.plan != "" && st.plan != planContiguous {
		return "plan-" + st.plan
	}
	return "downloaded"
}

// auditName is the pull oracle for one name. outcome "success": a pull that
// reported success (or is about to: the step at which the name became linked)
// - wants = the manifests served, pts = the pulls that can have linked it.
// outcome "standing": a quiescent point (after an attempt, at the end): if the
// name resolves to a manifest at all, its layers are intact.
func (w *regWorld) auditName(m *regModel, outcome string, mustResolve bool, wants [][]byte, pts []*pullTrace) {
	_, mb, found := w.findManifest(m.name)
	if mustResolve {
		if !found {
			w.violate("pull-audit", "pull-audit:success:name-unresolved", "the pull of %s reported success but the name does not resolve", m.name)
			return
		}
		match := false
		for _, want := range wants {
			if sha256.Sum256(want) == sha256.Sum256(mb) {
				match = true
			}
		}
		if !match && len(wants) > 0 {
			w.violate("pull-audit", "pull-audit:success:manifest-mismatch", "the pull of %s reported success but the name resolves to %s (%d bytes), not to a manifest the registry served (%s)", m.name, sha256Hex(mb)[:19], len(mb), sha256Hex(wants[len(wants)-1])[:19])
			return
		}
	}
	if !found {
		return
	}
	parsed, probs := w.checkLayers(mb)
	if !parsed {
		verifsim.Probe("name_resolves_to_non_manifest")
		return
	}
	for d := range w.envRemoved {
		// back in the cache (some pull fetched it again): from now on its absence is the client's doing
		if _, err := os.Stat(filepath.Join(w.dir, "blobs", strings.Replace(d, ":", "-", 1))); err == nil {
			delete(w.envRemoved, d)
		}
	}
	if outcome != "success" && len(w.envRemoved) > 0 {
		// a layer the environment removed stays missing until a pull succeeds again
		kept := probs[:0]
		for _, p := range probs {
			if p.kind == "layer-missing" && w.envRemoved[p.digest] {
				continue
			}
			kept = append(kept, p)
		}
		probs = kept
	}
	if len(probs) > 0 {
		p := probs[0]
		sig := "pull-audit:" + outcome + ":" + p.kind
		if outcome == "success" {
			sig += ":" + w.layerCause(pts, p.digest)
		}
		w.violate("pull-audit", sig, "%s (%s): %s resolves to manifest %s, but %s (%d layer problems)", outcome, w.phase, m.name, sha256Hex(mb)[:19], p.detail, len(probs))
	}
}

// envRemoveLayer: between two attempts something other than the client removes one layer file
// of a linked model from the cache (an operator tidying up, another tool). Until a pull of
// the model succeeds again the name resolves to an incomplete model through no fault of the
// client; what C09 says is that the *next successful pull* must notice and fetch the layer.
func (w *regWorld) envRemoveLayer() {
	verifsim.Atomic(func() {
		var cands []string
		for _, m := range w.models {
			_, mb, found := w.findManifest(m.name)
			if !found {
				continue
			}
			var mj manifestJSON
			if json.Unmarshal(mb, &mj) != nil {
				continue
			}
			for _, l := range mj.Layers {
				if l == nil {
					continue
				}
				d := strings.ToLower(l.Digest)
				if _, err := os.Stat(filepath.Join(w.dir, "blobs", strings.Replace(d, ":", "-", 1))); err == nil {
					cands = append(cands, d)
				}
			}
		}
		if len(cands) == 0 {
			return
		}
		sort.Strings(cands)
		d := cands[verifsim.Draw("env-removes-which", len(cands))]
		if os.Remove(filepath.Join(w.dir, "blobs", strings.Replace(d, ":", "-", 1))) == nil {
			if w.envRemoved == nil {
				w.envRemoved = map[string]bool{}
			}
			w.envRemoved[d] = true
			for _, m := range w.models {
				if _, mb, found := w.findManifest(m.name); found {
					m.envSha = sha256Hex(mb)
				}
			}
			verifsim.Fault("cache_file_removed_by_the_environment")
			w.note("%s: layer file %s removed from the cache by something other than the client", w.phase, d[:19])
		}
	})
}

func (w *regWorld) onStep() {
	if verifsim.IsCrashed() || w.ctl.Ops == w.lastOps {
		return
	}
	w.lastOps = w.ctl.Ops
	for _, m := range w.models {
		_, mb, found := w.findManifest(m.name)
		if !found {
			m.lastSha = ""
			continue
		}
		sha := sha256Hex(mb)
		if sha == m.lastSha {
			continue
		}
		m.lastSha = sha
		if sha == m.envSha {
			// not a new link: the bytes the name was linked to when the environment removed a
			// layer file (seen again because a restart forgot what had been seen)
			continue
		}
		// the name has just become linked to these bytes, by one of the pulls of the model in flight
		var pts []*pullTrace
		for _, pt := range w.inflight {
			if pt.model == m {
				pts = append(pts, pt)
			}
		}
		w.auditName(m, "success", false, nil, pts)
	}
}

// ---- phases --------------------------------------------------------------------------------

func (w *regWorld) runAttempt(k int, a regAttempt) {
	if a.update {
		m := w.models[0]
		w.reg.manifests[m.repo+":"+m.tag] = m.versions[1]
		w.note("registry: %s now points to v2", m.name)
		verifsim.Probe("tag_updated")
	}
	w.reg.stats = map[string]*layerStat{}
	w.reg.deliveredAll = map[string][][]byte{}
	w.attempt = k
	w.ctl.CrashAt = -1
	if a.crash {
		w.ctl.CrashAt = w.ctl.Points + a.crashAt
		w.ctl.TornSel = a.crashAt * 7919
	}
	w.pullsOf = map[string]int{}
	for _, mi := range a.models {
		seen := map[string]bool{}
		for _, ls := range w.models[mi].layers {
			for _, l := range ls {
				if !seen[l.digest] {
					seen[l.digest] = true
					w.pullsOf[l.digest]++
				}
			}
		}
	}
	ctx, cancel := context.WithCancel(context.Background())
	w.reg.cancelFn = cancel
	w.reg.cancelAt = 0
	if a.cancelAt > 0 {
		w.reg.cancelAt = w.reg.nreq + a.cancelAt
	}
	type result = pullResult
	finished := make(chan *result, len(a.models))
	w.finished = finished
	for i, mi := range a.models {
		m := w.models[mi]
		name := m.pullName
		if a.variant > 0 {
			name = m.variants[a.variant-1]
		}
		r := &result{m: m}
		pt := &pullTrace{model: m, layers: map[string]*layerTrace{}}
		w.inflight = append(w.inflight, pt)
		verifsim.Go(fmt.Sprintf("pull%d.%d", k, i), func() {
			r.ok, r.detail = w.pullVia(pt.ctx(ctx), a.how, name)
			w.note("attempt %d: %s of %s -> %v (%s)", k+1, [...]string{"POST /api/pull (stream)", "POST /api/pull (no stream)", "Registry.Pull"}[a.how], name, r.ok, r.detail)
			if r.ok {
				verifsim.Probe("pull_success")
				// any manifest body completely delivered for this name during the attempt may be the one this pull was served
				wants := w.reg.deliveredAll[m.repo+":"+m.tag]
				verifsim.Atomic(func() { w.auditName(m, "success", true, wants, []*pullTrace{pt}) })
			} else {
				verifsim.Probe("pull_failed")
			}
			for i, x := range w.inflight {
				if x == pt {
					w.inflight = append(w.inflight[:i], w.inflight[i+1:]...)
					break
				}
			}
			finished <- r
		})
	}
	// wait for the pulls of this attempt
	for range a.models {
		<-finished
		verifsim.Yield("driver:pull-finished") // (a driver of a dead process is unwound here)
	}
	w.finished = nil
	cancel()
	w.reg.cancelAt = 0
	w.ctl.CrashAt = -1
	if w.touched == nil {
		w.touched = map[string]bool{}
	}
	for d := range w.reg.everRequested {
		w.touched[d] = true
	}
	// quiescent for these names: failed or not, what resolves must be intact
	verifsim.Atomic(func() {
		for _, m := range w.models {
			w.auditName(m, "standing", false, nil, nil)
		}
	})
}

func (w *regWorld) runPush(k int) {
	// push what resolves locally to another repository of the registry
	var cands []*regModel
	for _, m := range w.models {
		if _, err := w.cl.ResolveLocal(m.pullName); err == nil {
			cands = append(cands, m)
		}
	}
	if len(cands) == 0 {
		verifsim.Probe("push_nothing_to_push")
		return
	}
	m := cands[verifsim.Draw("push-which", len(cands))]
	destRepo := fmt.Sprintf("dest/m%d", m.idx)
	dest := "http://" + regHost + "/" + destRepo + ":pushed"
	// some layers are at the destination already
	if _, mb, ok := w.findManifest(m.name); ok {
		var mj manifestJSON
		if json.Unmarshal(mb, &mj) == nil {
			for _, l := range mj.Layers {
				if b, ok := w.reg.anyBlob(l.Digest); ok && verifsim.Draw("push-preseed", 3) == 0 {
					w.reg.addBlob(destRepo, b)
				}
			}
		}
	}
	w.reg.stats = map[string]*layerStat{}
	ctx, cancel := context.WithCancel(context.Background())
	defer cancel()
	w.reg.cancelFn = cancel
	w.reg.cancelAt = 0
	if verifsim.Draw("push-cancel?", 6) == 0 {
		w.reg.cancelAt = w.reg.nreq + 1 + verifsim.Draw("push-cancel-at", 8)
	}
	before := w.reg.manifestPut
	err := w.cl.Push(ctx, dest, &ollama.PushParams{From: m.pullName})
	w.reg.cancelAt = 0
	w.note("push %d: Registry.Push(%s from %s) = %v", k+1, dest, m.pullName, err)
	if err != nil {
		verifsim.Probe("push_failed")
		return
	}
	verifsim.Probe("push_success")
	local, lerr := w.cl.ResolveLocal(m.pullName)
	acc, ok := w.reg.accepted[destRepo+":pushed"]
	switch {
	case !ok || w.reg.manifestPut == before:
		w.violate("push-order", "push-order:success-without-manifest", "Registry.Push(%s) returned nil but the registry accepted no manifest for it", dest)
	case lerr == nil && sha256.Sum256(acc) != sha256.Sum256(local.Data):
		w.violate("push-order", "push-order:success-other-manifest", "Registry.Push(%s) returned nil but the registry holds manifest %s, the cache %s", dest, sha256Hex(acc)[:19], sha256Hex(local.Data)[:19])
	}
}

func (w *regWorld) driver(from int, restarted bool, done *bool) {
	if restarted {
		// a new process on the surviving cache directory
		c, err := blob.Open(w.dir)
		if err != nil {
			w.violate("pull-audit", "pull-audit:after-crash:reopen-failed", "blob.Open(%s) after the crash fails: %v", w.dir, err)
			*done = true
			return
		}
		w.cache = c
		cl := *w.cl
		cl.Cache = c
		w.cl = &cl
		w.local = &Local{Client: w.cl, Logger: w.local.Logger}
		verifsim.Probe("crash_restarted")
		w.phase = fmt.Sprintf("after the crash in attempt %d", from)
		verifsim.Atomic(func() {
			for _, m := range w.models {
				m.lastSha = ""
				w.auditName(m, "after-crash", false, nil, nil)
			}
		})
	}
	for k := from; k < len(w.attempts); k++ {
		w.phase = fmt.Sprintf("attempt %d", k+1)
		if verifsim.Draw("env-removes-layer", 6) == 0 {
			w.envRemoveLayer()
		}
		w.runAttempt(k, w.attempts[k])
	}
	for k := 0; k < w.pushes; k++ {
		w.phase = fmt.Sprintf("push %d", k+1)
		w.runPush(k)
	}
	w.phase = "end"
	verifsim.Atomic(func() {
		for _, m := range w.models {
			w.auditName(m, "standing", false, nil, nil)
		}
	})
	*done = true
}

// releaseBlocked wakes what a dead process (or an aborted run) left blocked in
// harness-level waits, so that those goroutines reach their next yield, are
// unwound there and do not pile up over the runs of a worker process.
func (w *regWorld) releaseBlocked() {
	if w.reg.cancelFn != nil {
		w.reg.cancelFn()
	}
	if w.finished != nil {
		close(w.finished)
		w.finished = nil
	}
}

// afterCrash: the process died during an attempt; the registry is another machine and lives on.
func (w *regWorld) afterCrash() {
	w.note("process died in attempt %d: %s", w.attempt+1, strings.ReplaceAll(w.ctl.Crashed, filepath.Dir(w.dir), ""))
	w.inflight = nil
	w.ctl.CrashAt = -1
	w.reg.cancelAt = 0
	w.releaseBlocked()
	if w.touched == nil {
		w.touched = map[string]bool{}
	}
	for d := range w.reg.everRequested {
		w.touched[d] = true
	}
}

// ---- one execution ----------------------------------------------------------------------

var regAssumed = func() map[string]bool {
	b, err := os.ReadFile(os.Getenv("VERIF_ASSUME_KNOWN"))
	if err != nil {
		return nil
	}
	m := map[string]bool{}
	for _, l := range strings.Split(string(b), "\n") {
		if l = strings.TrimSpace(l); l != "" && !strings.HasPrefix(l, "#") {
			m[l] = true
		}
	}
	return m
}()

func runRegistry(t *testing.T, tape *verifsim.Tape, prop, tier string, keepLog bool) verifsim.Result {
	r := verifsim.Run(t, tape, keepLog, func(sim *verifsim.Sim, res *verifsim.Result) {
		w := newRegWorld(t, sim)
		defer w.close()
		w.drawCase(tier)
		sim.OnStep = w.onStep
		done := false
		sim.Go("driver", func() { w.driver(0, false, &done) })
		stop := sim.RunUntil(func() bool { return done }, 4*time.Hour, 120000)
		for ncrash := 0; stop == verifsim.Crashed && ncrash < 4; ncrash++ {
			sim.Crash()
			sim.ResetCrash()
			w.afterCrash()
			from := w.attempt + 1
			sim.Go(fmt.Sprintf("driver-restart%d", ncrash+1), func() { w.driver(from, true, &done) })
			stop = sim.RunUntil(func() bool { return done }, 4*time.Hour, 120000)
		}
		switch stop {
		case verifsim.CondTrue, verifsim.Violated:
		default:
			res.Info["budget_exhausted_"+stop.String()]++
			res.Info["budget_exhausted_in_"+strings.Fields(w.phase + " ?")[0]]++
		}
		sim.OnStep = nil
		for k, v := range w.info {
			res.Info[k] += v
		}
		res.Info["net_requests"] += w.reg.nreq
		res.Info["vfs_mutating_calls"] += w.ctl.Ops
		res.Sample = append(append([]string{}, w.desc...), w.reg.log...)
		if len(res.Sample) > 90 {
			res.Sample = res.Sample[:90]
		}
		// teardown: let the goroutines of the handler and of the client finish (tickers leak by design)
		w.reg.plan.off = true
		if stop != verifsim.CondTrue {
			// aborted run: unwind what is parked, wake what is blocked, and let the leftovers unwind too
			sim.Crash()
			sim.ResetCrash()
			w.releaseBlocked()
		}
		sim.RunUntil(nil, 2*time.Second, 5000)
	})
	if len(regAssumed) > 0 && len(r.Violations) > 0 && regAssumed[r.Violations[0].Signature] {
		r.Info["assumed_known "+r.Violations[0].Signature]++
		r.Violations = nil
	}
	return r
}

func TestVerifRegistry(t *testing.T) {
	slog.SetDefault(slog.New(slog.NewTextHandler(io.Discard, &slog.HandlerOptions{Level: slog.LevelError + 8})))
	verifsim.WorkerMain(t, verifsim.Harness{
		Name:       "registry",
		RunOne:     runRegistry,
		PanicProps: []string{"C09"},
		Real: []string{"server/internal/client/ollama registry.go trace.go (instrumented, unmodified logic): Registry.Pull/Push/Resolve/ResolveLocal, chunksums, errgroup streams, read-timeout timers",
			"server/internal/registry server.go: Local.ServeHTTP, handlePull (progress ticker, sync.OnceFunc start, backoff.Loop + canRetry)", "server/internal/internal/backoff",
			"server/internal/cache/blob (DiskCache, Chunker, checkWriter) on real files on tmpfs through the vfs pass-through", "net/http client over an in-memory RoundTripper"},
		Stub: []string{"registry + CDN (simReg: manifests, ranged blobs, chunksums/ plans, uploads; tape-drawn faults; push monitor)", "TCP/TLS (no sockets)"},
		Rule: map[string]string{
			"*": "one evaluation = one simulated execution of a tape-drawn history: 1-2 published models (1-4 layers of 0-96 KB on both sides of a 1-32 KB chunking threshold, optional config, shared layers, optional tag update), 1-4 pull attempts on one cache (handler streaming / non-streaming / direct Pull; sometimes two pulls at once, cancelled at a tape-chosen request, or under another casing of the name), a tape-drawn subset of 12 request fault kinds and 9 chunk-plan kinds, then 0-2 pushes to another repository; non-trivial = at least two tasks runnable at some step and at least one network request; distinct = different hash of the (task,label,time) decision sequence",
		},
		NonTrivial: func(prop string, r *verifsim.Result) bool { return r.MaxRunnable >= 2 && r.Info["net_requests"] > 0 },
		Assumptions: []string{"instrumentation preserves single-threaded semantics", "testing/synctest fake clock and quiescence detection",
			"the simulated registry follows the protocol as the new client uses it (manifest GET/PUT, ranged blob GET, chunksums/ with Content-Location, upload POST + PUT); it verifies uploads and never commits content that does not match its digest",
			"a manifest body damaged in transit is indistinguishable from another published manifest: the pull oracle compares with the bytes actually delivered"},
	})
}
