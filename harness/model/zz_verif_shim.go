//go:build verif

package model

import (
	"github.com/ollama/ollama/kvcache"
	"github.com/ollama/ollama/ml"
)

// NewBaseForVerif is an overlay-only constructor (never part of the shipped
// tree): it lets the simulation harness in runner/ollamarunner build a
// model.Base around a simulated backend and a real kvcache.Cache, which the
// unexported fields of Base otherwise forbid outside this package.
func NewBaseForVerif(b ml.Backend, c kvcache.Cache) Base {
	return Base{b: b, config: config{Cache: c}}
}
