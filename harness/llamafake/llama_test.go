package llama

// Unit tests of the llama.cpp cache model: each case states the behaviour of
// llama/llama.cpp/src/llama-kv-cache.cpp that the model reproduces (function
// and the lines of the C++ that decide it are quoted in the comments).
// Run: go1.26.8 test ./harness/llamafake   (from /verif; not part of any check).

import (
	"errors"
	"fmt"
	"testing"
)

func newCtx(t *testing.T, cfg *SimConfig, numCtx, batch, nSeq int) *Context {
	t.Helper()
	if cfg.Pieces == nil {
		cfg.Pieces = make([]string, 32)
	}
	c, err := NewContextWithModel(NewSimModel(cfg), NewContextParams(numCtx, batch, nSeq, 1, false, ""))
	if err != nil {
		t.Fatal(err)
	}
	return c
}

func feed(t *testing.T, c *Context, seq, pos0 int, toks ...int) error {
	t.Helper()
	b, _ := NewBatch(len(toks), 1, 0)
	for i, tk := range toks {
		b.Add(tk, nil, pos0+i, i == len(toks)-1, seq)
	}
	return c.Decode(b)
}

func seqStr(c *Context, seq int) string {
	s := ""
	for _, e := range c.KvSeq(seq) {
		s += fmt.Sprintf("%d@%d ", e.Tok, e.Pos)
	}
	return s
}

func TestSeqRmRanges(t *testing.T) {
	c := newCtx(t, &SimConfig{CanShift: true, Pad: 1}, 8, 8, 2)
	feed(t, c, 0, 0, 1, 2, 3, 4, 5)
	// seq_rm: p1 < 0 means "to the end" (p1 = numeric_limits<llama_pos>::max())
	if !c.KvCacheSeqRm(0, 3, -1) || seqStr(c, 0) != "1@0 2@1 3@2 " {
		t.Fatalf("tail erase: %q", seqStr(c, 0))
	}
	// a middle range on a unified cache always succeeds and leaves a hole in the positions
	if !c.KvCacheSeqRm(0, 1, 2) || seqStr(c, 0) != "1@0 3@2 " {
		t.Fatalf("middle erase: %q", seqStr(c, 0))
	}
	if c.KvUsed() != 2 {
		t.Fatalf("used = %d", c.KvUsed())
	}
}

func TestSeqCpSharesCellsAndSeqAddMovesThemForEverySequence(t *testing.T) {
	c := newCtx(t, &SimConfig{CanShift: true, Pad: 1}, 16, 8, 2)
	feed(t, c, 0, 0, 1, 2, 3, 4, 5, 6)
	// seq_cp: cells[i].seq_id.insert(seq_id_dst) - no new cells
	c.KvCacheSeqCp(0, 1, 0, 4)
	if c.KvUsed() != 6 || seqStr(c, 1) != "1@0 2@1 3@2 4@3 " {
		t.Fatalf("fork: used %d, seq1 %q", c.KvUsed(), seqStr(c, 1))
	}
	// seq_rm on a shared cell only drops the sequence id
	c.KvCacheSeqRm(0, 1, 3)
	if seqStr(c, 1) != "1@0 2@1 3@2 4@3 " || seqStr(c, 0) != "1@0 4@3 5@4 6@5 " {
		t.Fatalf("rm on shared: seq0 %q seq1 %q", seqStr(c, 0), seqStr(c, 1))
	}
	// seq_add: `if (cells[i].has_seq_id(seq_id) && pos in [p0, p1)) cells[i].pos += delta`:
	// the cell at position 3 belongs to both sequences and moves for both
	c.KvCacheSeqAdd(0, 3, 6, -2)
	if seqStr(c, 0) != "1@0 4@1 5@2 6@3 " {
		t.Fatalf("shifted seq0: %q", seqStr(c, 0))
	}
	if seqStr(c, 1) != "1@0 2@1 4@1 3@2 " {
		t.Fatalf("seq1 after the other sequence's shift: %q", seqStr(c, 1))
	}
}

func TestKShiftAbortsWhenContextCannotShift(t *testing.T) {
	c := newCtx(t, &SimConfig{CanShift: false, Pad: 1}, 8, 8, 1)
	feed(t, c, 0, 0, 1, 2, 3)
	if c.KvCacheCanShift() {
		t.Fatal("can shift")
	}
	c.KvCacheSeqAdd(0, 1, 3, -1)
	defer func() {
		// kv_self_update: GGML_ABORT("The current context does not support K-shift")
		if _, ok := recover().(Abort); !ok {
			t.Fatal("no abort at the next decode")
		}
	}()
	feed(t, c, 0, 2, 4)
}

func TestFindSlotNeedsContiguousCellsAndDefragments(t *testing.T) {
	c := newCtx(t, &SimConfig{CanShift: true, Pad: 1}, 8, 8, 2)
	feed(t, c, 0, 0, 1, 2, 3, 4) // cells 0-3
	feed(t, c, 1, 0, 5, 6, 7, 8) // cells 4-7
	c.KvCacheSeqRm(0, 1, 2)      // hole at cell 1
	c.KvCacheSeqRm(1, 1, 2)      // hole at cell 5
	// two free cells, not adjacent: find_slot fails, decode defragments and retries
	if err := feed(t, c, 0, 4, 9, 10); err != nil {
		t.Fatalf("decode after defrag: %v", err)
	}
	if d, _, _ := c.KvStats(); d != 1 {
		t.Fatalf("defrags = %d", d)
	}
	if seqStr(c, 0) != "1@0 3@2 4@3 9@4 10@5 " || seqStr(c, 1) != "5@0 7@2 8@3 " {
		t.Fatalf("after defrag: seq0 %q seq1 %q", seqStr(c, 0), seqStr(c, 1))
	}
	// full: decode returns 1 -> ErrKvCacheFull, and restore() gives back nothing it did not take
	if err := feed(t, c, 1, 4, 11); !errors.Is(err, ErrKvCacheFull) {
		t.Fatalf("full cache: %v", err)
	}
	if c.KvUsed() != 8 {
		t.Fatalf("used after failed decode = %d", c.KvUsed())
	}
}

func TestMaskIsSequenceAndCausal(t *testing.T) {
	var rows []DecodeRow
	cfg := &SimConfig{CanShift: true, Pad: 1, AfterDecode: func(c *Context, r []DecodeRow) { rows = r }}
	c := newCtx(t, cfg, 16, 8, 2)
	feed(t, c, 0, 0, 1, 2)
	b, _ := NewBatch(4, 2, 0)
	b.Add(7, nil, 0, false, 1)
	b.Add(3, nil, 2, false, 0)
	b.Add(8, nil, 1, true, 1)
	b.Add(4, nil, 3, true, 0)
	if err := c.Decode(b); err != nil {
		t.Fatal(err)
	}
	vis := func(r DecodeRow) string {
		s := ""
		for _, e := range r.Visible {
			s += fmt.Sprintf("%d@%d ", e.Tok, e.Pos)
		}
		return s
	}
	// masked if !has_seq_id(seq_id) || cells[i].pos > pos
	want := []string{"7@0 ", "1@0 2@1 3@2 ", "7@0 8@1 ", "1@0 2@1 3@2 4@3 "}
	for i, w := range want {
		if vis(rows[i]) != w {
			t.Fatalf("row %d sees %q, want %q", i, vis(rows[i]), w)
		}
	}
}

func TestRecurrentRefusesPartialErase(t *testing.T) {
	c := newCtx(t, &SimConfig{Recurrent: true, Pad: 1}, 8, 8, 2)
	feed(t, c, 0, 0, 1, 2, 3, 4)
	// tail cell pos = 3: (0 < p0 && p0 <= cell.pos) -> false
	if c.KvCacheSeqRm(0, 2, -1) {
		t.Fatal("partial erase of a recurrent state accepted")
	}
	if seqStr(c, 0) != "1@0 2@1 3@2 4@3 " {
		t.Fatalf("state changed by a refused erase: %q", seqStr(c, 0))
	}
	// erasing from behind the last position is a no-op that succeeds
	if !c.KvCacheSeqRm(0, 4, -1) || seqStr(c, 0) != "1@0 2@1 3@2 4@3 " {
		t.Fatal("erase behind the state")
	}
	if !c.KvCacheSeqRm(0, 0, -1) || seqStr(c, 0) != "" {
		t.Fatal("full erase")
	}
	if c.KvCacheCanShift() {
		t.Fatal("recurrent cache claims it can shift")
	}
}

func TestPaddingAsLlamaCpp(t *testing.T) {
	c := newCtx(t, &SimConfig{CanShift: true}, 40, 8, 1)
	if c.KvSize() != 64 { // GGML_PAD(n_ctx, 32)
		t.Fatalf("size = %d", c.KvSize())
	}
}
