// Package llama: pure-Go stand-in for github.com/ollama/ollama/llama, used by
// the verification harness "llamarunner" only. At check time the driver maps
// /repo/llama/llama.go to this file and removes every other file of that
// directory from the build (go test -overlay), so that runner/llamarunner is
// compiled against a model of llama.cpp instead of llama.cpp through cgo.
//
// The exported API is the one of the real package (same names, signatures and
// documented semantics). What stands behind it:
//
//   - Context: a model of llama.cpp's unified KV cache, written function by
//     function after llama/llama.cpp/src/llama-kv-cache.cpp (seq_rm, seq_cp,
//     seq_add, clear, defrag_prepare, find_slot, restore/commit) and of the
//     parts of llama_context::decode / kv_self_update that decide where a batch
//     goes and what every batch entry attends to (set_input_kq_mask: the cells
//     that carry the entry's sequence id and a position <= its own). A cell
//     remembers the token that was stored in it, so "what the model sees" for
//     an entry is the list of (token, position) of the cells its mask row leaves
//     visible. A second mode models the recurrent cache (one state per
//     sequence; partial erasure refused).
//   - Model: a per-run vocabulary (token -> piece), tokenizer and a scripted
//     "network": the next token of an entry is a function of exactly its
//     visible history, supplied by the harness (SimConfig.Next).
//   - SamplingContext: returns the scripted token of the requested batch row.
//   - clip: a projector that turns image bytes into embeddings chosen by the
//     harness (RegisterSimClip); mllama / quantize / grammar: inert stubs.
//
// No build tag and standard library only: the driver's `go list` runs without
// -tags verif, and the file must also compile as part of the /verif module.
package llama

import (
	"errors"
	"fmt"
	"sort"
	"strconv"
	"strings"
)

// ---- simulation interface (not part of the real package's API) ---------------------------

// VisEnt is one entry of the history visible to a batch entry.
type VisEnt struct {
	Tok   int // token id; EmbedID(vector) < 0 for an image embedding
	Pos   int // position the cell carries (what RoPE encodes after pending shifts were applied)
	Cell  int // cell index (diagnostics only)
	Batch int // index of the batch entry that stored the cell in the current Decode, else -1
}

// DecodeRow is what Decode did with one batch entry.
type DecodeRow struct {
	Index   int
	Tok     int
	Embed   bool
	Pos     int
	Seqs    []int
	Logits  bool
	Visible []VisEnt // ordered by position, then cell index
	Next    int      // scripted next token (only when Logits)
}

// SimConfig configures a simulated model and every context created from it.
type SimConfig struct {
	Pieces []string // token id -> piece
	EOG    int      // end-of-generation token
	BOS    int      // token that Tokenize puts in front when AddBOS && addSpecial
	AddBOS bool
	NEmbd  int

	// CanShift: llama_kv_self_can_shift (false e.g. for deepseek2 and for recurrent models).
	CanShift bool
	// Recurrent: the cache keeps one state per sequence (Mamba/RWKV): a state cannot be
	// erased partially, KvCacheSeqRm then returns false.
	Recurrent bool
	// Pad: the cache size is the context size rounded up to a multiple of Pad
	// (llama_kv_cache_unified::get_padding: 32, 256 with flash attention). 0 = as llama.cpp.
	Pad int
	// NUBatch: micro-batch size (0 = llama.cpp's default of 512, i.e. never smaller than the batch in ollama).
	NUBatch int

	// Tokenize overrides the default tokenizer (space separated token ids).
	Tokenize func(text string, addSpecial, parseSpecial bool) ([]int, error)
	// Next is the scripted network: the token a greedy sampler picks for a batch
	// entry, as a function of what the entry sees.
	Next func(c *Context, row *DecodeRow) int
	// BeforeDecode runs first in Decode (pre-emption point, fault injection): a
	// non-nil error is returned by Decode, the cache is left untouched.
	BeforeDecode func(c *Context, b *Batch) error
	// AfterDecode runs after a batch was stored and evaluated (oracle hook).
	AfterDecode func(c *Context, rows []DecodeRow)
	// OnOp is told about every cache operation for stories, probes and signatures.
	OnOp func(c *Context, op OpInfo)
}

// OpInfo describes one cache operation.
type OpInfo struct {
	Name   string // seq_rm, seq_cp, seq_add, clear, defrag
	Args   [4]int
	OK     bool
	Cells  int   // cells the operation touched
	Others []int // further sequence ids carried by cells whose position the operation changed (seq_add)
}

var simModels = map[string]*SimConfig{}

// simClips: projector path -> embedding generator (RegisterSimClip).
var simClips = map[string]func(data []byte) ([][]float32, error){}

// RegisterSimClip makes GetModelArch(path) report "clip" and NewClipContext(path) return a
// projector whose NewEmbed calls embed (image bytes -> one embedding per image token).
func RegisterSimClip(path string, embed func(data []byte) ([][]float32, error)) {
	simClips[path] = embed
}

// EmbedID is the payload recorded in a cache cell that holds an image embedding:
// a negative number derived from the first two components of the vector (the
// simulated projector puts the image id and the row index there).
func EmbedID(embed []float32) int {
	if len(embed) < 2 {
		return -1
	}
	return -(1 + int(embed[0])*64 + int(embed[1]))
}

// RegisterSimModel makes LoadModelFromFile(path) return a model with this configuration.
func RegisterSimModel(path string, cfg *SimConfig) { simModels[path] = cfg }

// ResetSimModels forgets every registered model (start of a run).
func ResetSimModels() {
	simModels = map[string]*SimConfig{}
	simClips = map[string]func(data []byte) ([][]float32, error){}
}

// NewSimModel builds a model directly.
func NewSimModel(cfg *SimConfig) *Model { return &Model{sim: cfg} }

// Sim returns the configuration behind a model.
func (m *Model) Sim() *SimConfig { return m.sim }

// Abort is the panic value used where llama.cpp would abort the process
// (GGML_ASSERT / GGML_ABORT / C++ exception through cgo).
type Abort struct{ Msg string }

func (a Abort) Error() string { return "llama.cpp abort: " + a.Msg }

func abort(f string, a ...any) { panic(Abort{Msg: fmt.Sprintf(f, a...)}) }

// ---- the KV cache -------------------------------------------------------------------------

// Cell is one cell of the unified cache (llama_kv_cell) plus the payload it holds.
type Cell struct {
	Pos   int   // -1: empty
	Delta int   // accumulated shift not yet applied to the K data
	Seqs  []int // sorted set of sequence ids
	Tok   int   // payload: the token whose K/V the cell holds (EmbedID < 0: an image embedding)
	Rope  int   // the position the K data currently encodes (Pos once pending shifts are applied)
	batch int   // index of the batch entry that wrote it during the current Decode (-1 otherwise)
}

func (c *Cell) has(seq int) bool {
	for _, s := range c.Seqs {
		if s == seq {
			return true
		}
	}
	return false
}

func (c *Cell) insert(seq int) {
	if c.has(seq) {
		return
	}
	c.Seqs = append(c.Seqs, seq)
	sort.Ints(c.Seqs)
}

func (c *Cell) erase(seq int) {
	for i, s := range c.Seqs {
		if s == seq {
			c.Seqs = append(c.Seqs[:i:i], c.Seqs[i+1:]...)
			return
		}
	}
}

func (c *Cell) empty() bool { return len(c.Seqs) == 0 }

// recState is the state of one sequence of a recurrent cache: everything that
// was fed into it since it was last cleared.
type recState struct {
	hist []VisEnt
	pos  int // position of the last token (-1: no state)
}

type kvCache struct {
	recurrent bool
	canShift  bool
	size      int
	head      int
	used      int
	n         int
	hasShift  bool
	doDefrag  bool
	cells     []Cell
	pending   [][2]int

	// recurrent mode
	states []*recState // per sequence id; states may be shared after seq_cp

	lastCells  int
	lastOthers []int
	Version    int

	// statistics for probes
	Defrags    int
	DefragMove int
	KShifts    int
}

const posMax = int(^uint32(0) >> 1)

func newKV(size int, recurrent, canShift bool, nSeqMax int) *kvCache {
	kv := &kvCache{recurrent: recurrent, canShift: canShift && !recurrent, size: size}
	if recurrent {
		kv.size = max(1, nSeqMax)
		kv.states = make([]*recState, kv.size)
		return kv
	}
	kv.cells = make([]Cell, size)
	for i := range kv.cells {
		kv.cells[i] = Cell{Pos: -1, batch: -1}
	}
	return kv
}

func (kv *kvCache) clear() {
	if kv.recurrent {
		for i := range kv.states {
			kv.states[i] = nil
		}
		return
	}
	for i := range kv.cells {
		kv.cells[i] = Cell{Pos: -1, batch: -1}
	}
	kv.head = 0
	kv.used = 0
}

// seqRm: llama_kv_cache_unified::seq_rm.
func (kv *kvCache) seqRm(seq, p0, p1 int) bool {
	newHead := kv.size
	if p0 < 0 {
		p0 = 0
	}
	if p1 < 0 {
		p1 = posMax
	}
	if kv.recurrent {
		if seq >= kv.size {
			return false
		}
		if seq >= 0 {
			st := kv.states[seq]
			if st != nil && st.pos >= 0 {
				// partial intersection is invalid
				if (0 < p0 && p0 <= st.pos) || (0 < p1 && p1 <= st.pos) {
					return false
				}
				// invalidate tails which will be cleared
				if p0 <= st.pos && st.pos < p1 {
					kv.states[seq] = nil
				}
			}
		} else {
			if p0 != p1 && (p0 != 0 || p1 != posMax) {
				return false
			}
			// (llama.cpp leaves the states in place here as well)
		}
		return true
	}
	for i := range kv.cells {
		c := &kv.cells[i]
		if c.Pos >= p0 && c.Pos < p1 {
			if seq < 0 {
				c.Seqs = nil
			} else if c.has(seq) {
				c.erase(seq)
			} else {
				continue
			}
			kv.lastCells++
			if c.empty() {
				if c.Pos >= 0 {
					kv.used--
				}
				c.Pos = -1
				c.Tok, c.Rope, c.Delta, c.batch = 0, 0, 0, -1
				if newHead == kv.size {
					newHead = i
				}
			}
		}
	}
	if newHead != kv.size && newHead < kv.head {
		kv.head = newHead
	}
	return true
}

// seqCp: llama_kv_cache_unified::seq_cp.
func (kv *kvCache) seqCp(src, dst, p0, p1 int) {
	if src == dst {
		return
	}
	if p0 < 0 {
		p0 = 0
	}
	if p1 < 0 {
		p1 = posMax
	}
	if kv.recurrent {
		// the whole state is shared, whatever the range
		if dst >= 0 && dst < kv.size && src >= 0 && src < kv.size {
			kv.states[dst] = nil
			if st := kv.states[src]; st != nil && st.pos >= 0 {
				// the destination refers to the same cell; the next token of either sequence
				// copies it into a cell of its own (find_slot), so a copy is equivalent
				cp := &recState{hist: append([]VisEnt(nil), st.hist...), pos: st.pos}
				kv.states[dst] = cp
			}
		}
		return
	}
	kv.head = 0
	for i := range kv.cells {
		c := &kv.cells[i]
		if c.has(src) && c.Pos >= p0 && c.Pos < p1 {
			c.insert(dst)
			kv.lastCells++
		}
	}
}

// seqAdd: llama_kv_cache_unified::seq_add.
func (kv *kvCache) seqAdd(seq, p0, p1, delta int) {
	if delta == 0 {
		return
	}
	newHead := kv.size
	if p0 < 0 {
		p0 = 0
	}
	if p1 < 0 {
		p1 = posMax
	}
	if p0 == p1 {
		return
	}
	if kv.recurrent {
		if seq >= 0 && seq < kv.size {
			if st := kv.states[seq]; st != nil && st.pos >= 0 && p0 <= st.pos && st.pos < p1 {
				st.pos += delta
			}
		}
		return
	}
	for i := range kv.cells {
		c := &kv.cells[i]
		if c.has(seq) && c.Pos >= p0 && c.Pos < p1 {
			kv.hasShift = true
			kv.lastCells++
			for _, o := range c.Seqs {
				if o != seq {
					known := false
					for _, k := range kv.lastOthers {
						known = known || k == o
					}
					if !known {
						kv.lastOthers = append(kv.lastOthers, o)
					}
				}
			}
			c.Pos += delta
			c.Delta += delta
			if c.Pos < 0 {
				if !c.empty() {
					kv.used--
				}
				c.Pos = -1
				c.Seqs = nil
				if newHead == kv.size {
					newHead = i
				}
			}
		}
	}
	if newHead != kv.size {
		kv.head = newHead
	} else {
		kv.head = 0
	}
}

func (kv *kvCache) cellMax() int {
	for i := kv.size; i > 0; i-- {
		c := &kv.cells[i-1]
		if c.Pos >= 0 && !c.empty() {
			return i
		}
	}
	return 0
}

// update: llama_context::kv_self_update.
func (kv *kvCache) update() {
	if kv.recurrent {
		return
	}
	if kv.hasShift {
		if !kv.canShift {
			abort("The current context does not support K-shift")
		}
		kv.KShifts++
		for i := range kv.cells {
			c := &kv.cells[i]
			c.Rope += c.Delta
			c.Delta = 0
		}
		kv.hasShift = false
	}
	if kv.doDefrag {
		if !kv.defragPrepare() {
			return
		}
		kv.Defrags++
		kv.doDefrag = false
	}
}

// defragPrepare: llama_kv_cache_unified::defrag_prepare; the data moves that
// llama_context::build_kv_self_defrag performs are applied to the payload at once.
func (kv *kvCache) defragPrepare() bool {
	nKV := kv.cellMax()
	nUsed := kv.used
	if nUsed > nKV {
		abort("KV defrag: n_used %d > n_kv %d", nUsed, nKV)
	}
	moves := 0
	ids := make([]int, nKV)
	for i := range ids {
		ids[i] = nKV
	}
	for i0 := 0; i0 < nUsed; i0++ {
		if !kv.cells[i0].empty() {
			ids[i0] = i0
			continue
		}
		// found a hole - fill it with data from the end of the cache
		nh := 1
		for i0+nh < nUsed && kv.cells[i0+nh].empty() {
			nh++
		}
		nf := 0
		is := nKV - 1
		for ; is > i0; is-- {
			if kv.cells[is].empty() || ids[is] != nKV {
				continue
			}
			nf++
			if nf == nh {
				break
			}
		}
		if nf != nh {
			abort("KV defrag bug: nf != nh")
		}
		nf = 0
		for i1 := is; i1 < nKV; i1++ {
			c1 := &kv.cells[i1]
			if c1.empty() || ids[i1] != nKV {
				continue
			}
			ids[i1] = i0 + nf
			kv.cells[i0+nf] = *c1
			*c1 = Cell{Pos: -1, batch: -1}
			kv.head = nUsed
			moves++
			nf++
			if nf == nh {
				break
			}
		}
		i0 += nh - 1
	}
	kv.DefragMove += moves
	return moves != 0
}

// findSlot: llama_kv_cache_unified::find_slot for n contiguous cells; returns the first cell.
func (kv *kvCache) findSlot(n int) (int, bool) {
	if kv.head > kv.used+2*n {
		kv.head = 0
	}
	if n > kv.size {
		return 0, false
	}
	tested := 0
	for {
		if kv.head+n > kv.size {
			tested += kv.size - kv.head
			kv.head = 0
			continue
		}
		found := true
		for i := 0; i < n; i++ {
			if kv.cells[kv.head+i].Pos >= 0 {
				found = false
				kv.head += i + 1
				tested += i + 1
				break
			}
		}
		if found {
			break
		}
		if tested >= kv.size {
			return 0, false
		}
	}
	return kv.head, true
}

// restore: llama_kv_cache_unified::restore (a failed decode gives back the cells of its micro-batches).
func (kv *kvCache) restore() {
	if len(kv.pending) == 0 {
		return
	}
	newHead := kv.size
	for _, r := range kv.pending {
		for i := r[0]; i < r[1]; i++ {
			c := &kv.cells[i]
			c.Seqs = nil
			if c.Pos >= 0 {
				kv.used--
			}
			*c = Cell{Pos: -1, batch: -1}
		}
		newHead = min(newHead, r[0])
	}
	if newHead != kv.size && newHead < kv.head {
		kv.head = newHead
	}
	kv.pending = nil
}

// ---- package API -------------------------------------------------------------------------

func BackendInit() {}

func GetModelArch(modelPath string) (string, error) {
	if _, ok := simClips[modelPath]; ok {
		return "clip", nil
	}
	return "", errors.New("unable to load model file")
}

type ContextParams struct {
	numCtx         int
	batchSize      int
	numSeqMax      int
	threads        int
	flashAttention bool
	kvCacheType    string
}

func NewContextParams(numCtx int, batchSize int, numSeqMax int, threads int, flashAttention bool, kvCacheType string) ContextParams {
	return ContextParams{numCtx: numCtx, batchSize: batchSize, numSeqMax: numSeqMax, threads: threads, flashAttention: flashAttention, kvCacheType: strings.ToLower(kvCacheType)}
}

type Context struct {
	model      *Model
	numThreads int
	nCtx       int
	nBatch     int
	nUBatch    int
	nSeqMax    int
	kv         *kvCache

	// outputs of the last successful Decode: batch index -> scripted token (-1: no logits for that entry)
	out []int

	Decodes int
}

var ErrKvCacheFull = errors.New("could not find a kv cache slot")

func NewContextWithModel(model *Model, params ContextParams) (*Context, error) {
	if model == nil || model.sim == nil {
		return nil, errors.New("unable to create llama context")
	}
	cfg := model.sim
	nSeqMax := max(1, params.numSeqMax)
	nCtx := params.numCtx
	nBatch := min(nCtx, params.batchSize)
	nUB := cfg.NUBatch
	if nUB <= 0 {
		nUB = 512
	}
	nUB = min(nBatch, nUB)
	pad := cfg.Pad
	if pad <= 0 {
		pad = 32
		if params.flashAttention {
			pad = 256
		}
	}
	size := (nCtx + pad - 1) / pad * pad
	c := &Context{model: model, numThreads: params.threads, nCtx: size, nBatch: nBatch, nUBatch: nUB, nSeqMax: nSeqMax}
	c.kv = newKV(size, cfg.Recurrent, cfg.CanShift, nSeqMax)
	return c, nil
}

// KvSize is the number of cells of the cache.
func (c *Context) KvSize() int { return c.kv.size }

// KvUsed is the number of cells in use.
func (c *Context) KvUsed() int { return c.kv.used }

// KvStats returns (defragmentations, cells moved, K-shifts applied).
func (c *Context) KvStats() (int, int, int) { return c.kv.Defrags, c.kv.DefragMove, c.kv.KShifts }

// KvCells returns a copy of the cells (diagnostics).
func (c *Context) KvCells() []Cell {
	out := make([]Cell, len(c.kv.cells))
	copy(out, c.kv.cells)
	return out
}

// KvSeq returns what the cache holds for a sequence, ordered by position then cell.
func (c *Context) KvSeq(seq int) []VisEnt {
	if c.kv.recurrent {
		if seq >= 0 && seq < len(c.kv.states) && c.kv.states[seq] != nil {
			return append([]VisEnt(nil), c.kv.states[seq].hist...)
		}
		return nil
	}
	var out []VisEnt
	for i := range c.kv.cells {
		cl := &c.kv.cells[i]
		if cl.Pos >= 0 && cl.has(seq) {
			out = append(out, VisEnt{Tok: cl.Tok, Pos: cl.Pos, Cell: i, Batch: cl.batch})
		}
	}
	sort.SliceStable(out, func(a, b int) bool { return out[a].Pos < out[b].Pos })
	return out
}

func (c *Context) op(name string, a, b, cc, d int, ok bool) {
	c.kv.Version++
	if f := c.model.sim.OnOp; f != nil {
		f(c, OpInfo{Name: name, Args: [4]int{a, b, cc, d}, OK: ok, Cells: c.kv.lastCells, Others: c.kv.lastOthers})
	}
	c.kv.lastCells, c.kv.lastOthers = 0, nil
}

// KvVersion changes whenever the cache content may have changed.
func (c *Context) KvVersion() int { return c.kv.Version }

func (c *Context) Decode(batch *Batch) error {
	cfg := c.model.sim
	c.Decodes++
	if cfg.BeforeDecode != nil {
		if err := cfg.BeforeDecode(c, batch); err != nil {
			return err
		}
	}
	n := len(batch.rows)
	if n == 0 {
		return fmt.Errorf("llama_decode failed with code %d", -1)
	}
	for i := range batch.rows {
		r := &batch.rows[i]
		if !batch.IsEmbedding() && (r.tok < 0 || r.tok >= len(cfg.Pieces)) {
			abort("invalid token[%d] = %d", i, r.tok)
		}
	}
	if n > c.nBatch {
		abort("GGML_ASSERT(n_tokens_all <= cparams.n_batch) failed: %d > %d", n, c.nBatch)
	}
	kv := c.kv
	kv.Version++
	kv.update()
	c.out = c.out[:0]
	for range batch.rows {
		c.out = append(c.out, -1)
	}
	rows := make([]DecodeRow, n)

	if kv.recurrent {
		// one state per sequence; every entry sees the state before it plus itself
		for i := range batch.rows {
			r := &batch.rows[i]
			for _, s := range r.seqs {
				if s < 0 || s >= kv.size {
					return ErrKvCacheFull
				}
			}
		}
		for i := range batch.rows {
			r := &batch.rows[i]
			seq := r.seqs[0]
			st := kv.states[seq]
			if st == nil {
				st = &recState{pos: -1}
				kv.states[seq] = st
			}
			tok := r.tok
			if r.embed != nil {
				tok = EmbedID(r.embed)
			}
			st.hist = append(st.hist, VisEnt{Tok: tok, Pos: r.pos, Cell: seq, Batch: i})
			st.pos = r.pos
			for _, o := range r.seqs[1:] {
				kv.states[o] = st
			}
			rows[i] = DecodeRow{Index: i, Tok: tok, Embed: r.embed != nil, Pos: r.pos, Seqs: append([]int(nil), r.seqs...), Logits: r.logits,
				Visible: append([]VisEnt(nil), st.hist...)}
		}
		for seq := range kv.states {
			if st := kv.states[seq]; st != nil {
				for k := range st.hist {
					if st.hist[k].Batch >= 0 {
						// only entries of this very batch keep their batch index in the rows above
						st.hist[k].Batch = -1
					}
				}
			}
		}
	} else {
		for start := 0; start < n; start += c.nUBatch {
			end := min(n, start+c.nUBatch)
			nt := end - start
			head, ok := kv.findSlot(nt)
			if !ok {
				kv.doDefrag = true
				kv.update()
				head, ok = kv.findSlot(nt)
				if !ok {
					kv.restore()
					return ErrKvCacheFull
				}
			}
			for k := 0; k < nt; k++ {
				r := &batch.rows[start+k]
				cl := &kv.cells[head+k]
				tok := r.tok
				if r.embed != nil {
					tok = EmbedID(r.embed)
				}
				*cl = Cell{Pos: r.pos, Rope: r.pos, Tok: tok, batch: start + k}
				for _, s := range r.seqs {
					cl.insert(s)
				}
			}
			kv.used += nt
			kv.pending = append(kv.pending, [2]int{head, head + nt})
			pad := 32
			kv.n = min(kv.size, max(pad, (kv.cellMax()+pad-1)/pad*pad))

			// what every entry of the micro-batch attends to (llm_graph_input_attn_kv_unified::set_input)
			for k := 0; k < nt; k++ {
				i := start + k
				r := &batch.rows[i]
				seq := r.seqs[0]
				tok := r.tok
				if r.embed != nil {
					tok = EmbedID(r.embed)
				}
				row := DecodeRow{Index: i, Tok: tok, Embed: r.embed != nil, Pos: r.pos, Seqs: append([]int(nil), r.seqs...), Logits: r.logits}
				for ci := 0; ci < kv.n; ci++ {
					cl := &kv.cells[ci]
					if !cl.has(seq) || cl.Pos > r.pos {
						continue
					}
					row.Visible = append(row.Visible, VisEnt{Tok: cl.Tok, Pos: cl.Rope, Cell: ci, Batch: cl.batch})
				}
				sort.SliceStable(row.Visible, func(a, b int) bool { return row.Visible[a].Pos < row.Visible[b].Pos })
				rows[i] = row
			}
		}
		// commit
		kv.pending = nil
		for i := range kv.cells {
			kv.cells[i].batch = -1
		}
	}

	for i := range rows {
		if rows[i].Logits {
			nt := cfg.EOG
			if cfg.Next != nil {
				nt = cfg.Next(c, &rows[i])
			}
			rows[i].Next = nt
			c.out[i] = nt
		}
	}
	if cfg.AfterDecode != nil {
		cfg.AfterDecode(c, rows)
	}
	return nil
}

func (c *Context) Model() *Model { return c.model }

func (c *Context) KvCacheSeqAdd(seqId int, p0 int, p1 int, delta int) {
	c.kv.seqAdd(seqId, p0, p1, delta)
	c.op("seq_add", seqId, p0, p1, delta, true)
}

func (c *Context) KvCacheSeqRm(seqId int, p0 int, p1 int) bool {
	ok := c.kv.seqRm(seqId, p0, p1)
	c.op("seq_rm", seqId, p0, p1, 0, ok)
	return ok
}

func (c *Context) KvCacheSeqCp(srcSeqId int, dstSeqId int, p0 int, p1 int) {
	c.kv.seqCp(srcSeqId, dstSeqId, p0, p1)
	c.op("seq_cp", srcSeqId, dstSeqId, p0, p1, true)
}

func (c *Context) KvCacheClear() {
	c.kv.clear()
	c.op("clear", 0, 0, 0, 0, true)
}

func (c *Context) KvCacheDefrag() {
	if !c.kv.recurrent {
		c.kv.doDefrag = true
	}
	c.op("defrag", 0, 0, 0, 0, true)
}

func (c *Context) KvCacheCanShift() bool { return c.kv.canShift }

// Get the embeddings for a sequence id
func (c *Context) GetEmbeddingsSeq(seqId int) []float32 { return nil }

func (c *Context) GetEmbeddingsIth(i int) []float32 {
	if i < 0 || i >= len(c.out) {
		return nil
	}
	return make([]float32, c.model.NEmbd())
}

type ModelParams struct {
	NumGpuLayers int
	MainGpu      int
	UseMmap      bool
	UseMlock     bool
	TensorSplit  []float32
	Progress     func(float32)
	VocabOnly    bool
}

func LoadModelFromFile(modelPath string, params ModelParams) (*Model, error) {
	cfg := simModels[modelPath]
	if cfg == nil {
		return nil, fmt.Errorf("unable to load model: %s", modelPath)
	}
	if params.Progress != nil {
		params.Progress(1)
	}
	return &Model{sim: cfg}, nil
}

func LoadVocabFromFile(path string) (*Vocab, error) {
	return nil, fmt.Errorf("unable to load vocab: %s", path)
}

func FreeVocab(vocab *Vocab) {}

func FreeModel(model *Model) {}

func (m *Model) NumVocab() int { return len(m.sim.Pieces) }

func (m *Model) TokenIsEog(token int) bool { return token == m.sim.EOG }

func (m *Model) AddBOSToken() bool { return m.sim.AddBOS }

func (m *Model) ApplyLoraFromFile(context *Context, loraPath string, scale float32, threads int) error {
	return errors.New("unable to load lora")
}

type Vocab struct{}

type batchRow struct {
	tok    int
	embed  []float32
	pos    int
	logits bool
	seqs   []int
}

type Batch struct {
	rows      []batchRow
	batchSize int
	maxSeq    int
	embedSize int
}

// Creates a new batch for either word tokens or image embeddings (if embedSize is non-zero).
// Batches cannot contain both types at the same time. batchSize is the maximum number of entries
// that can be added per sequence
func NewBatch(batchSize int, maxSeq int, embedSize int) (*Batch, error) {
	if batchSize < 0 || maxSeq < 0 {
		return nil, fmt.Errorf("unable to allocate batch (batchSize=%v maxSeq=%v embedSize=%v)", batchSize, maxSeq, embedSize)
	}
	return &Batch{batchSize: batchSize, maxSeq: maxSeq, embedSize: embedSize}, nil
}

func (b *Batch) Size() int { return b.batchSize }

func (b *Batch) allocSize() int { return b.batchSize * b.maxSeq }

func (b *Batch) NumTokens() int { return len(b.rows) }

func (b *Batch) IsEmbedding() bool { return b.embedSize != 0 }

// Add adds either a token or an image embedding to the batch depending on the type
// when the batch was initialized. The other argument will be ignored. Adds to the
// batch with the given position for the given sequence ids, and optionally instructs
// to include logits.
func (b *Batch) Add(token int, embed []float32, pos int, logits bool, seqIds ...int) {
	if len(b.rows) >= b.allocSize() {
		// the real package writes behind the arrays llama_batch_init allocated
		abort("batch overflow: entry %d added to a batch allocated for %d", len(b.rows)+1, b.allocSize())
	}
	if len(seqIds) > b.maxSeq || len(seqIds) == 0 {
		abort("batch entry with %d sequence ids (n_seq_max %d)", len(seqIds), b.maxSeq)
	}
	r := batchRow{pos: pos, logits: logits, seqs: append([]int(nil), seqIds...)}
	if !b.IsEmbedding() {
		r.tok = token
	} else {
		r.embed = append([]float32(nil), embed...)
		if r.embed == nil {
			r.embed = []float32{}
		}
	}
	b.rows = append(b.rows, r)
}

func (b *Batch) Clear() { b.rows = b.rows[:0] }

func (b *Batch) Free() {
	b.batchSize = 0
	b.rows = nil
}

// Entry returns entry i of the batch (simulation interface).
func (b *Batch) Entry(i int) (tok int, pos int, logits bool, seqs []int) {
	r := &b.rows[i]
	return r.tok, r.pos, r.logits, r.seqs
}

type Model struct {
	sim *SimConfig
}

func (m *Model) TokenToPiece(token int) string {
	if token < 0 || token >= len(m.sim.Pieces) {
		return ""
	}
	return strings.TrimRight(m.sim.Pieces[token], "\x00")
}

func (m *Model) Tokenize(text string, addSpecial bool, parseSpecial bool) ([]int, error) {
	if m.sim.Tokenize != nil {
		return m.sim.Tokenize(text, addSpecial, parseSpecial)
	}
	var out []int
	if addSpecial && m.sim.AddBOS {
		out = append(out, m.sim.BOS)
	}
	for _, f := range strings.Fields(text) {
		n, err := strconv.Atoi(f)
		if err != nil || n < 0 || n >= len(m.sim.Pieces) {
			return nil, fmt.Errorf("tokenization failed: %q", f)
		}
		out = append(out, n)
	}
	return out, nil
}

func (m *Model) NEmbd() int {
	if m.sim.NEmbd > 0 {
		return m.sim.NEmbd
	}
	return 4
}

func Quantize(infile, outfile string, ftype uint32) error {
	return errors.New("llama_model_quantize: not available in the simulation")
}

// vision processing
type ClipContext struct {
	embed func(data []byte) ([][]float32, error)
}

func NewClipContext(llamaContext *Context, modelPath string) (*ClipContext, error) {
	f := simClips[modelPath]
	if f == nil {
		return nil, fmt.Errorf("unable to load clip model: %v", modelPath)
	}
	return &ClipContext{embed: f}, nil
}

func (c *ClipContext) Free() {}

func (c *ClipContext) NewEmbed(llamaContext *Context, data []byte) ([][]float32, error) {
	if c.embed == nil {
		return nil, errors.New("unable to make llava embedding from image")
	}
	return c.embed(data)
}

type MllamaContext struct{}

func NewMllamaContext(llamaContext *Context, modelPath string) (*MllamaContext, error) {
	return nil, fmt.Errorf("unable to load mllama model: %v", modelPath)
}

func (m *MllamaContext) Free() {}

func (m *MllamaContext) NewEmbed(llamaContext *Context, data []byte, aspectRatioId int) ([][]float32, error) {
	return nil, errors.New("unable to load mllama image data")
}

func (m *MllamaContext) EmbedSize(llamaContext *Context) int { return llamaContext.Model().NEmbd() }

func (c *Context) SetCrossAttention(state bool) {}

func (c *Context) Synchronize() {}

// sampling
type SamplingContext struct {
	model    *Model
	params   SamplingParams
	Accepted []int
}

type SamplingParams struct {
	TopK           int
	TopP           float32
	MinP           float32
	TypicalP       float32
	Temp           float32
	RepeatLastN    int
	PenaltyRepeat  float32
	PenaltyFreq    float32
	PenaltyPresent float32
	Mirostat       int
	MirostatTau    float32
	MirostatEta    float32
	PenalizeNl     bool
	Seed           uint32
	Grammar        string
}

func NewSamplingContext(model *Model, params SamplingParams) (*SamplingContext, error) {
	if model == nil {
		return nil, errors.New("unable to create sampling context")
	}
	return &SamplingContext{model: model, params: params}, nil
}

func (s *SamplingContext) Reset() { s.Accepted = s.Accepted[:0] }

// Sample returns the token the scripted network put all probability on for
// batch entry idx of the last Decode. llama.cpp aborts when that entry has no
// logits (llama_get_logits_ith: "invalid logits id").
func (s *SamplingContext) Sample(llamaContext *Context, idx int) int {
	if idx < 0 || idx >= len(llamaContext.out) || llamaContext.out[idx] < 0 {
		abort("llama_get_logits_ith: invalid logits id %d, reason: batch.logits[%d] != true", idx, idx)
	}
	return llamaContext.out[idx]
}

func (s *SamplingContext) Accept(id int, applyGrammar bool) { s.Accepted = append(s.Accepted, id) }

// SchemaToGrammar converts the provided JSON schema to a grammar. It returns
// nil if the provided schema is invalid JSON or an invalid JSON schema.
func SchemaToGrammar(schema []byte) []byte { return nil }

type Sampler struct{}

func NewGrammarSampler(vocab *Vocab, grammar string) *Sampler { return &Sampler{} }

func (s *Sampler) Accept(token int32) {}

type TokenData struct {
	Id    int32
	Logit float32
}

func (s *Sampler) Apply(tokens []TokenData) {}
