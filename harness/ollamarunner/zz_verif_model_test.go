//go:build verif

package ollamarunner

// ScriptModel + recording cache proxy + per-run vocabulary (DESIGN.md 3.8).
//
// The scripted model stores, per token and per layer, the tuple
// (token id, position, unique id) as K and (unique id, token id) as V through
// the real kvcache (Put), reads the history and the mask back (Get), decodes
// which entries are visible to every batch row, hands that to the oracle, and
// emits one-hot logits for next = script(hash(visible history)). Its shift
// function adds the offset to the stored position, which is what RoPE
// re-rotation does to a key.

import (
	"errors"
	"fmt"
	"math"
	"sort"
	"strconv"
	"strings"

	"github.com/ollama/ollama/kvcache"
	"github.com/ollama/ollama/ml"
	"github.com/ollama/ollama/model"
	"github.com/ollama/ollama/model/input"
	"github.com/ollama/ollama/verifsim"
)

// ---- recording cache proxy --------------------------------------------------------

type refEntry struct {
	pos int32
	tok int32
	// evicted: a sliding-window sub-cache has dropped this entry because it had left the
	// window of the sequence's next batch (Causal.updateSlidingWindow). Used only to
	// recognise the known "context shift pulls evicted entries back into the window" finding.
	evicted bool
}

// refSeq is the reference model of one cache sequence (C06: per sequence an
// ordered list of (position, payload)). undefined = a Remove failed and the
// sequence has not been cleared with Remove(seq, 0, MaxInt32) since: the cache
// interface leaves the content unspecified in that state.
type refSeq struct {
	ents        []refEntry
	undefined   bool
	failedShift bool     // the last Remove was a shift (middle removal) that failed
	ops         []string // the most recent notable operations since the last complete clear (messages)
	kinds       []string // every kind of operation seen since the last complete clear (signatures)
}

func (r *refSeq) op(name string) {
	known := false
	for _, k := range r.kinds {
		if k == name {
			known = true
		}
	}
	if !known {
		r.kinds = append(r.kinds, name)
	}
	if n := len(r.ops); n > 0 && r.ops[n-1] == name {
		return
	}
	if len(r.ops) >= 12 {
		// the story is for reading: keep the most recent operations
		copy(r.ops, r.ops[1:])
		r.ops = r.ops[:len(r.ops)-1]
	}
	r.ops = append(r.ops, name)
}

// allEvicted: every position in pos is held by an entry that a sliding-window cache has evicted.
func (r *refSeq) allEvicted(pos []int) bool {
	if len(pos) == 0 {
		return false
	}
	for _, p := range pos {
		ok := false
		for _, e := range r.ents {
			if int(e.pos) == p && e.evicted {
				ok = true
			}
		}
		if !ok {
			return false
		}
	}
	return true
}

func (r *refSeq) has(name string) bool {
	for _, o := range r.kinds {
		if o == name {
			return true
		}
	}
	return false
}

// recCache forwards every call to the real cache, keeps the reference model,
// counts probes and injects the "cannot erase partially" behaviour that the
// cache interface allows (Remove may fail; the caller must then clear).
type recCache struct {
	inner        kvcache.Cache
	window       int32 // window of the sliding-window (sub-)cache, MaxInt32 if there is none
	f            *simFaults
	ref          []*refSeq
	rejectMiddle bool // Remove(seq, b, e) with e != MaxInt32 is not supported
	rejectTrim   bool // Remove(seq, b>0, MaxInt32) is not supported either
	onLoad       func(seq int)
	lastFwdErr   error
	lastFullRows int // rows of the batch that was last refused with ErrKvCacheFull
	maxRows      int // rows of the largest batch the cache has been given so far
}

func (c *recCache) seq(i int) *refSeq {
	for len(c.ref) <= i {
		c.ref = append(c.ref, &refSeq{})
	}
	return c.ref[i]
}

func (c *recCache) SetLayer(layer int)                                   { c.inner.SetLayer(layer) }
func (c *recCache) Get(ctx ml.Context) (ml.Tensor, ml.Tensor, ml.Tensor) { return c.inner.Get(ctx) }
func (c *recCache) Put(ctx ml.Context, key, value ml.Tensor)             { c.inner.Put(ctx, key, value) }
func (c *recCache) SetConfig(cfg ml.CacheConfig)                         { c.inner.SetConfig(cfg) }
func (c *recCache) Close()                                               { c.inner.Close() }

func (c *recCache) Init(backend ml.Backend, dtype ml.DType, maxSequences, capacity, maxBatch int) {
	c.inner.Init(backend, dtype, maxSequences, capacity, maxBatch)
	c.ref = nil
	for i := 0; i < maxSequences; i++ {
		c.seq(i)
	}
}

func (c *recCache) StartForward(ctx ml.Context, batch input.Batch, reserve bool) error {
	if !reserve && c.window != math.MaxInt32 {
		// mirror of updateSlidingWindow (it runs before anything in StartForward can fail)
		for i, sq := range batch.Sequences {
			lowest := batch.Positions[i]
			for k, o := range batch.Sequences {
				if o == sq && batch.Positions[k] < lowest {
					lowest = batch.Positions[k]
				}
			}
			r := c.seq(sq)
			for k := range r.ents {
				if r.ents[k].pos < lowest-c.window {
					r.ents[k].evicted = true
				}
			}
		}
	}
	if !reserve && len(batch.Positions) > c.maxRows {
		c.maxRows = len(batch.Positions)
	}
	c.f.inForward = true
	before := c.f.defragRuns
	err := c.inner.StartForward(ctx, batch, reserve)
	c.f.inForward = false
	c.lastFwdErr = err
	if verifDebug && !reserve {
		debugf("cache.StartForward seqs=%v pos=%v toks=%v = %v (defrag %d)", batch.Sequences, batch.Positions, batch.Inputs.Floats(), err, c.f.defragRuns-before)
	}
	if err != nil {
		if errors.Is(err, kvcache.ErrKvCacheFull) {
			verifsim.Probe("cache_full_error")
			c.lastFullRows = len(batch.Positions)
		}
		return err
	}
	if reserve {
		return nil
	}
	toks := effTokens(batch)
	for i, p := range batch.Positions {
		r := c.seq(batch.Sequences[i])
		r.ents = append(r.ents, refEntry{pos: p, tok: int32(toks[i])})
		if c.f.defragRuns != before {
			r.op("defrag")
		}
	}
	if c.f.defragRuns != before {
		for _, r := range c.ref {
			if len(r.ents) > 0 {
				r.op("defrag")
			}
		}
	}
	return nil
}

func (c *recCache) CopyPrefix(srcSeq, dstSeq int, n int32) {
	debugf("cache.CopyPrefix(%d -> %d, %d)", srcSeq, dstSeq, n)
	verifsim.Probe("fork")
	c.inner.CopyPrefix(srcSeq, dstSeq, n)
	src, dst := c.seq(srcSeq), c.seq(dstSeq)
	dst.ents = dst.ents[:0]
	dst.undefined = src.undefined
	dst.ops, dst.kinds = nil, nil
	for _, e := range src.ents {
		if e.pos < n {
			dst.ents = append(dst.ents, e)
		}
	}
	dst.op("fork")
	src.op("forked")
}

func (c *recCache) CanResume(seq int, pos int32) bool {
	ok := c.inner.CanResume(seq, pos)
	if !ok {
		verifsim.Probe("cannot_resume")
	}
	return ok
}

func (c *recCache) Remove(seq int, beginIndex, endIndex int32) error {
	r := c.seq(seq)
	full := beginIndex == 0 && endIndex == math.MaxInt32
	if c.onLoad != nil && endIndex == math.MaxInt32 {
		c.onLoad(seq)
	}
	if !full {
		if endIndex != math.MaxInt32 && c.rejectMiddle {
			r.failedShift = true
		}
		if (endIndex != math.MaxInt32 && c.rejectMiddle) || (endIndex == math.MaxInt32 && c.rejectTrim && beginIndex < int32(len(r.ents))) {
			verifsim.Fault("partial_erase_unsupported")
			r.undefined = true
			return kvcache.ErrNotSupported
		}
	}
	if r.failedShift {
		// the call that follows a failed shift is ShiftCacheSlot's "reset the cache"
		r.failedShift = false
		verifsim.Probe("shift_fallback")
		r.op("fallback")
	}
	c.f.inRemove = true
	c.f.failShiftNow = endIndex != math.MaxInt32 && endIndex >= 0 && c.f.shiftFnFail > 0 && verifsim.Draw("shift-fn-fail", c.f.shiftFnFail) == 0
	err := c.inner.Remove(seq, beginIndex, endIndex)
	c.f.inRemove = false
	c.f.failShiftNow = false
	debugf("cache.Remove(%d, %d, %d) = %v", seq, beginIndex, endIndex, err)
	if err != nil {
		verifsim.Probe("remove_error")
		switch {
		case strings.Contains(err.Error(), "shared by multiple sequences"):
			r.op("shared-cells")
		case errors.Is(err, kvcache.ErrNotSupported):
			r.op("noshift")
		default:
			r.op("shiftfail")
		}
		r.undefined = true
		r.failedShift = endIndex != math.MaxInt32
		return err
	}
	if full {
		r.ents = r.ents[:0]
		r.undefined = false
		r.ops, r.kinds = nil, nil
		return nil
	}
	if r.undefined {
		return nil
	}
	kept := r.ents[:0]
	for _, e := range r.ents {
		switch {
		case e.pos < beginIndex:
			kept = append(kept, e)
		case e.pos >= endIndex:
			e.pos -= endIndex - beginIndex
			kept = append(kept, e)
		}
	}
	r.ents = kept
	if endIndex != math.MaxInt32 {
		verifsim.Probe("shift_ok")
		r.op("shift")
	} else if beginIndex > 0 {
		r.op("trim")
	}
	return nil
}

// ---- vocabulary ----------------------------------------------------------------------

// vocab is the per-run tokenizer table. Token 0 is EOS. forced[t] != 0: after
// t the script always emits forced[t] (continuation of a split multi-byte
// character, valid-text arm); likely[t] != 0: after t the script emits
// likely[t] three times out of four (next fragment of a stop string).
type vocab struct {
	pieces []string
	forced []int32
	likely []int32
	table  []int32 // what the script picks from when nothing is forced
	stops  []string
	valid  bool // the generated text is valid UTF-8 apart from a trailing incomplete character
}

func (v *vocab) add(p string) int32 {
	for i := 1; i < len(v.pieces); i++ {
		if v.pieces[i] == p && v.forced[i] == 0 && v.likely[i] == 0 {
			return int32(i)
		}
	}
	v.pieces = append(v.pieces, p)
	v.forced = append(v.forced, 0)
	v.likely = append(v.likely, 0)
	return int32(len(v.pieces) - 1)
}

// addNew always creates a new token (fragments of a chain need their own ids).
func (v *vocab) addNew(p string) int32 {
	v.pieces = append(v.pieces, p)
	v.forced = append(v.forced, 0)
	v.likely = append(v.likely, 0)
	return int32(len(v.pieces) - 1)
}

var vocabAlphabet = []string{"a", "b", "c", " ", "é", "€", "😀", "ab", "<", "\n"}

func drawWord(maxChars int, nAlpha int) string {
	n := 1 + verifsim.Draw("wordlen", maxChars)
	var sb strings.Builder
	for i := 0; i < n; i++ {
		sb.WriteString(vocabAlphabet[verifsim.Draw("char", nAlpha)])
	}
	return sb.String()
}

// cutPoints splits s into 2..4 byte fragments at tape-chosen offsets (any byte
// offset: a cut may fall inside a multi-byte character).
func cutPoints(s string, charBoundary bool) []string {
	if len(s) < 2 {
		return []string{s}
	}
	parts := 2 + verifsim.Draw("parts", 3)
	var cuts []int
	for i := 0; i < parts-1; i++ {
		c := 1 + verifsim.Draw("cut", len(s)-1)
		if charBoundary {
			for c < len(s) && (s[c]&0xc0) == 0x80 {
				c++
			}
			if c >= len(s) {
				continue
			}
		}
		cuts = append(cuts, c)
	}
	sort.Ints(cuts)
	var out []string
	prev := 0
	for _, c := range cuts {
		if c > prev {
			out = append(out, s[prev:c])
			prev = c
		}
	}
	out = append(out, s[prev:])
	return out
}

func drawVocab(tier string) *vocab {
	d := verifsim.Draw
	v := &vocab{pieces: []string{""}, forced: []int32{0}, likely: []int32{0}}
	v.valid = d("valid-arm", 4) != 0
	nAlpha := 3 + d("alphabet", len(vocabAlphabet)-2)

	// stop strings with shared prefixes
	nStops := d("nstops", 5)
	for i := 0; i < nStops; i++ {
		var s string
		if i > 0 && d("stop-shared", 2) == 0 {
			base := v.stops[d("stop-base", len(v.stops))]
			// extend, or cut and diverge
			if d("stop-ext", 2) == 0 {
				s = base + drawWord(2, nAlpha)
			} else {
				k := 0
				for j := range base { // rune starts
					if j > 0 && d("stop-cut", 2) == 0 {
						k = j
						break
					}
				}
				s = base[:k] + drawWord(2, nAlpha)
			}
		} else {
			s = drawWord(3, nAlpha)
		}
		dup := false
		for _, o := range v.stops {
			if o == s {
				dup = true
			}
		}
		if !dup && s != "" {
			v.stops = append(v.stops, s)
		}
	}

	// plain pieces
	for i := 0; i < nAlpha; i++ {
		if d("plain", 4) != 0 {
			v.table = append(v.table, v.add(vocabAlphabet[i]))
		}
	}
	for i, n := 0, 2+d("nwords", 6); i < n; i++ {
		v.table = append(v.table, v.add(drawWord(3, nAlpha)))
	}
	// multi-byte characters split over 2-4 tokens
	for _, ch := range []string{"é", "€", "😀", "\uFFFD"} { // U+FFFD is a valid character (EF BF BD), not only the decoder's error value
		if d("split-char", 3) == 0 {
			continue
		}
		frags := cutPoints(ch, false)
		if len(frags) < 2 {
			continue
		}
		var ids []int32
		for _, f := range frags {
			ids = append(ids, v.addNew(f))
		}
		for i := 0; i+1 < len(ids); i++ {
			if v.valid {
				v.forced[ids[i]] = ids[i+1]
			} else {
				v.likely[ids[i]] = ids[i+1]
			}
		}
		v.table = append(v.table, ids[0])
		if !v.valid {
			// continuation fragments may also appear out of place
			v.table = append(v.table, ids[1+d("frag", len(ids)-1)])
		}
	}
	// pieces that tile the stop strings
	for _, s := range v.stops {
		for rep, n := 0, 1+d("tilings", 2); rep < n; rep++ {
			frags := cutPoints(s, v.valid)
			if len(frags) < 2 {
				v.table = append(v.table, v.add(s))
				continue
			}
			// optional junk before the first and after the last fragment
			if d("junk-pre", 3) == 0 {
				frags[0] = drawWord(2, nAlpha) + frags[0]
			}
			switch d("junk-post", 4) {
			case 0:
				frags[len(frags)-1] += drawWord(2, nAlpha)
			case 1:
				if len(v.stops) > 1 {
					// the last fragment also carries (part of) another stop string:
					// one token may complete two stop strings at once
					o := v.stops[d("other-stop", len(v.stops))]
					k := len(o)
					if d("other-whole", 2) == 0 {
						k = 1 + d("other-cut", len(o))
						if v.valid {
							for k < len(o) && (o[k]&0xc0) == 0x80 {
								k++
							}
						}
					}
					frags[len(frags)-1] += o[:k]
				}
			}
			var ids []int32
			for _, f := range frags {
				ids = append(ids, v.addNew(f))
			}
			for i := 0; i+1 < len(ids); i++ {
				v.likely[ids[i]] = ids[i+1]
			}
			v.table = append(v.table, ids[0])
			if d("tail-loose", 2) == 0 {
				v.table = append(v.table, ids[len(ids)-1])
			}
		}
		if d("stop-whole", 3) == 0 {
			v.table = append(v.table, v.add(s))
		}
	}
	if !v.valid {
		for _, b := range []string{"\xff", "\x80", "\xc3", "\xe2\x82", "a\xf0\x9f"} {
			if d("invalid-byte", 2) == 0 {
				v.table = append(v.table, v.add(b))
			}
		}
	}
	if d("empty-piece", 6) == 0 {
		v.table = append(v.table, v.addNew(""))
	}
	// EOS weight
	for i, n := 0, d("eos-weight", 4); i < n; i++ {
		v.table = append(v.table, 0)
	}
	if len(v.table) == 0 {
		v.table = append(v.table, v.add("a"))
	}
	return v
}

func (v *vocab) describe() string {
	var sb strings.Builder
	fmt.Fprintf(&sb, "vocab valid=%v stops=%q pieces=[", v.valid, v.stops)
	for i, p := range v.pieces {
		if i > 0 {
			sb.WriteString(" ")
		}
		fmt.Fprintf(&sb, "%d:%q", i, p)
		if v.forced[i] != 0 {
			fmt.Fprintf(&sb, "=>%d", v.forced[i])
		}
		if v.likely[i] != 0 {
			fmt.Fprintf(&sb, "->%d", v.likely[i])
		}
	}
	sb.WriteString("]")
	return sb.String()
}

// next is the script: a pure function of the visible history (through its
// hash) and the row's own token (which is part of the visible history).
func (v *vocab) next(h uint64, last int32) int32 {
	if last >= 0 && int(last) < len(v.forced) {
		if f := v.forced[last]; f != 0 {
			return f
		}
		if l := v.likely[last]; l != 0 && h%4 != 0 {
			return l
		}
	}
	return v.table[(h>>8)%uint64(len(v.table))]
}

// ---- multimodal inputs -------------------------------------------------------------

// imgPayload is what EncodeMultimodal returns for an image: code is what the model "sees"
// for the input (stored as the token of its K/V rows, always negative), same the number of
// following inputs that must be in the same batch (a real vision model copies the image's
// embedding rows over the placeholder tokens that follow, in one graph).
type imgPayload struct {
	code int32
	same int
}

// imgPadToken is the placeholder PostTokenize puts behind an image, once per row it occupies.
const imgPadToken = 1 << 20 // outside every vocabulary: an input is a placeholder iff it carries this token

// visionModel is the scripted model of a vision run: the same model, plus model.MultimodalProcessor.
type visionModel struct{ *scriptModel }

func (m *visionModel) EncodeMultimodal(ctx ml.Context, data []byte) (any, error) {
	verifsim.Yield("sim:encode-image")
	if len(data) != 3 {
		return nil, fmt.Errorf("script model: image of %d bytes", len(data))
	}
	return imgPayload{code: -(1 + int32(data[1])*256 + int32(data[2])), same: int(data[0]) % 4}, nil
}

func (m *visionModel) PostTokenize(in []input.Input) ([]input.Input, error) {
	var out []input.Input
	for _, inp := range in {
		p, ok := inp.Multimodal.(imgPayload)
		if !ok {
			out = append(out, inp)
			continue
		}
		inp.SameBatch = p.same
		out = append(out, inp)
		for k := 0; k < p.same; k++ {
			out = append(out, input.Input{Token: imgPadToken})
		}
	}
	return out, nil
}

// effTokens is what the model is given row by row: the token, or the code of the image
// attached to the row.
func effTokens(batch input.Batch) []float32 {
	toks := append([]float32(nil), batch.Inputs.Floats()...)
	for _, mi := range batch.Multimodal {
		if p, ok := mi.Multimodal.(imgPayload); ok && mi.Index >= 0 && mi.Index < len(toks) {
			toks[mi.Index] = float32(p.code)
		}
	}
	return toks
}

// ---- scripted model ----------------------------------------------------------------

type visEnt struct {
	tok, pos int32
	uid      int32
}

type scriptModel struct {
	model.Base
	srv     *simServer
	v       *vocab
	layers  int
	kDim    int
	vDim    int
	heads   int
	wrapper *kvcache.WrapperCache // non-nil: layer l uses sub-cache l%2 (0 = sliding window, 1 = causal)
	windows []int32               // per layer: window of the sub-cache it uses (MaxInt32 = none)
	cfg     ml.CacheConfig
	uid     int32
}

func (m *scriptModel) Encode(s string, addSpecial bool) ([]int32, error) {
	var out []int32
	for _, f := range strings.Fields(s) {
		n, err := strconv.Atoi(f)
		if err != nil {
			return nil, err
		}
		out = append(out, int32(n))
	}
	return out, nil
}

func (m *scriptModel) Decode(ids []int32) (string, error) {
	var sb strings.Builder
	for _, id := range ids {
		if id < 0 || int(id) >= len(m.v.pieces) {
			return "", fmt.Errorf("script model: token %d outside the vocabulary", id)
		}
		sb.WriteString(m.v.pieces[id])
	}
	return sb.String(), nil
}

func (m *scriptModel) Is(id int32, s model.Special) bool { return s == model.SpecialEOS && id == 0 }

// shift is the model's shift function: position += offset on every key row.
func (m *scriptModel) shift(ctx ml.Context, layer int, key, shift ml.Tensor) (ml.Tensor, error) {
	f := m.srv.f
	if f.failShiftNow {
		f.failShiftNow = false
		verifsim.Fault("shift_fn_fail")
		return nil, errors.New("sim model: injected shift failure")
	}
	k := key.(*simTensor)
	sh := shift.(*simTensor)
	if k.ne[2] != sh.ne[0] {
		return nil, fmt.Errorf("sim model: shift of %d rows with %d offsets", k.ne[2], sh.ne[0])
	}
	out := ctx.Empty(k.dtype, k.ne[0], k.ne[1], k.ne[2]).(*simTensor)
	k.Copy(ctx, out)
	for j := 0; j < out.ne[2]; j++ {
		off := sh.data[sh.loc(j)]
		for h := 0; h < out.ne[1]; h++ {
			out.data[out.off+1*out.nb[0]+h*out.nb[1]+j*out.nb[2]] += off
		}
	}
	return out, nil
}

func fnv64(h uint64, x uint64) uint64 {
	for i := 0; i < 8; i++ {
		h = (h ^ (x & 0xff)) * 1099511628211
		x >>= 8
	}
	return h
}

func (m *scriptModel) Forward(ctx ml.Context, batch input.Batch) (ml.Tensor, error) {
	verifsim.Yield("sim:forward")
	srv := m.srv
	n := len(batch.Positions)
	toks := effTokens(batch)
	if len(toks) != n || len(batch.Sequences) != n {
		return nil, fmt.Errorf("script model: %d inputs, %d positions, %d sequences", len(toks), n, len(batch.Sequences))
	}
	srv.beginForward(batch, toks)
	srv.checkSameBatch(batch)

	cache := m.Config().Cache
	uid0 := m.uid
	m.uid += int32(n)
	vis := make([][][]visEnt, m.layers) // layer -> row -> visible entries
	for l := 0; l < m.layers; l++ {
		cache.SetLayer(l)
		if m.wrapper != nil {
			m.wrapper.SetLayerType(l % 2)
		}
		kd := make([]float32, 0, m.kDim*m.heads*n)
		vd := make([]float32, 0, m.vDim*m.heads*n)
		for i := 0; i < n; i++ {
			for h := 0; h < m.heads; h++ {
				salt := float32(l*16 + h)
				for d := 0; d < m.kDim; d++ {
					switch d {
					case 0:
						kd = append(kd, toks[i])
					case 1:
						kd = append(kd, float32(batch.Positions[i]))
					case 2:
						kd = append(kd, float32(uid0+int32(i)))
					default:
						kd = append(kd, salt+float32(d))
					}
				}
				for d := 0; d < m.vDim; d++ {
					switch d {
					case 0:
						vd = append(vd, float32(uid0+int32(i)))
					case 1:
						vd = append(vd, toks[i])
					default:
						vd = append(vd, salt+float32(d))
					}
				}
			}
		}
		k, err := ctx.FromFloatSlice(kd, m.kDim, m.heads, n)
		if err != nil {
			return nil, err
		}
		v, err := ctx.FromFloatSlice(vd, m.vDim, m.heads, n)
		if err != nil {
			return nil, err
		}
		cache.Put(ctx, k, v)
		hk, hv, mask := cache.Get(ctx)
		rows, bad := m.decode(l, hk.(*simTensor), hv.(*simTensor), mask.(*simTensor), n)
		if bad != "" {
			srv.dataViolation(l, bad)
		}
		vis[l] = rows
	}

	srv.checkRows(batch, toks, vis, m.windows)

	nv := len(m.v.pieces)
	logits := make([]float32, 0, len(batch.Outputs)*nv)
	for _, o := range batch.Outputs {
		if int(o) >= n || o < 0 {
			return nil, fmt.Errorf("script model: output index %d outside the batch of %d", o, n)
		}
		h := uint64(14695981039346656037)
		for l := 0; l < m.layers; l++ {
			h = fnv64(h, uint64(0xabcd+l))
			for _, e := range vis[l][o] {
				h = fnv64(h, uint64(uint32(e.tok))<<32|uint64(uint32(e.pos)))
			}
		}
		nt := m.v.next(h, int32(toks[o]))
		debugf("  %s: slot %d row %d -> next token %d", srv.name, batch.Sequences[o], o, nt)
		srv.generated(batch.Sequences[o], nt)
		row := make([]float32, nv)
		for x := range row {
			row[x] = -30
		}
		row[nt] = 30
		logits = append(logits, row...)
	}
	return ctx.FromFloatSlice(logits, nv, len(batch.Outputs))
}

// decode reads the history and mask returned by Cache.Get exactly as an
// attention kernel would index them and returns, per batch row, the entries
// whose mask value is 0. bad describes the first structural problem (mask
// value that is neither 0 nor -Inf, unmasked padding row, K/V rows that do
// not belong together).
func (m *scriptModel) decode(l int, hk, hv, mask *simTensor, n int) ([][]visEnt, string) {
	length := mask.ne[0]
	bad := ""
	note := func(f string, a ...any) {
		if bad == "" {
			bad = fmt.Sprintf(f, a...)
		}
	}
	if hk.ne[0] != m.kDim || hk.ne[1] != m.heads || hk.ne[2] != length {
		note("key history has shape %v, mask length %d", hk.ne, length)
		return make([][]visEnt, n), bad
	}
	if m.cfg.PermutedV {
		if hv.ne[0] != length || hv.ne[1] != m.vDim || hv.ne[2] != m.heads {
			note("permuted value history has shape %v, mask length %d", hv.ne, length)
			return make([][]visEnt, n), bad
		}
	} else if hv.ne[0] != m.vDim || hv.ne[1] != m.heads || hv.ne[2] != length {
		note("value history has shape %v, mask length %d", hv.ne, length)
		return make([][]visEnt, n), bad
	}
	if mask.ne[1] < n {
		note("mask has %d rows for a batch of %d", mask.ne[1], n)
		return make([][]visEnt, n), bad
	}
	vAt := func(d, h, j int) float32 {
		if m.cfg.PermutedV {
			return hv.at(j, d, h)
		}
		return hv.at(d, h, j)
	}
	rows := make([][]visEnt, n)
	for i := 0; i < mask.ne[1]; i++ {
		for j := 0; j < length; j++ {
			mv := mask.at(j, i, 0)
			if mv != 0 {
				if !math.IsInf(float64(mv), -1) {
					note("mask value %v at history %d, row %d", mv, j, i)
				}
				continue
			}
			if i >= n {
				note("padding row %d of the mask is not fully masked", i)
				continue
			}
			e := visEnt{tok: int32(hk.at(0, 0, j)), pos: int32(hk.at(1, 0, j)), uid: int32(hk.at(2, 0, j))}
			for h := 0; h < m.heads; h++ {
				salt := float32(l*16 + h)
				if int32(hk.at(0, h, j)) != e.tok || int32(hk.at(1, h, j)) != e.pos || int32(hk.at(2, h, j)) != e.uid {
					note("key heads of history cell %d disagree", j)
				}
				for d := 3; d < m.kDim; d++ {
					if hk.at(d, h, j) != salt+float32(d) {
						note("key of history cell %d carries data of another layer/head", j)
					}
				}
				if int32(vAt(0, h, j)) != e.uid || int32(vAt(1, h, j)) != e.tok {
					note("value of history cell %d (uid %d token %d) does not belong to its key (uid %d token %d)", j, int32(vAt(0, h, j)), int32(vAt(1, h, j)), e.uid, e.tok)
				}
				for d := 2; d < m.vDim; d++ {
					if vAt(d, h, j) != salt+float32(d) {
						note("value of history cell %d carries data of another layer/head", j)
					}
				}
			}
			rows[i] = append(rows[i], e)
		}
	}
	for i := range rows {
		r := rows[i]
		sort.SliceStable(r, func(a, b int) bool { return r[a].pos < r[b].pos })
	}
	return rows, bad
}
