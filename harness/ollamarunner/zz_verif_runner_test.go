//go:build verif

package ollamarunner

// H-runner: the real ollamarunner.Server (run loop, completion handler, input
// cache; runner.go and cache.go instrumented) with the real kvcache
// (Causal / sliding-window / wrapper, uninstrumented: no concurrency of its
// own) under the simulated scheduler, with a scripted model on a simulated
// backend and clients that call the real completion handler over an in-memory
// ResponseWriter. Decides C07 and C14. DESIGN.md sections 3.8 and 5.

import (
	"bytes"
	"context"
	"encoding/json"
	"errors"
	"fmt"
	"io"
	"log/slog"
	"math"
	"net/http"
	"os"
	"runtime"
	"strconv"
	"strings"
	"testing"
	"time"

	"golang.org/x/sync/semaphore"

	"github.com/ollama/ollama/api"
	"github.com/ollama/ollama/kvcache"
	"github.com/ollama/ollama/llm"
	"github.com/ollama/ollama/ml"
	"github.com/ollama/ollama/model"
	"github.com/ollama/ollama/verifsim"
)

const (
	cacheCausal = iota
	cacheSWA
	cacheWrapper
)

const (
	shiftOK          = iota
	shiftUnsupported // the model has no shift function (kvcache.ErrNotSupported)
	shiftFnFails     // the shift function fails now and then
	shiftAllocFails  // the backend fails to allocate the offsets tensor now and then
)

type runCfg struct {
	arm       int // 0 fault-free, 1 client-side faults, 2 cache-side (+ client-side) faults
	parallel  int
	numCtx    int
	batch     int
	multiUser bool
	cacheKind int
	window    int32
	shiftMode int
	failN     int
	eraseMode int // 0 everything supported, 1 no middle removal, 2 no partial removal at all
	cc        ml.CacheConfig
	maxNodes  int
	layers    int
	kDim      int
	vDim      int
	heads     int
	kvType    string

	nClients     int
	reqPerClient int
	cancelRate   int // 1/n of the requests are cancelled by their client (0 = none)
	slowRate     int
	writeErrRate int
	textBias     bool // C14: favour generation over cache pressure
	vision       bool // C07: the model is a model.MultimodalProcessor, prompts carry [img-n] tags
}

func (c *runCfg) String() string {
	kind := [...]string{"causal", "swa", "wrapper(swa+causal)"}[c.cacheKind]
	shift := [...]string{"ok", "unsupported", "fn-fails", "alloc-fails"}[c.shiftMode]
	return fmt.Sprintf("arm=%d vision=%v parallel=%d ctx=%d batch=%d multiuser=%v cache=%s window=%d shift=%s erase=%d padding=%d permutedV=%v maskF16=%v maskBatchPad=%d maxNodes=%d layers=%d k=%d v=%d heads=%d clients=%d x%d cancel=1/%d slow=1/%d writeErr=1/%d",
		c.arm, c.vision, c.parallel, c.numCtx, c.batch, c.multiUser, kind, c.window, shift, c.eraseMode, c.cc.CachePadding, c.cc.PermutedV, c.cc.MaskDType == ml.DTypeF16, c.cc.MaskBatchPadding, c.maxNodes, c.layers, c.kDim, c.vDim, c.heads, c.nClients, c.reqPerClient, c.cancelRate, c.slowRate, c.writeErrRate)
}

func drawRunCfg(prop, tier string) *runCfg {
	d := verifsim.Draw
	c := &runCfg{}
	switch d("arm", 10) {
	case 0, 1, 2, 3:
		c.arm = 0
	case 4, 5, 6:
		c.arm = 1
	default:
		c.arm = 2
	}
	c.textBias = prop == "C14" && d("text-bias", 4) != 0
	c.parallel = 1 + d("parallel", 4)
	ctxs := []int{2, 3, 4, 6, 8, 8, 12, 16, 16, 24, 32, 48, 64}
	if c.textBias {
		ctxs = []int{8, 16, 32, 48, 64, 64}
	}
	c.numCtx = ctxs[d("ctx", len(ctxs))]
	c.batch = 1 + d("batch", 8)
	if d("bigbatch", 8) == 0 {
		c.batch = 16
	}
	c.multiUser = d("multiuser", 2) == 0
	c.cacheKind = []int{cacheCausal, cacheCausal, cacheSWA, cacheWrapper}[d("cachekind", 4)]
	c.window = math.MaxInt32
	if c.cacheKind != cacheCausal {
		ws := []int{1, 2, 3, 4, 8, c.numCtx / 2, c.numCtx, c.numCtx + 3}
		c.window = int32(max(1, ws[d("window", len(ws))]))
	}
	if c.arm == 2 {
		switch d("cachefault", 6) {
		case 0, 1:
			c.shiftMode = shiftUnsupported
		case 2:
			c.shiftMode = shiftFnFails
			c.failN = 1 + d("failn", 3)
		case 3:
			c.shiftMode = shiftAllocFails
			c.failN = 1 + d("failn", 3)
		case 4:
			c.eraseMode = 1
		default:
			c.eraseMode = 2
		}
	}
	c.cc.CachePadding = []int{0, 1, 2, 4, 8, 32}[d("padding", 6)]
	c.cc.PermutedV = d("permutedv", 2) == 0
	if d("maskf16", 3) == 0 {
		c.cc.MaskDType = ml.DTypeF16
	}
	c.cc.MaskBatchPadding = []int{0, 1, 2, 4, 32}[d("maskpad", 5)]
	c.layers = 1 + d("layers", 2)
	if c.cacheKind == cacheWrapper {
		c.layers = 2
	}
	c.maxNodes = []int{8 * c.layers, 14 * c.layers, 64, 8192}[d("maxnodes", 4)]
	c.kDim = 3 + d("kdim", 3)
	c.vDim = 2 + d("vdim", 3)
	c.heads = 1 + d("heads", 2)
	c.kvType = []string{"", "f16", "f32"}[d("kvtype", 3)]

	maxClients := 5
	if tier == "thorough" {
		maxClients = 9
	}
	c.nClients = 2 + d("clients", maxClients)
	if d("single-client", 10) == 0 {
		c.nClients = 1
	}
	c.reqPerClient = 1 + d("reqs", 3)
	if tier == "thorough" {
		c.reqPerClient = 1 + d("reqs", 5)
	}
	if c.arm != 0 {
		c.cancelRate = []int{0, 3, 6, 10}[d("cancelrate", 4)]
		c.slowRate = []int{0, 4, 8}[d("slowrate", 3)]
		c.writeErrRate = []int{0, 0, 8}[d("writeerr", 3)]
		if c.arm == 1 && c.cancelRate == 0 && c.slowRate == 0 && c.writeErrRate == 0 {
			c.cancelRate = 4
		}
	}
	// one C07 run in four drives the multimodal input path (Server.inputs with [img-n] tags,
	// EncodeMultimodal / PostTokenize, MultimodalHash in the prefix comparison, SameBatch groups)
	c.vision = prop == "C07" && d("vision", 4) == 0
	if c.vision && c.numCtx < 8 {
		// an image occupies up to four inputs that must share a batch: contexts that cannot
		// hold one next to a little text are not a configuration of a vision model
		c.numCtx = 8
	}
	if c.vision && c.cacheKind != cacheCausal && c.batch < 4 && d("vision-small-batch", 4) != 0 {
		// A batch that a SameBatch group extends beyond the configured batch size does not fit
		// a sliding-window cache (sized window + batch per sequence): the run loop dies (open
		// finding panic:run-loop:kv-cache-full:batch-extended-beyond-batch-size). Three
		// windowed vision runs in four stay clear of it so that the search goes on behind it.
		c.batch = 4
	}
	return c
}

// ---- one Server under test -------------------------------------------------------------

type liveSeq struct {
	seq *Sequence
	req *reqState
}

type simServer struct {
	name     string
	w        *runWorld
	cfg      *runCfg
	parallel int
	f        *simFaults
	be       *simBackend
	rec      *recCache
	m        *scriptModel
	s        *Server
	cancel   context.CancelFunc
	fatal    string
	exited   bool
	slotReq  []*reqState
	live     []liveSeq
	taskReq  map[string]*reqState
	forwards int
	clean    bool // no injected cache-side faults (reference servers)
}

func (w *runWorld) newServer(name string, parallel, batch int, clean bool) *simServer {
	cfg := w.cfg
	srv := &simServer{name: name, w: w, cfg: cfg, parallel: parallel, f: &simFaults{}, taskReq: map[string]*reqState{}, clean: clean}
	srv.be = &simBackend{cfg: cfg.cc, maxNodes: cfg.maxNodes, f: srv.f}
	m := &scriptModel{srv: srv, v: w.v, layers: cfg.layers, kDim: cfg.kDim, vDim: cfg.vDim, heads: cfg.heads, cfg: cfg.cc}
	var shift func(ctx ml.Context, layer int, key, shift ml.Tensor) (ml.Tensor, error)
	if cfg.shiftMode != shiftUnsupported {
		shift = m.shift
	}
	var inner kvcache.Cache
	switch cfg.cacheKind {
	case cacheCausal:
		inner = kvcache.NewCausalCache(shift)
		for l := 0; l < cfg.layers; l++ {
			m.windows = append(m.windows, math.MaxInt32)
		}
	case cacheSWA:
		inner = kvcache.NewSWACache(cfg.window, shift)
		for l := 0; l < cfg.layers; l++ {
			m.windows = append(m.windows, cfg.window)
		}
	default:
		wc := kvcache.NewWrapperCache(kvcache.NewSWACache(cfg.window, shift), kvcache.NewCausalCache(shift))
		m.wrapper = wc
		inner = wc
		for l := 0; l < cfg.layers; l++ {
			if l%2 == 0 {
				m.windows = append(m.windows, cfg.window)
			} else {
				m.windows = append(m.windows, math.MaxInt32)
			}
		}
	}
	srv.rec = &recCache{inner: inner, f: srv.f, window: cfg.window}
	if !clean {
		srv.rec.rejectMiddle = cfg.eraseMode >= 1
		srv.rec.rejectTrim = cfg.eraseMode >= 2
		switch cfg.shiftMode {
		case shiftFnFails:
			srv.f.shiftFnFail = cfg.failN
		case shiftAllocFails:
			srv.f.shiftIntFail = cfg.failN
		}
	}
	srv.rec.onLoad = srv.slotLoaded
	m.Base = model.NewBaseForVerif(srv.be, srv.rec)
	srv.m = m

	var mm model.Model = m
	if cfg.vision {
		mm = &visionModel{m}
	}
	s := &Server{batchSize: batch, model: mm, parallel: parallel, status: llm.ServerStatusReady}
	var err error
	s.cache, err = NewInputCache(mm, cfg.kvType, int32(cfg.numCtx*parallel), parallel, batch, cfg.multiUser)
	if err != nil {
		panic(err)
	}
	s.seqs = make([]*Sequence, parallel)
	s.seqsSem = semaphore.NewWeighted(int64(parallel))
	s.cond = verifsim.NewCond(&s.mu)
	srv.s = s
	srv.slotReq = make([]*reqState, parallel)
	return srv
}

// start runs the Server's own run loop as a task. The loop panics on a
// processBatch error: the runner process dies (its parent restarts it and
// every request in flight is lost). After an injected backend failure that is
// the designed reaction and merely ends this server; without one it is a crash
// of the code under test and is reported (class panic, against C07: every
// such error comes from cache / slot management). Any other panic goes to the
// kernel's panic capture.
func (srv *simServer) start() {
	ctx, cancel := context.WithCancel(context.Background())
	srv.cancel = cancel
	verifsim.Go("run:"+srv.name, func() {
		defer func() {
			srv.exited = true
			if r := recover(); r != nil {
				if fmt.Sprintf("%T", r) == "verifsim.crashSentinel" {
					panic(r) // the kernel unwinding this task at teardown
				}
				if err, ok := r.(error); ok && srv.isBatchError(err) {
					srv.fatal = err.Error()
					verifsim.Probe("runner_fatal_batch_error")
					cl := fatalClass(srv.fatal)
					if cl == "kv-cache-full" && srv.rec.maxRows > srv.s.batchSize {
						// a batch larger than the batch size the cache was initialised for has been
						// stored (or was refused just now): a SameBatch group extended it (vision runs
						// only). A sliding-window sequence keeps its window plus its last batch, so the
						// batch that no longer fits may be a later, ordinary one of another sequence.
						cl = "kv-cache-full:batch-extended-beyond-batch-size"
					}
					if cl != "injected-backend-failure" {
						srv.w.violate("C07", "panic", "panic:run-loop:"+cl, "%s: the run loop panicked with a processBatch error (the runner process dies): %s\n  slots: %s", srv.name, srv.fatal, srv.slotSummary())
					}
					return
				}
				// a crash of the code under test (in production the runner process dies)
				buf := make([]byte, 16384)
				buf = buf[:runtime.Stack(buf, false)]
				msg := fmt.Sprint(r)
				srv.fatal = msg
				srv.w.violate(srv.w.prop, "panic", "panic:"+panicKind(msg)+"@"+verifsim.StackRepoFunc(string(buf)), "%s: unrecovered panic in the run loop: %s\n%s", srv.name, msg, buf)
			}
		}()
		srv.s.run(ctx)
	})
}

func (srv *simServer) slotSummary() string {
	var sb strings.Builder
	for i := range srv.s.cache.slots {
		sl := &srv.s.cache.slots[i]
		fmt.Fprintf(&sb, "slot %d: %d inputs inUse=%v; ", i, len(sl.Inputs), sl.InUse)
	}
	return sb.String()
}

// isBatchError recognises the errors processBatch returns on purpose.
func (srv *simServer) isBatchError(err error) bool {
	msg := err.Error()
	return strings.Contains(msg, "failed to decode batch") || strings.Contains(msg, "unable to shift context") ||
		strings.Contains(msg, "failed to sample token") || strings.Contains(msg, "caching disabled")
}

func (srv *simServer) stop(sim *verifsim.Sim) {
	if srv.cancel != nil {
		srv.cancel()
	}
}

// slotLoaded is called (through the cache proxy) on the goroutine that runs
// LoadCacheSlot, i.e. the handler of the request that is taking the slot.
func (srv *simServer) slotLoaded(slot int) {
	if r := srv.taskReq[verifsim.TaskKey()]; r != nil && slot < len(srv.slotReq) {
		srv.slotReq[slot] = r
		r.slot = slot
		r.admitted = true
	}
}

// ---- requests and clients ---------------------------------------------------------------

type reqState struct {
	id         int
	client     int
	prompt     []int32
	numPredict int
	numKeep    int
	stops      []string

	cancelAfterWrites int // cancel the request context after this many response writes (-1: never)
	cancelAfter       time.Duration
	writeErrAt        int // the k-th write fails (-1: never)
	slow              time.Duration

	// observations
	admitted   bool
	slot       int
	gen        []int32 // tokens the model emitted for this request, in order (EOS included)
	lastRec    []int32 // the slot's record (Inputs + pending) at the last Forward of this request
	finalRec   []int32 // the slot's record when the sequence was removed
	haveFinal  bool
	seen       bool
	seenCached bool // the request started on a slot that already held a prefix of its prompt
	forwards   int
	shifted    bool
	pieces     []string
	final      *llm.CompletionResponse
	status     int
	errBody    string
	cancelled  bool // the client cancelled or its connection broke
	done       bool
	unresolved bool // a reference run did not finish within its budget
}

// promptString renders a prompt for the scripted tokenizer: tokens as decimal numbers, a
// negative entry -(k+1) as the tag [img-k] (image k of the run's pool; vision runs only).
func promptString(t []int32) string {
	var sb strings.Builder
	for i, x := range t {
		if i > 0 {
			sb.WriteByte(' ')
		}
		if x < 0 {
			fmt.Fprintf(&sb, "[img-%d]", -x-1)
		} else {
			sb.WriteString(strconv.Itoa(int(x)))
		}
	}
	return sb.String()
}

// promptImages lists the images a prompt refers to, each once, in the order of the pool.
func (w *runWorld) promptImages(t []int32) []llm.ImageData {
	var out []llm.ImageData
	for k := range w.images {
		for _, x := range t {
			if x == int32(-k-1) {
				out = append(out, llm.ImageData{ID: k, Data: w.images[k]})
				break
			}
		}
	}
	return out
}

func tokensString(t []int32) string {
	var sb strings.Builder
	for i, x := range t {
		if i > 0 {
			sb.WriteByte(' ')
		}
		sb.WriteString(strconv.Itoa(int(x)))
	}
	return sb.String()
}

func (r *reqState) String() string {
	p := promptString(r.prompt)
	if len(p) > 120 {
		p = p[:120] + "..."
	}
	return fmt.Sprintf("req#%d client=%d prompt(%d)=[%s] predict=%d keep=%d stop=%q cancelWrites=%d cancelAfter=%v writeErrAt=%d slow=%v",
		r.id, r.client, len(r.prompt), p, r.numPredict, r.numKeep, r.stops, r.cancelAfterWrites, r.cancelAfter, r.writeErrAt, r.slow)
}

type memWriter struct {
	hdr    http.Header
	buf    bytes.Buffer
	code   int
	writes int
	r      *reqState
	cancel context.CancelFunc
}

func (w *memWriter) Header() http.Header { return w.hdr }
func (w *memWriter) WriteHeader(c int) {
	// like net/http: the status line goes out with the first Write; later calls are ignored
	if w.code == 0 && w.writes == 0 {
		w.code = c
	}
}
func (w *memWriter) Flush() {}
func (w *memWriter) Write(b []byte) (int, error) {
	verifsim.Yield("client:write")
	w.writes++
	r := w.r
	if r.writeErrAt >= 0 && w.writes > r.writeErrAt {
		if !r.cancelled {
			verifsim.Fault("response_write_error")
		}
		r.cancelled = true
		return 0, errors.New("sim: write: broken pipe")
	}
	if r.slow > 0 {
		verifsim.Sleep(r.slow)
	}
	w.buf.Write(b)
	if r.cancelAfterWrites >= 0 && w.writes > r.cancelAfterWrites && !r.cancelled {
		r.cancelled = true
		verifsim.Fault("client_cancel_after_writes")
		w.cancel()
	}
	return len(b), nil
}

type runWorld struct {
	t       *testing.T
	prop    string
	tier    string
	cfg     *runCfg
	v       *vocab
	main    *simServer
	bases   [][]int32
	images  [][]byte // vision runs: the pool of images prompts refer to
	reqs    []*reqState
	nDone   int // clients finished
	desc    []string
	nextReq int
	other   map[string]int // violations of the property that is not being checked in this run
	tainted bool           // VERIF_IGNORE matched in this run
	cancels []context.CancelFunc
	closing bool // teardown has begun: no new requests
}

func (w *runWorld) note(f string, a ...any) {
	if len(w.desc) < 70 {
		w.desc = append(w.desc, fmt.Sprintf(f, a...))
	}
	if verifDebug {
		fmt.Fprintf(os.Stderr, "  | "+f+"\n", a...)
	}
}

// debugf prints the harness-level story of a run (VERIF_DEBUG=1, replay by hand).
func debugf(f string, a ...any) {
	if verifDebug {
		fmt.Fprintf(os.Stderr, "  | "+f+"\n", a...)
	}
}

var verifDebug = os.Getenv("VERIF_DEBUG") != ""

// VERIF_IGNORE=substr,substr: development aid (never set by registered checks): violations whose
// signature contains one of the substrings are counted and dropped, so that the search can be
// continued past a finding that is already understood.
var verifIgnore = strings.Split(os.Getenv("VERIF_IGNORE"), ",")

// VERIF_ALLPROPS=1: development aid (never set by registered checks): violations found by the oracle of
// the property that is not being checked are reported too (signature prefix other:<ID>:).
var verifAllProps = os.Getenv("VERIF_ALLPROPS") != ""

func (w *runWorld) violate(prop, class, sig, f string, a ...any) {
	if prop != w.prop {
		// the other property's oracle: its check reports it; do not cut this run short
		w.other[prop+":"+sig]++
		if !verifAllProps {
			return
		}
		// development aid: chase a violation of the other property seen in this property's configurations
		sig = "other:" + prop + ":" + sig
		prop = w.prop
	}
	if w.tainted {
		return
	}
	for _, ig := range verifIgnore {
		if ig != "" && strings.Contains(sig, ig) {
			// like a known finding: the run is counted and discarded, later symptoms of the same run too
			w.other["ignored:"+sig]++
			w.tainted = true
			return
		}
	}
	verifsim.Violate(prop, class, sig, fmt.Sprintf(f, a...)+"\n  config: "+w.cfg.String()+"\n  "+w.v.describe())
}

func (w *runWorld) drawToken() int32 {
	n := len(w.v.pieces) - 1
	if n > 6 {
		n = 6
	}
	if n < 1 {
		return 0
	}
	if len(w.images) > 0 && verifsim.Draw("img?", 6) == 0 {
		verifsim.Probe("image_in_prompt")
		return int32(-1 - verifsim.Draw("img", len(w.images)))
	}
	return int32(1 + verifsim.Draw("tok", n))
}

// drawImages fills the pool of a vision run. data[0] decides how many following inputs the
// image needs in its batch (SameBatch 0..3), data[1] is the index, data[2] makes the content
// differ between runs.
func (w *runWorld) drawImages() {
	if !w.cfg.vision {
		return
	}
	for k, n := 0, 1+verifsim.Draw("nimages", 3); k < n; k++ {
		w.images = append(w.images, []byte{byte(verifsim.Draw("img-same", 4)), byte(k), byte(verifsim.Draw("img-bits", 250))})
	}
}

func (w *runWorld) drawTokens(n int) []int32 {
	out := make([]int32, 0, n)
	for i := 0; i < n; i++ {
		out = append(out, w.drawToken())
	}
	return out
}

func (w *runWorld) drawBases() {
	d := verifsim.Draw
	nc := w.cfg.numCtx
	for i, n := 0, 1+d("nbases", 3); i < n; i++ {
		var l int
		switch d("baselen", 7) {
		case 0:
			l = 1 + d("l", 3)
		case 1, 2:
			l = 1 + d("l", max(1, nc/2))
		case 3:
			l = max(1, nc-2+d("l", 3))
		case 4:
			l = nc + 1 + d("l", nc)
		case 5:
			l = 1 + d("l", nc)
		default:
			l = max(1, nc/2+d("l", max(1, nc/2)))
		}
		if w.cfg.textBias {
			l = 1 + d("l", max(1, nc/4))
		}
		w.bases = append(w.bases, w.drawTokens(l))
	}
}

// drawRequest is called by the client task when it is about to send: the
// prompt may build on what earlier requests produced.
func (w *runWorld) drawRequest(client int) *reqState {
	d := verifsim.Draw
	cfg := w.cfg
	r := &reqState{id: w.nextReq, client: client, cancelAfterWrites: -1, writeErrAt: -1, slot: -1}
	w.nextReq++
	var finished []*reqState
	for _, o := range w.reqs {
		if o.done {
			finished = append(finished, o)
		}
	}
	kind := d("promptkind", 8)
	if len(finished) == 0 && kind >= 5 {
		kind = d("promptkind2", 5)
	}
	b := w.bases[d("base", len(w.bases))]
	switch kind {
	case 0, 1:
		r.prompt = append([]int32(nil), b...)
	case 2, 3:
		r.prompt = append(append([]int32(nil), b...), w.drawTokens(d("suffix", 7))...)
	case 4:
		cut := 1 + d("cut", len(b))
		r.prompt = append(append([]int32(nil), b[:cut]...), w.drawTokens(d("suffix", 5))...)
	case 5:
		o := finished[d("prev", len(finished))]
		r.prompt = append([]int32(nil), o.prompt...)
	default:
		// conversation continuation: previous prompt + what was generated + a new turn
		o := finished[d("prev", len(finished))]
		r.prompt = append([]int32(nil), o.prompt...)
		for _, t := range o.gen {
			if t != 0 {
				r.prompt = append(r.prompt, t)
			}
		}
		r.prompt = append(r.prompt, w.drawTokens(1+d("turn", 4))...)
		if len(r.prompt) > 4*cfg.numCtx+8 {
			r.prompt = r.prompt[:4*cfg.numCtx+8]
		}
	}
	if len(r.prompt) == 0 {
		r.prompt = []int32{1}
	}
	unlimited := false
	switch d("predict", 8) {
	case 0:
		r.numPredict = []int{-1, 0}[d("unl", 2)]
		unlimited = true
	case 1:
		r.numPredict = 1
	case 2:
		r.numPredict = 2 + d("np", 4)
	case 3:
		// now and then a generation longer than the response channel is deep (100): with a
		// slow reader the run loop meets a full channel, also when the sequence ends
		r.numPredict = 1 + d("np", 40)
		if d("long", 3) == 0 {
			r.numPredict = 101 + d("np-long", 60)
		}
	default:
		r.numPredict = 1 + d("np", 40)
	}
	switch d("keep", 6) {
	case 0:
		r.numKeep = 0
	case 1:
		r.numKeep = 1 + d("k", 3)
	case 2:
		r.numKeep = cfg.numCtx / 2
	case 3:
		r.numKeep = -1
	case 4:
		r.numKeep = cfg.numCtx + 5
	default:
		r.numKeep = 4
	}
	if len(w.v.stops) > 0 {
		for _, i := range verifsim.Perm(len(w.v.stops)) {
			if d("usestop", 3) != 0 {
				r.stops = append(r.stops, w.v.stops[i])
			}
		}
	}
	if cfg.cancelRate > 0 && d("cancel", cfg.cancelRate) == 0 {
		if d("cancelkind", 2) == 0 {
			r.cancelAfterWrites = d("cancelwrites", 6)
		} else {
			r.cancelAfter = time.Duration(1+d("cancelus", 3000)) * time.Microsecond
		}
	}
	if cfg.slowRate > 0 && d("slow", cfg.slowRate) == 0 {
		r.slow = time.Duration(1+d("slowus", 2000)) * time.Microsecond
	}
	if cfg.writeErrRate > 0 && d("writeerr", cfg.writeErrRate) == 0 {
		r.writeErrAt = d("writeerrat", 5)
	}
	if unlimited && r.cancelAfter == 0 && r.cancelAfterWrites < 0 {
		// an unlimited request ends at EOS, or when its client gives up
		r.cancelAfter = time.Duration(2000+d("giveup", 20000)) * time.Microsecond
	}
	return r
}

// doRequest sends r to srv through the real handler and records the stream.
func (w *runWorld) doRequest(srv *simServer, r *reqState) {
	key := verifsim.TaskKey()
	srv.taskReq[key] = r
	opts := api.DefaultOptions()
	opts.Temperature = 0
	opts.NumPredict = r.numPredict
	opts.NumKeep = r.numKeep
	opts.Stop = r.stops
	body, err := json.Marshal(llm.CompletionRequest{Prompt: promptString(r.prompt), Images: w.promptImages(r.prompt), Options: &opts})
	if err != nil {
		panic(err)
	}
	ctx, cancel := context.WithCancel(context.Background())
	w.cancels = append(w.cancels, cancel)
	hr, _ := http.NewRequestWithContext(ctx, "POST", "/completion", bytes.NewReader(body))
	mw := &memWriter{hdr: http.Header{}, r: r, cancel: cancel}
	if r.cancelAfter > 0 {
		verifsim.Go("cancel#"+strconv.Itoa(r.id), func() {
			verifsim.Sleep(r.cancelAfter)
			if !r.done && !r.cancelled {
				r.cancelled = true
				verifsim.Fault("client_cancel_timer")
				cancel()
			}
		})
	}
	srv.s.completion(mw, hr)
	verifsim.Yield("client:returned")
	cancel()
	delete(srv.taskReq, key)
	r.status = mw.code
	if r.status == 0 {
		r.status = 200
	}
	dec := json.NewDecoder(&mw.buf)
	for {
		var cr llm.CompletionResponse
		if err := dec.Decode(&cr); err != nil {
			if err != io.EOF {
				rest, _ := io.ReadAll(io.MultiReader(dec.Buffered(), &mw.buf))
				r.errBody = strings.TrimSpace(string(rest))
			}
			break
		}
		if cr.Done {
			c := cr
			r.final = &c
			continue
		}
		r.pieces = append(r.pieces, cr.Content)
	}
	r.done = true
}

func (w *runWorld) client(ci int) {
	d := verifsim.Draw
	for k := 0; k < w.cfg.reqPerClient; k++ {
		verifsim.Sleep(time.Duration(d("think", 400)) * time.Microsecond * time.Duration(1+9*d("think-long", 2)))
		if w.main.exited || w.closing {
			break
		}
		r := w.drawRequest(ci)
		w.reqs = append(w.reqs, r)
		w.note("%s", r)
		w.doRequest(w.main, r)
		w.afterRequest(w.main, r)
	}
	w.nDone++
}

// ---- the run -------------------------------------------------------------------------------

func panicKind(msg string) string {
	switch {
	case strings.Contains(msg, "slice bounds out of range"):
		return "slice-bounds"
	case strings.Contains(msg, "index out of range"):
		return "index-range"
	case strings.Contains(msg, "nil pointer dereference"):
		return "nil-deref"
	case strings.Contains(msg, "sim backend"):
		return "backend-misuse"
	case strings.Contains(msg, "divide by zero"):
		return "div-zero"
	}
	return "other"
}

func fatalClass(msg string) string {
	switch {
	case strings.Contains(msg, "could not find a kv cache slot"):
		return "kv-cache-full"
	case strings.Contains(msg, "unable to shift context"):
		return "keep-exceeds-context"
	case strings.Contains(msg, "sim backend"):
		return "injected-backend-failure"
	}
	return "other"
}

func verifQuietLogs() {
	slog.SetDefault(slog.New(slog.NewTextHandler(io.Discard, &slog.HandlerOptions{Level: slog.LevelError + 8})))
}

func runRunner(t *testing.T, tape *verifsim.Tape, prop, tier string, keepLog bool) verifsim.Result {
	return verifsim.Run(t, tape, keepLog, func(sim *verifsim.Sim, res *verifsim.Result) {
		cfg := drawRunCfg(prop, tier)
		w := &runWorld{t: t, prop: prop, tier: tier, cfg: cfg, other: map[string]int{}}
		w.v = drawVocab(tier)
		w.drawImages()
		w.drawBases()
		w.note("config: %s", cfg)
		w.note("%s", w.v.describe())
		res.Info["arm"+strconv.Itoa(cfg.arm)]++

		w.main = w.newServer("main", cfg.parallel, cfg.batch, false)
		srv := w.main
		srv.start()

		states := map[uint64]bool{}
		sim.OnStep = func() {
			srv.onStep()
			if len(states) < 2048 {
				states[srv.stateHash()] = true
			}
		}
		for i := 0; i < cfg.nClients; i++ {
			i := i
			sim.Go("client"+strconv.Itoa(i), func() { w.client(i) })
		}
		stepBudget := 60000
		if tier == "thorough" {
			stepBudget = 200000
		}
		stop := sim.RunUntil(func() bool { return w.nDone == cfg.nClients }, 10*time.Minute, stepBudget)
		res.Info["stop_"+stop.String()]++
		if stop == verifsim.Idle {
			// nothing can run any more although clients are waiting
			if srv.fatal != "" {
				res.Info["runner_fatal"]++
				res.Info["runner_fatal:"+[...]string{"causal", "swa", "wrapper"}[cfg.cacheKind]+":"+fatalClass(srv.fatal)]++
				w.note("run loop ended: %s", srv.fatal)
			} else {
				res.Info["stuck"]++
				_, detail := sim.BlockedSummary()
				w.note("STUCK: %s", detail)
			}
		}
		if stop == verifsim.CondTrue && srv.fatal == "" {
			// sequences of cancelled requests live on until the run loop notices: let them
			// leave, so that the slot bookkeeping of every request is checked at its end
			stop = sim.RunUntil(func() bool { return !srv.s.mu.Held() && srv.s.allNil() }, time.Minute, 20000)
			if stop != verifsim.CondTrue {
				res.Info["drain_"+stop.String()]++
			}
		}
		srv.onStep()
		sim.OnStep = nil
		// the main server is finished: its run loop must not run during the reference phase
		srv.stop(sim)
		sim.AbortCondWaiters()

		if stop == verifsim.CondTrue && prop == "C07" && srv.fatal == "" {
			w.differential(sim, res)
		}

		for _, r := range w.reqs {
			switch {
			case !r.done:
				res.Info["req_unfinished"]++
			case r.cancelled:
				res.Info["req_cancelled"]++
			case r.final != nil:
				res.Info["req_completed"]++
			default:
				res.Info["req_error"]++
			}
			res.Info["tokens_generated"] += len(r.gen)
		}
		res.Info["forwards"] += srv.forwards
		for k, n := range w.other {
			res.Info["other_property_violation:"+k] += n
		}
		for h := range states {
			res.States = append(res.States, h)
		}
		res.Sample = w.desc

		// teardown: nothing may stay behind (a goroutine abandoned with the bubble is never
		// collected, nor is the Server, cache and vocabulary it refers to): end every request,
		// stop the run loops, then unwind whatever is still parked.
		sim.OnStep = nil
		w.closing = true
		for _, c := range w.cancels {
			c()
		}
		srv.stop(sim)
		sim.Drain(100*time.Millisecond, 20000)
		sim.AbortCondWaiters()
		sim.Crash()
		if n := sim.LiveTasks(); n > 0 {
			res.Info["tasks_left_behind"] += n
			if verifDebug {
				for _, t := range sim.Blocked() {
					res.Info["left:"+t.Name()+"@"+t.Label()]++
				}
			}
		}
	})
}

func TestVerifRunner(t *testing.T) {
	verifQuietLogs()
	verifsim.WorkerMain(t, verifsim.Harness{
		Name:       "runner",
		RunOne:     runRunner,
		PanicProps: []string{"C07", "C14"},
		Real: []string{"runner/ollamarunner/runner.go (instrumented: Server.run, processBatch, completion handler, NewSequence, flushPending, removeSequence)",
			"runner/ollamarunner/cache.go (instrumented: InputCache, LoadCacheSlot, findLongest/BestCacheSlot, ShiftCacheSlot)",
			"kvcache.Causal / sliding-window / WrapperCache (unmodified)", "model.Forward", "sample.Sampler (greedy)", "runner/common/stop.go", "golang.org/x/sync/semaphore", "encoding/json stream encoding of llm.CompletionResponse"},
		Stub: []string{"ml.Backend/Context/Tensor (simBackend: eager float32 tensors with ggml view/permute/copy semantics, configurable CacheConfig and MaxGraphNodes, injectable failures)",
			"model (scriptModel: stores (token, position, uid) as K/V through the real cache, reads the masked history back, next token = script(hash(visible history)); shift function adds the offset to stored positions)",
			"tokenizer (per-run byte-string vocabulary: split multi-byte characters, stop-string fragments, invalid bytes, EOS)", "HTTP transport (in-memory ResponseWriter; clients call Server.completion directly)",
			"model loading (Server assembled in-package; loadModel/ggml backend not run)"},
		Rule: map[string]string{
			"C07": "one evaluation = one simulated execution of the real ollamarunner.Server (run loop + 1-10 concurrent completion handlers, 1-4 slots) over the real kvcache, with tape-drawn configuration (context, batch, slot policy, cache kind, backend cache config, shift/erase capability), request history (prompt tree with shared prefixes, repeats, continuations, over-long prompts), client behaviour (cancel, slow reader, write error) and interleaving, followed by one fresh single-slot reference Server per request; non-trivial = at least two tasks were runnable at some step and at least one request ran to completion; distinct = different hash of the (task, label, simulated time) decision sequence",
			"C14": "one evaluation = one simulated execution as for C07 (without the reference servers), biased towards generation: per-run vocabulary with split multi-byte characters, stop-string tilings and invalid bytes, 0-4 stop strings per request, prediction limits 1-40 or none, EOS; non-trivial = at least two tasks were runnable at some step and at least one request ran to completion; distinct = different hash of the decision sequence",
		},
		NonTrivial: func(prop string, r *verifsim.Result) bool { return r.MaxRunnable >= 2 && r.Info["req_completed"] > 0 },
		Assumptions: []string{"instrumentation (yields at synchronisation points, Mutex/Cond type swap, select determinisation) preserves single-threaded semantics",
			"testing/synctest fake clock and quiescence detection", "pre-emption only at synchronisation points (channel operations, locks, condition waits, semaphore, response writes, model Forward)",
			"the simulated backend executes tensor operations eagerly in program order (ggml executes them in graph order at Compute)",
			"runner/llamarunner (cgo llama.cpp context) is not simulated; the claim covers the Go engine runner"},
	})
}
