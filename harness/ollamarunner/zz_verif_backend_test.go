//go:build verif

package ollamarunner

// SimBackend: a pure-Go stand-in for the subset of ml.Backend / ml.Context /
// ml.Tensor that kvcache and the scripted model use (DESIGN.md 3.8). Tensors
// are eager float32 arrays with ggml's shape/stride semantics (View with byte
// offsets and byte strides, Permute, Copy between differently shaped views),
// so the real kvcache code - Put, Get, shift, defrag/moveCells, PermutedV -
// runs unchanged on top of it. Every method that is not implemented is
// inherited from a nil embedded interface and panics when called: an
// unexpected use of the backend surfaces instead of being papered over.

import (
	"errors"
	"fmt"

	"github.com/ollama/ollama/ml"
	"github.com/ollama/ollama/verifsim"
)

// simFaults is the injectable-failure state shared by the backend, the
// recording cache proxy and the shift function of one Server.
type simFaults struct {
	inRemove     bool // set by the cache proxy around Cache.Remove
	inForward    bool // set by the cache proxy around Cache.StartForward
	shiftIntFail int  // 1/n chance that FromIntSlice fails inside Remove (shift offsets); 0 = never
	shiftFnFail  int  // 1/n chance that the model's shift function fails; 0 = never
	failShiftNow bool // decided once per Remove (the order in which kvcache visits its layers is a map order)
	defragRuns   int  // NewContext calls seen during StartForward (= defrag ran)
	ctxOpen      int
}

var errSimBackend = errors.New("sim backend: injected allocation failure")

type simBackend struct {
	ml.Backend
	cfg      ml.CacheConfig
	maxNodes int
	f        *simFaults
}

func (b *simBackend) CacheConfig() ml.CacheConfig { return b.cfg }

func (b *simBackend) NewContext() ml.Context {
	if b.f.inForward {
		// the only NewContext inside Cache.StartForward is defrag's
		b.f.defragRuns++
		verifsim.Probe("defrag")
	}
	b.f.ctxOpen++
	return &simCtx{b: b}
}

func (b *simBackend) NewContextSize(int) ml.Context {
	b.f.ctxOpen++
	return &simCtx{b: b}
}

type simCtx struct {
	ml.Context
	b      *simBackend
	closed bool
}

func elemSize(dt ml.DType) int {
	switch dt {
	case ml.DTypeF16:
		return 2
	case ml.DTypeF32, ml.DTypeI32:
		return 4
	}
	// block-quantised types have no per-element size; the harness never asks for them
	panic(fmt.Sprintf("sim backend: unsupported dtype %d", dt))
}

func (c *simCtx) Empty(dtype ml.DType, shape ...int) ml.Tensor {
	t := &simTensor{dtype: dtype, es: elemSize(dtype), nd: len(shape)}
	total := 0
	if len(shape) > 0 {
		total = 1
	}
	if len(shape) > 4 {
		panic("sim backend: more than 4 dimensions")
	}
	for i := range t.ne {
		t.ne[i] = 1
	}
	for i, s := range shape {
		if s < 0 {
			panic("sim backend: negative dimension")
		}
		t.ne[i] = s
		total *= s
	}
	t.nb[0] = 1
	for i := 1; i < 4; i++ {
		t.nb[i] = t.nb[i-1] * t.ne[i-1]
	}
	t.data = make([]float32, total)
	return t
}

func (c *simCtx) Zeros(dtype ml.DType, shape ...int) ml.Tensor { return c.Empty(dtype, shape...) }

func (c *simCtx) FromFloatSlice(s []float32, shape ...int) (ml.Tensor, error) {
	t := c.Empty(ml.DTypeF32, shape...).(*simTensor)
	if len(s) != len(t.data) {
		return nil, fmt.Errorf("sim backend: invalid shape %v for %d elements", shape, len(s))
	}
	copy(t.data, s)
	return t, nil
}

func (c *simCtx) FromIntSlice(s []int32, shape ...int) (ml.Tensor, error) {
	f := c.b.f
	if f.inRemove && f.shiftIntFail > 0 && verifsim.Draw("shift-int-fail", f.shiftIntFail) == 0 {
		verifsim.Fault("shift_alloc_fail")
		return nil, errSimBackend
	}
	t := c.Empty(ml.DTypeI32, shape...).(*simTensor)
	if len(s) != len(t.data) {
		return nil, fmt.Errorf("sim backend: invalid shape %v for %d elements", shape, len(s))
	}
	for i, v := range s {
		t.data[i] = float32(v)
	}
	return t, nil
}

func (c *simCtx) Arange(start, stop, step float32, dtype ml.DType) ml.Tensor {
	var s []float32
	for v := start; v < stop; v += step {
		s = append(s, v)
	}
	t, _ := c.FromFloatSlice(s, len(s))
	t.(*simTensor).dtype = dtype
	return t
}

func (c *simCtx) Input() ml.Context               { return c }
func (c *simCtx) Layer(int) ml.Context            { return c }
func (c *simCtx) Forward(...ml.Tensor) ml.Context { return c }
func (c *simCtx) Compute(...ml.Tensor)            {}
func (c *simCtx) Reserve() error                  { return nil }
func (c *simCtx) MaxGraphNodes() int              { return c.b.maxNodes }
func (c *simCtx) Close() {
	if !c.closed {
		c.closed = true
		c.b.f.ctxOpen--
	}
}

// simTensor: ne = extent per dimension, nb = stride per dimension in elements
// (Stride reports bytes, like ggml's nb), off = element offset into data,
// which views share with their parent.
type simTensor struct {
	ml.Tensor
	dtype ml.DType
	es    int
	data  []float32
	off   int
	ne    [4]int
	nb    [4]int
	nd    int
}

func (t *simTensor) Dim(n int) int    { return t.ne[n] }
func (t *simTensor) Stride(n int) int { return t.nb[n] * t.es }
func (t *simTensor) DType() ml.DType  { return t.dtype }

func (t *simTensor) Shape() []int {
	return append([]int(nil), t.ne[:t.nd]...)
}

func (t *simTensor) nelem() int {
	if t.nd == 0 {
		return 0
	}
	return t.ne[0] * t.ne[1] * t.ne[2] * t.ne[3]
}

// index of logical element k (dimension 0 fastest) in data
func (t *simTensor) loc(k int) int {
	i0 := k % t.ne[0]
	k /= t.ne[0]
	i1 := k % t.ne[1]
	k /= t.ne[1]
	i2 := k % t.ne[2]
	i3 := k / t.ne[2]
	return t.off + i0*t.nb[0] + i1*t.nb[1] + i2*t.nb[2] + i3*t.nb[3]
}

func (t *simTensor) at(i0, i1, i2 int) float32 {
	return t.data[t.off+i0*t.nb[0]+i1*t.nb[1]+i2*t.nb[2]]
}

func (t *simTensor) Floats() []float32 {
	n := t.nelem()
	out := make([]float32, n)
	for k := 0; k < n; k++ {
		out[k] = t.data[t.loc(k)]
	}
	return out
}

func (t *simTensor) checkBounds(what string) {
	if t.nelem() == 0 {
		return
	}
	last := t.off
	for i := 0; i < 4; i++ {
		last += (t.ne[i] - 1) * t.nb[i]
	}
	if t.off < 0 || last >= len(t.data) {
		panic(fmt.Sprintf("sim backend: %s outside the tensor's storage (offset %d, last element %d, storage %d elements)", what, t.off, last, len(t.data)))
	}
}

// View follows ggml_view_{1,2,3,4}d: offset and strides are in bytes; shape is
// ne0[, nb1, ne1[, nb2, ne2[, nb3, ne3]]]; dimension 0 is contiguous.
func (t *simTensor) View(ctx ml.Context, offset int, shape ...int) ml.Tensor {
	if offset%t.es != 0 {
		panic(fmt.Sprintf("sim backend: view offset %d is not a multiple of the element size %d", offset, t.es))
	}
	v := &simTensor{dtype: t.dtype, es: t.es, data: t.data, off: t.off + offset/t.es}
	for i := range v.ne {
		v.ne[i] = 1
	}
	switch len(shape) {
	case 1, 3, 5, 7:
	default:
		panic("unsupported number of dimensions")
	}
	v.nd = (len(shape) + 1) / 2
	v.ne[0] = shape[0]
	v.nb[0] = 1
	for d := 1; d < v.nd; d++ {
		st := shape[2*d-1]
		if st%t.es != 0 {
			panic(fmt.Sprintf("sim backend: view stride %d is not a multiple of the element size %d", st, t.es))
		}
		v.nb[d] = st / t.es
		v.ne[d] = shape[2*d]
	}
	for d := v.nd; d < 4; d++ {
		v.nb[d] = v.nb[d-1] * v.ne[d-1]
	}
	v.checkBounds("view")
	return v
}

// Permute follows ggml_permute: axis i of the source becomes axis shape[i].
func (t *simTensor) Permute(ctx ml.Context, shape ...int) ml.Tensor {
	if len(shape) != 4 {
		panic("expected 4 dimensions")
	}
	v := &simTensor{dtype: t.dtype, es: t.es, data: t.data, off: t.off}
	seen := [4]bool{}
	for i, a := range shape {
		if a < 0 || a > 3 || seen[a] {
			panic("sim backend: bad permutation")
		}
		seen[a] = true
		v.ne[a] = t.ne[i]
		v.nb[a] = t.nb[i]
	}
	v.nd = 1
	for i := 3; i > 0; i-- {
		if v.ne[i] > 1 {
			v.nd = i + 1
			break
		}
	}
	return v
}

// Copy follows ggml_cpy: element k (in logical order) of the source is stored
// as element k of the destination; shapes may differ, element counts may not.
func (t *simTensor) Copy(ctx ml.Context, t2 ml.Tensor) ml.Tensor {
	d := t2.(*simTensor)
	n := t.nelem()
	if n != d.nelem() {
		panic(fmt.Sprintf("sim backend: copy of %d elements into %d", n, d.nelem()))
	}
	if t.contiguous() && d.contiguous() {
		copy(d.data[d.off:d.off+n], t.data[t.off:t.off+n])
		return d
	}
	// source and destination may overlap (never in the code under test, but be exact)
	tmp := make([]float32, n)
	for k := 0; k < n; k++ {
		tmp[k] = t.data[t.loc(k)]
	}
	for k := 0; k < n; k++ {
		d.data[d.loc(k)] = tmp[k]
	}
	return d
}

func (t *simTensor) contiguous() bool {
	st := 1
	for i := 0; i < 4; i++ {
		if t.ne[i] != 1 && t.nb[i] != st {
			return false
		}
		st *= t.ne[i]
	}
	return true
}
