//go:build verif

package ollamarunner

// Oracles of H-runner.
//
// C07 (DESIGN.md section 5):
//  (1) at every Forward, per batch row and per layer: the entries visible
//      through the mask returned by Cache.Get are exactly (record[j], j) for the
//      positions j the row may attend to, where record = the slot's recorded
//      Inputs plus the inputs pending in this batch  -> class kv-history;
//  (2) at every Forward and at every step at which Server.mu is free: a slot
//      is referenced by at most one live sequence, and InUse <=> referenced
//      -> class slot-exclusive;
//  (3) at every Forward and when a request leaves: the slot's record equals
//      the reference model of the cache sequence (kept by the cache proxy from
//      the operations the cache accepted)  -> class slot-record;
//  (4) after the simulation: a fresh single-slot Server with an empty cache
//      generates the same tokens for the same request  -> class differential.
//
// C14: P1..P6 on (generated pieces G, received pieces R, final message), see checkStream.

import (
	"fmt"
	"math"
	"strconv"
	"strings"
	"time"
	"unicode/utf8"

	"github.com/ollama/ollama/llm"
	"github.com/ollama/ollama/model/input"
	"github.com/ollama/ollama/verifsim"
)

// inputTokens is what the model must be given for a list of recorded inputs: the token, or
// for a multimodal input the code of its payload (see effTokens).
func inputTokens(in []input.Input) []int32 {
	out := make([]int32, len(in))
	for i := range in {
		out[i] = in[i].Token
		if p, ok := in[i].Multimodal.(imgPayload); ok {
			out[i] = p.code
		}
	}
	return out
}

func (srv *simServer) liveFor(slot int) (*Sequence, int) {
	var found *Sequence
	n := 0
	for _, sq := range srv.s.seqs {
		if sq != nil && sq.cache != nil && sq.cache.Id == slot {
			found = sq
			n++
		}
	}
	return found, n
}

// checkSlots is oracle (2).
func (srv *simServer) checkSlots(where string) {
	s := srv.s
	refs := make([]int, len(s.cache.slots))
	for i, sq := range s.seqs {
		if sq == nil {
			continue
		}
		if sq.cache == nil {
			srv.w.violate("C07", "slot-exclusive", "slot:live-sequence-without-slot", "%s: live sequence %d has no cache slot", where, i)
			continue
		}
		id := sq.cache.Id
		if id < 0 || id >= len(refs) || sq.cache != &s.cache.slots[id] {
			srv.w.violate("C07", "slot-exclusive", "slot:foreign-slot", "%s: live sequence %d points to a slot outside the input cache (id %d)", where, i, id)
			continue
		}
		refs[id]++
	}
	for id, n := range refs {
		sl := &s.cache.slots[id]
		switch {
		case n > 1:
			srv.w.violate("C07", "slot-exclusive", "slot:shared-by-two-sequences", "%s: cache slot %d is used by %d live sequences at once", where, id, n)
		case n == 1 && !sl.InUse:
			srv.w.violate("C07", "slot-exclusive", "slot:referenced-but-not-in-use", "%s: cache slot %d is used by a live sequence but InUse is false (it can be handed to a second request)", where, id)
		case n == 0 && sl.InUse:
			srv.w.violate("C07", "slot-exclusive", "slot:in-use-but-unreferenced", "%s: cache slot %d is marked InUse but no live sequence uses it (slot leaked)", where, id)
		}
	}
}

// onStep runs on the controller after every step (and once at the end).
func (srv *simServer) onStep() {
	s := srv.s
	srv.probeBackpressure()
	if s.mu.Held() {
		return
	}
	srv.checkSlots("step")
	srv.trackSeqs()
}

// probeBackpressure: a slow reader has let the response channel of a sequence fill up
// (the run loop then blocks in flushPending while holding Server.mu).
func (srv *simServer) probeBackpressure() {
	for _, sq := range srv.s.seqs {
		if sq != nil && len(sq.responses) == cap(sq.responses) {
			verifsim.Probe("response_channel_full")
			return
		}
	}
}

// trackSeqs notices sequences that appeared in / disappeared from Server.seqs.
func (srv *simServer) trackSeqs() {
	s := srv.s
	// departures
	kept := srv.live[:0]
	for _, l := range srv.live {
		still := false
		for _, sq := range s.seqs {
			if sq == l.seq {
				still = true
			}
		}
		if still {
			kept = append(kept, l)
			continue
		}
		srv.departed(l)
	}
	srv.live = kept
	// arrivals
	for _, sq := range s.seqs {
		if sq == nil || sq.cache == nil {
			continue
		}
		known := false
		for _, l := range srv.live {
			if l.seq == sq {
				known = true
			}
		}
		if known {
			continue
		}
		id := sq.cache.Id
		var r *reqState
		if id >= 0 && id < len(srv.slotReq) {
			r = srv.slotReq[id]
		}
		if r == nil || r.seen {
			// cannot attribute (only possible after a slot-exclusivity violation)
			continue
		}
		r.seen = true
		srv.live = append(srv.live, liveSeq{seq: sq, req: r})
		if n := len(sq.cache.Inputs); n > 0 {
			r.seenCached = true
			verifsim.Probe("prefix_cache_hit")
			if n+1 >= sq.numPromptInputs {
				verifsim.Probe("prefix_cache_hit_whole_prompt")
			}
		}
		if len(r.prompt) > int(s.cache.numCtx) {
			verifsim.Probe("prompt_truncated")
		}
	}
}

// departed: the sequence of l.req has just been removed from Server.seqs; its
// slot has not been touched since (Server.mu was held until now).
func (srv *simServer) departed(l liveSeq) {
	r := l.req
	slot := l.seq.cache
	r.finalRec = inputTokens(slot.Inputs)
	r.haveFinal = true
	debugf("%s: req#%d left slot %d: reason=%d numPredicted=%d numPredict=%d record=[%s]", srv.name, r.id, slot.Id, l.seq.doneReason, l.seq.numPredicted, l.seq.numPredict, tokensString(r.finalRec))
	ref := srv.rec.seq(slot.Id)
	if ref.undefined {
		verifsim.Probe("record_check_skipped_undefined")
		return
	}
	// After a stop string the record is cut back to the returned text while the cache
	// still holds the cut entries at the end (they are erased by the next LoadCacheSlot,
	// which the at-Forward comparison then checks exactly): a tail beyond the record is allowed here.
	if msg := compareRecord(r.finalRec, ref, true); msg != "" {
		srv.w.violate("C07", "slot-record", "slot-record:after-request", "%s: after %s left slot %d its recorded inputs differ from what the cache was given: %s\n  record: [%s]\n  ops on the cache sequence: %v",
			srv.name, r, slot.Id, msg, tokensString(r.finalRec), ref.ops)
	}
}

// compareRecord compares a slot record with the reference content of its cache sequence.
func compareRecord(rec []int32, ref *refSeq, allowTail bool) string {
	if len(rec) > len(ref.ents) || (!allowTail && len(rec) != len(ref.ents)) {
		return fmt.Sprintf("record has %d inputs, the cache sequence holds %d entries", len(rec), len(ref.ents))
	}
	// ref entries are in insertion order; positions must be exactly 0..n-1
	seen := make([]bool, len(ref.ents))
	for _, e := range ref.ents {
		if e.pos < 0 || int(e.pos) >= len(seen) || seen[e.pos] {
			return fmt.Sprintf("the cache sequence holds an entry at position %d twice or beyond its %d entries", e.pos, len(ref.ents))
		}
		seen[e.pos] = true
		if int(e.pos) < len(rec) && rec[e.pos] != e.tok {
			return fmt.Sprintf("position %d: record says token %d, the cache was given token %d", e.pos, rec[e.pos], e.tok)
		}
	}
	return ""
}

// beginForward is called by the scripted model at the start of every Forward
// (after Cache.StartForward succeeded, Server.mu held by the run loop).
func (srv *simServer) beginForward(batch input.Batch, toks []float32) {
	srv.forwards++
	srv.checkSlots("forward")
	srv.trackSeqs()
	seqs := 0
	last := -1
	for _, sq := range batch.Sequences {
		if sq != last {
			seqs++
			last = sq
		}
	}
	if seqs > 1 {
		verifsim.Probe("multi_seq_batch")
	}
}

// checkSameBatch: an input with SameBatch = k must be evaluated in one batch with the k inputs
// that follow it (a vision model lays the image's rows over them in that one graph; cut in
// two, the model is given a different image). Checked only for groups that are still the
// ones PostTokenize made: what follows an image after a context shift has cut its group is
// not specified (the TODO at InputCache.ShiftDiscard).
func (srv *simServer) checkSameBatch(batch input.Batch) {
	for _, mi := range batch.Multimodal {
		p, ok := mi.Multimodal.(imgPayload)
		if !ok || mi.Index < 0 || mi.Index >= len(batch.Sequences) {
			continue
		}
		verifsim.Probe("image_row_forwarded")
		if p.same == 0 {
			continue
		}
		slot := batch.Sequences[mi.Index]
		toks := batch.Inputs.Floats()
		have := 0
		for k := mi.Index + 1; k < len(batch.Sequences) && k <= mi.Index+p.same && batch.Sequences[k] == slot; k++ {
			have++
		}
		sq, n := srv.liveFor(slot)
		if n != 1 {
			continue
		}
		// Is the group still the one PostTokenize made (the image followed by its own
		// placeholders)? A context shift or its reprocessing path may have cut it, and what
		// then follows the image is whatever came later.
		intact := true
		for k := 1; k <= p.same; k++ {
			switch {
			case k <= have:
				intact = intact && int32(toks[mi.Index+k]) == imgPadToken
			case k-have-1 < len(sq.inputs):
				in := sq.inputs[k-have-1]
				intact = intact && in.Token == imgPadToken && in.Multimodal == nil
			default:
				intact = false
			}
		}
		if !intact {
			verifsim.Probe("same_batch_group_cut_by_shift")
			continue
		}
		if have == p.same {
			verifsim.Probe("same_batch_group_whole")
			continue
		}
		srv.w.violate("C07", "same-batch", "same-batch:group-split", "%s: slot %d: the image at batch row %d needs the %d inputs that follow it in its batch, the batch holds %d of them (%d rows in all) although %d further inputs of the sequence were waiting",
			srv.name, slot, mi.Index, p.same, have, len(batch.Sequences), len(sq.inputs))
	}
}

func (srv *simServer) dataViolation(layer int, what string) {
	srv.w.violate("C07", "kv-history", "kv-history:"+srv.layerKind(layer)+":corrupt-tensor", "%s: layer %d: %s", srv.name, layer, what)
}

func (srv *simServer) layerKind(l int) string {
	switch srv.cfg.cacheKind {
	case cacheCausal:
		return "causal"
	case cacheSWA:
		return "swa"
	}
	if l%2 == 0 {
		return "wrapper-swa"
	}
	return "wrapper-causal"
}

// checkRows is oracle (1) (and the at-Forward half of oracle (3)).
func (srv *simServer) checkRows(batch input.Batch, toks []float32, vis [][][]visEnt, windows []int32) {
	type seqInfo struct {
		sq   *Sequence
		want []int32
		req  *reqState
	}
	infos := map[int]*seqInfo{}
	reported := false
	for i, slot := range batch.Sequences {
		info := infos[slot]
		if info == nil {
			sq, n := srv.liveFor(slot)
			if n != 1 {
				// reported by checkSlots
				infos[slot] = &seqInfo{}
				continue
			}
			info = &seqInfo{sq: sq, want: append(inputTokens(sq.cache.Inputs), inputTokens(sq.pendingInputs)...)}
			for _, l := range srv.live {
				if l.seq == sq {
					info.req = l.req
				}
			}
			infos[slot] = info
			if info.req != nil {
				info.req.lastRec = info.want
				info.req.forwards++
			}
			// oracle (3) at Forward: record + pending == what the cache was given
			ref := srv.rec.seq(slot)
			if !ref.undefined {
				if msg := compareRecord(info.want, ref, false); msg != "" {
					srv.w.violate("C07", "slot-record", "slot-record:forward", "%s: slot %d: recorded inputs plus this batch differ from what the cache was given: %s\n  record+pending: [%s]\n  ops on the cache sequence: %v",
						srv.name, slot, msg, tokensString(info.want), ref.ops)
				}
			}
		}
		if info.sq == nil || reported {
			// (the per-slot bookkeeping above is needed for every slot of the batch; one
			// kv-history report per Forward is enough)
			continue
		}
		p := int(batch.Positions[i])
		if p < 0 || p >= len(info.want) || info.want[p] != int32(toks[i]) {
			srv.w.violate("C07", "kv-history", "kv-history:batch-row-vs-record", "%s: slot %d: batch row %d carries token %d at position %d, the slot record (%d inputs incl. pending) disagrees", srv.name, slot, i, int32(toks[i]), p, len(info.want))
			continue
		}
		for l := range vis {
			got := vis[l][i]
			lo := 0
			if windows[l] < int32(p) {
				lo = p - int(windows[l])
			}
			symptom := ""
			detail := ""
			var missing []int
			if len(got) != p-lo+1 {
				if len(got) > p-lo+1 {
					symptom = "extra-entries"
				} else {
					symptom = "missing-entries"
					// which positions are missing, and is everything that is there right?
					k := 0
					for j := lo; j <= p; j++ {
						if k < len(got) && int(got[k].pos) == j && got[k].tok == info.want[j] {
							k++
						} else {
							missing = append(missing, j)
						}
					}
					if k != len(got) {
						symptom = "missing-and-wrong-entries"
						missing = nil
					}
				}
				detail = fmt.Sprintf("sees %d entries, must see the %d entries at positions %d..%d (missing positions %v)", len(got), p-lo+1, lo, p, missing)
			} else {
				for k, e := range got {
					j := lo + k
					if int(e.pos) != j {
						symptom = "wrong-position"
						detail = fmt.Sprintf("entry %d has position %d, must be %d", k, e.pos, j)
						break
					}
					if e.tok != info.want[j] {
						symptom = "wrong-token"
						detail = fmt.Sprintf("position %d holds token %d, the record says %d", j, e.tok, info.want[j])
						break
					}
				}
			}
			if symptom == "" {
				continue
			}
			ref := srv.rec.seq(slot)
			// Signature: cache family + symptom + the operation class that explains it. Symptoms
			// that keep the number of entries (wrong-position, wrong-token) mean that data and
			// metadata of cells disagree, which only cell moves (defrag) can cause; a changed
			// number of entries means that the set of cells of the sequence is wrong.
			family := "causal"
			if windows[l] != math.MaxInt32 {
				family = "swa"
			}
			sig := ""
			switch {
			case ref.undefined:
				// a Remove failed on this sequence (shift impossible) and the sequence was
				// used again without having been cleared
				route := "noerase"
				switch {
				case ref.has("shared-cells"):
					route = "fork" // cells shared with the slot this one was forked from (or into) cannot be shifted
				case ref.has("noshift"):
					route = "noshift"
				case ref.has("shiftfail"):
					route = "shiftfail"
				}
				sig = route + ">overflow>fallback:not-cleared"
			case symptom == "wrong-position" || symptom == "wrong-token":
				if srv.f.defragRuns > 0 {
					sig = family + ":" + symptom + ":after-defrag"
				} else {
					sig = family + ":" + symptom + ":no-defrag"
				}
			case symptom == "missing-entries" && family == "swa" && ref.has("shift") && ref.allEvicted(missing):
				// The known window hole: every missing entry is one the sliding-window cache had
				// legitimately evicted, everything else is in place, and a context shift has since
				// moved the sequence's positions down so that the window reaches back to it
				// (the TODO at the top of Causal.Remove). Anything else that goes missing after a
				// shift gets the :unexplained signature below.
				sig = family + ":" + symptom + ":after-shift"
			case ref.has("shift"):
				sig = family + ":" + symptom + ":after-shift:unexplained"
			case ref.has("fork") || ref.has("trim"):
				sig = family + ":" + symptom + ":after-resume"
			default:
				sig = family + ":" + symptom + ":plain"
			}
			var sb strings.Builder
			for _, e := range got {
				fmt.Fprintf(&sb, "%d@%d ", e.tok, e.pos)
			}
			srv.w.violate("C07", "kv-history", "kv-history:"+sig,
				"%s: slot %d layer %d (%s): batch row %d (token %d at position %d) %s\n  visible through the mask: %s\n  slot record + pending: [%s]\n  operations on this cache sequence since it was last cleared: %v (undefined after failed Remove: %v)\n  request: %v",
				srv.name, slot, l, srv.layerKind(l), i, int32(toks[i]), p, detail, sb.String(), tokensString(info.want), ref.ops, ref.undefined, info.req)
			reported = true
			break
		}
	}
}

// generated is called by the scripted model for every output row: token nt is
// what the (greedy) sampler will pick for the sequence in slot.
func (srv *simServer) generated(slot int, nt int32) {
	sq, n := srv.liveFor(slot)
	if n != 1 {
		return
	}
	for _, l := range srv.live {
		if l.seq == sq {
			l.req.gen = append(l.req.gen, nt)
			return
		}
	}
}

func (srv *simServer) stateHash() uint64 {
	h := uint64(14695981039346656037)
	s := srv.s
	for i := range s.cache.slots {
		sl := &s.cache.slots[i]
		x := uint64(len(sl.Inputs)) << 1
		if sl.InUse {
			x |= 1
		}
		h = fnv64(h, x)
	}
	for _, sq := range s.seqs {
		if sq == nil {
			h = fnv64(h, 0xffff)
			continue
		}
		h = fnv64(h, uint64(len(sq.inputs))<<20|uint64(len(sq.pendingResponses))<<10|uint64(sq.numPredicted&0x3ff))
	}
	return h
}

// ---- after each request: C07 (3b) and the C14 stream oracle -------------------------------------

func containsAnyStop(s string, stops []string) (bool, int) {
	n := 0
	for _, st := range stops {
		if strings.Contains(s, st) {
			n++
		}
	}
	return n > 0, n
}

func (w *runWorld) afterRequest(srv *simServer, r *reqState) {
	if r.status != 200 {
		verifsim.Probe("request_rejected")
		w.note("req#%d -> HTTP %d %s", r.id, r.status, r.errBody)
		return
	}
	if !r.admitted {
		if r.cancelled {
			verifsim.Probe("cancel_before_admission")
		}
		return
	}
	w.checkStream(srv, r)
}

// checkStream is the C14 oracle, P1..P6 of DESIGN.md section 5, evaluated on
// G = the pieces of the tokens the model emitted for the request (EOS
// excluded), R = the pieces the client received, and the final message.
// Deliberately not asserted: which of several simultaneously completed stop
// strings is chosen, and how long text is withheld.
func (w *runWorld) checkStream(srv *simServer, r *reqState) {
	v := w.v
	var sb strings.Builder
	var tk []int // tk[k] = len(T_{k+1})
	eos := false
	for _, t := range r.gen {
		if t == 0 {
			eos = true
			break
		}
		sb.WriteString(v.pieces[t])
		tk = append(tk, sb.Len())
	}
	full := sb.String()
	out := strings.Join(r.pieces, "")
	completed := r.final != nil && !r.cancelled
	valid := utf8.ValidString(full)
	shape := func() string {
		return fmt.Sprintf("%s\n  generated pieces: %s\n  generated text T=%s (valid UTF-8: %v, EOS sampled: %v)\n  received pieces R=%s\n  final: %+v cancelled=%v", r, w.genPieces(r), clip(fmt.Sprintf("%q", full)), valid, eos, clip(fmt.Sprintf("%q", r.pieces)), r.final, r.cancelled)
	}
	n := len(tk)
	if n > 0 {
		verifsim.Probe("request_generated_text")
	}

	// first index at which the generated text contains a stop string
	j := -1
	nStopsAtJ := 0
	if len(r.stops) > 0 {
		for k := range tk {
			if ok, cnt := containsAnyStop(full[:tk[k]], r.stops); ok {
				j, nStopsAtJ = k, cnt
				break
			}
		}
	}

	// P1: out is a prefix of T_n
	if !strings.HasPrefix(full, out) {
		detail := "non-prefix"
		if !valid {
			// The known mechanism: flushPending sends the longest valid prefix of the pending
			// text and drops the rest, so the stream is the generated text minus segments that
			// each start at a byte that is not UTF-8 and end at a piece boundary. Only a
			// divergence of exactly that form gets the known signature.
			if droppedAfterInvalid(full, out, tk) {
				detail = "non-prefix:invalid-utf8-in-generated-text"
			} else {
				detail = "non-prefix:unexplained"
			}
		}
		w.violate("C14", "stream", "stream:P1:"+detail, "the streamed text %s is not a prefix of the generated text\n  %s", clip(fmt.Sprintf("%q", out)), shape())
		return
	}

	if j >= 0 {
		verifsim.Probe("stop_hit")
		tj := full[:tk[j]]
		// was the stop string completed across piece boundaries?
		start := 0
		if j > 0 {
			start = tk[j-1]
		}
		for _, st := range r.stops {
			if idx := strings.Index(tj, st); idx >= 0 && idx < start {
				verifsim.Probe("stop_split_across_pieces")
				break
			}
		}
		// P2 (i): nothing is generated after the piece that completes a stop string
		if n > j+1 {
			w.violate("C14", "stream", "stream:P2:generated-past-stop", "generation continued for %d pieces after piece %d completed a stop string\n  %s", n-j-1, j+1, shape())
			return
		}
		// P2 (ii): the output contains no stop string
		if ok, _ := containsAnyStop(out, r.stops); ok {
			kind := "single-stop"
			if nStopsAtJ > 1 {
				kind = "two-stops-completed-by-one-piece"
			}
			w.violate("C14", "stream", "stream:P2:output-contains-stop:"+kind, "the streamed text %q contains a stop string\n  %s", out, shape())
			return
		}
		if completed {
			// P2 (iii): the output ends immediately before a stop string
			okBefore := false
			tjValid := utf8.ValidString(tj)
			for _, st := range r.stops {
				for from := 0; from <= len(tj); {
					i := strings.Index(tj[from:], st)
					if i < 0 {
						break
					}
					i += from
					from = i + 1
					if len(out) == i {
						okBefore = true
					} else if len(out) < i && !tjValid {
						// invalid generated text: what follows the first byte that is not UTF-8
						// cannot be sent (same latitude as P3's "invalid trailing fragment")
						if rn, sz := utf8.DecodeRuneInString(tj[len(out):]); rn == utf8.RuneError && sz <= 1 {
							okBefore = true
						}
					}
				}
			}
			if !okBefore {
				w.violate("C14", "stream", "stream:P2:not-immediately-before-stop", "the streamed text %q does not end immediately before a stop string of T_j=%q\n  %s", out, tj, shape())
				return
			}
			if len(out) < start {
				verifsim.Probe("stop_truncated_earlier_piece")
			}
			if len(out) > start && len(out) < tk[j] {
				verifsim.Probe("stop_truncated_token")
			}
		}
	} else if completed {
		// P3: no stop string anywhere: everything is delivered, and generation ended at EOS or at the limit
		want := full
		if !valid {
			// the longest valid prefix: everything before the first invalid byte
			for i := 0; i < len(full); {
				rn, sz := utf8.DecodeRuneInString(full[i:])
				if rn == utf8.RuneError && sz <= 1 {
					want = full[:i]
					break
				}
				i += sz
			}
		}
		if out != want {
			w.violate("C14", "stream", "stream:P3:text-withheld", "the stream ended (no stop string involved) after %q, the generated text is %q\n  %s", out, full, shape())
			return
		}
		switch {
		case eos:
			verifsim.Probe("eos")
		case r.numPredict > 0 && n == r.numPredict:
			verifsim.Probe("limit")
		default:
			w.violate("C14", "stream", "stream:P3:ended-without-eos-or-limit", "generation ended after %d pieces although no stop string, no EOS and no limit (%d) was reached\n  %s", n, r.numPredict, shape())
			return
		}
	}

	// P4: valid text => every streamed piece is whole UTF-8 and free of stop strings
	if valid {
		for _, p := range r.pieces {
			if !utf8.ValidString(p) {
				w.violate("C14", "stream", "stream:P4:piece-splits-character", "streamed piece %q is not whole UTF-8 although the generated text is valid\n  %s", p, shape())
				return
			}
			if ok, _ := containsAnyStop(p, r.stops); ok {
				w.violate("C14", "stream", "stream:P4:piece-contains-stop", "streamed piece %q contains a stop string\n  %s", p, shape())
				return
			}
		}
		// a multi-byte character that arrived in several tokens was delivered whole
		for k := range tk {
			if !utf8.ValidString(full[:tk[k]]) && tk[k] <= len(out) {
				verifsim.Probe("utf8_split_withheld")
				break
			}
		}
	}

	if completed {
		// P5: the finish reason names what ended generation
		want := llm.DoneReasonLength
		if j >= 0 || eos {
			want = llm.DoneReasonStop
		}
		if r.final.DoneReason != want {
			why := "limit"
			if j >= 0 {
				why = "stop-string"
			} else if eos {
				why = "eos"
			}
			w.violate("C14", "stream", "stream:P5:"+why+"-reported-as-"+strconv.Itoa(int(r.final.DoneReason)), "generation ended by %s but the final message says done_reason=%d (%q)\n  %s", why, int(r.final.DoneReason), r.final.DoneReason.String(), shape())
			return
		}
	}

	// C07 (3b) / C14 P6: the slot's record after the request
	if r.haveFinal && r.lastRec != nil && !srv.rec.seq(r.slot).undefined {
		trimmed := len(r.lastRec) - len(r.finalRec)
		prefixOK := trimmed >= 0
		if prefixOK {
			for i := range r.finalRec {
				if r.finalRec[i] != r.lastRec[i] {
					prefixOK = false
					break
				}
			}
		}
		switch {
		case !prefixOK:
			w.violate("C07", "slot-record", "slot-record:rewritten-at-end", "after %s the slot record [%s] is not a prefix of the record at its last Forward [%s]", r, tokensString(r.finalRec), tokensString(r.lastRec))
		case j < 0 && trimmed != 0:
			w.violate("C07", "slot-record", "slot-record:trimmed-without-stop", "after %s (no stop string) the slot record lost %d inputs that are in the cache", r, trimmed)
		case j >= 0 && completed && utf8.ValidString(full[:tk[j]]):
			// P6: trimmed to the tokens whose text was returned
			mHigh, mLow := 0, 0
			for k := range tk {
				if tk[k] <= len(out) {
					mHigh = k + 1
					if v.pieces[r.gen[k]] != "" {
						mLow = k + 1
					}
				}
			}
			// the record at the last Forward holds the first n-1 generated tokens
			// (a context shift may already have discarded some of them: no more than the record holds can go)
			wantMin := min((n-1)-mHigh, len(r.lastRec))
			wantMax := min((n-1)-mLow, len(r.lastRec))
			if trimmed < wantMin || trimmed > wantMax {
				w.violate("C14", "stream", "stream:P6:record-not-trimmed-to-returned-text", "after the stop the slot record was trimmed by %d inputs; %d..%d of the %d generated tokens had their text returned, so %d..%d must go\n  %s", trimmed, mLow, mHigh, n, wantMin, wantMax, shape())
			} else if trimmed > 0 {
				verifsim.Probe("stop_trimmed_record")
			}
		}
	}
	if r.cancelled && n > 0 {
		verifsim.Probe("cancel_midstream")
	}
}

// droppedAfterInvalid reports whether out can be obtained from full by deleting segments
// each of which starts at a byte where UTF-8 decoding fails and ends at a piece boundary
// (ends[k] = length of the first k+1 pieces), possibly followed by a tail that was never sent.
func droppedAfterInvalid(full, out string, ends []int) bool {
	n, m := len(full), len(out)
	isEnd := make([]bool, n+1)
	for _, e := range ends {
		isEnd[e] = true
	}
	// rows[i][o]: the first i bytes of full can be turned into the first o bytes of out;
	// drop[o]: a dropped segment with that o has started before the current position.
	rows := make([][]bool, n+5)
	rows[0] = make([]bool, m+1)
	rows[0][0] = true
	drop := make([]bool, m+1)
	anyDrop := false
	for i := 0; i <= n; i++ {
		row := rows[i]
		if i > 0 && isEnd[i] && anyDrop {
			if row == nil {
				row = make([]bool, m+1)
			}
			for o, d := range drop {
				if d {
					row[o] = true
				}
			}
		}
		if row == nil {
			continue
		}
		rows[i] = nil
		if row[m] {
			return true
		}
		if i == n {
			break
		}
		rn, sz := utf8.DecodeRuneInString(full[i:])
		if rn != utf8.RuneError || sz > 1 {
			for o, ok := range row {
				if ok && strings.HasPrefix(out[o:], full[i:i+sz]) {
					if rows[i+sz] == nil {
						rows[i+sz] = make([]bool, m+1)
					}
					rows[i+sz][o+sz] = true
				}
			}
			continue
		}
		for o, ok := range row {
			if ok {
				drop[o] = true
				anyDrop = true
			}
		}
	}
	return false
}

func clip(s string) string {
	if len(s) > 360 {
		return s[:240] + " ... " + s[len(s)-100:]
	}
	return s
}

func (w *runWorld) genPieces(r *reqState) string {
	var sb strings.Builder
	for i, t := range r.gen {
		if i > 0 {
			sb.WriteByte(' ')
		}
		if t == 0 {
			sb.WriteString("EOS")
		} else {
			fmt.Fprintf(&sb, "%d:%q", t, w.v.pieces[t])
		}
		if i > 40 {
			fmt.Fprintf(&sb, " ... (%d tokens)", len(r.gen))
			break
		}
	}
	return sb.String()
}

// ---- C07 (4): differential against a fresh single-slot Server ---------------------------------------

func (w *runWorld) differential(sim *verifsim.Sim, res *verifsim.Result) {
	var cands []*reqState
	for _, r := range w.reqs {
		if r.done && r.admitted && r.status == 200 && len(r.gen) > 0 {
			cands = append(cands, r)
		}
	}
	maxRef := 6
	if w.tier == "thorough" {
		maxRef = 12
	}
	for len(cands) > maxRef {
		k := verifsim.Draw("refdrop", len(cands))
		cands = append(cands[:k], cands[k+1:]...)
	}
	for _, r := range cands {
		ref := &reqState{id: 1000 + r.id, client: -1, prompt: r.prompt, numPredict: r.numPredict, numKeep: r.numKeep, stops: r.stops, cancelAfterWrites: -1, writeErrAt: -1, slot: -1}
		if r.cancelled || r.numPredict <= 0 {
			// compare the tokens the request got to see; the limit does not change what the model is given
			ref.numPredict = len(r.gen)
		}
		// the reference runner batches differently (its own batch size, one sequence): what
		// the model is given must not depend on how the inputs were cut into batches
		refBatch := w.cfg.batch
		if verifsim.Draw("refbatch", 2) == 0 {
			refBatch = 1 + verifsim.Draw("refbatchsize", 16)
		}
		srv := w.newServer("ref#"+strconv.Itoa(r.id), 1, refBatch, true)
		srv.start()
		sim.OnStep = srv.onStep
		finished := false
		sim.Go("refclient#"+strconv.Itoa(r.id), func() {
			w.doRequest(srv, ref)
			finished = true
		})
		stop := sim.RunUntil(func() bool { return finished }, time.Minute, 40000)
		srv.onStep()
		sim.OnStep = nil
		srv.stop(sim)
		sim.AbortCondWaiters()
		res.Info["forwards_ref"] += srv.forwards
		if stop != verifsim.CondTrue {
			res.Info["ref_unresolved"]++
			if stop == verifsim.Violated {
				return
			}
			continue
		}
		verifsim.Probe("differential_checked")
		got, want := r.gen, ref.gen
		bad := -1
		if r.cancelled || r.numPredict <= 0 {
			if len(want) > len(got) {
				want = want[:len(got)]
			}
		}
		if len(got) != len(want) {
			bad = min(len(got), len(want))
		}
		for i := 0; i < len(got) && i < len(want); i++ {
			if got[i] != want[i] {
				bad = i
				break
			}
		}
		if bad >= 0 {
			kind := "cold"
			if r.seenCached {
				kind = "cached-prefix"
			}
			w.violate("C07", "differential", "differential:tokens:"+kind, "%s: generated tokens differ from those of a fresh single-slot runner with an empty cache from token %d on\n  with history: [%s]\n  fresh runner: [%s]", r, bad, tokensString(got), tokensString(want))
			return
		}
		sim.RunUntil(nil, 100*time.Millisecond, 500)
	}
}
