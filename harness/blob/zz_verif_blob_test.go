//go:build verif

package blob

// H-blob (property C08): the real DiskCache / Chunker on a simulated disk
// (verifsim/vfs) under the seeded scheduler. DESIGN.md section 5 "C08".
//
// One case = a tape-drawn workload: 1-3 writer tasks over 1-3 digests (0-64 KB,
// sometimes the empty blob, sometimes two digests of equal size) and 1-2 names
// with case variants, calling Put, Import, Chunked/Chunker.Put/Close, Link,
// Unlink, Resolve, Get and Links. Source readers are simulated: every Read is a
// yield point, returns a tape-chosen number of bytes and may be short, long,
// corrupt one byte, or fail. RunOne enumerates the crash points of the case
// (verifsim.Enumerate): reference run, then one run per mutating file-system
// call / torn write, each followed by "reopen the cache", an audit, a few more
// operations and a second audit.
//
// Oracle (only what C08 states):
//   I1  at every step and after every crash+reopen: if Get reports a targeted
//       digest present with its size, the file content hashes to the digest;
//   I2  a store that returned nil (Put, Import, a Chunker session whose chunks
//       tile the blob and all returned nil) makes Get succeed with the right
//       size, then and - the cache has no operation that removes blobs - ever after;
//   I3  Link returns nil only if the blob existed at some instant of the call;
//   I4  Resolve(name) returns the digest of the bytes linked (reference model of
//       the name -> digest map, case-folded, sets of candidates while Link/Unlink
//       calls overlap or were cut by the crash), that blob is retrievable with
//       that content, and case variants of one name resolve alike;
//   I5  Links lists exactly the linked names (only checked when the model is definite).

import (
	"crypto/sha256"
	"errors"
	"fmt"
	"io"
	"io/fs"
	"log/slog"
	"os"
	"path/filepath"
	"sort"
	"strings"
	"syscall"
	"testing"
	"time"

	"github.com/ollama/ollama/verifsim"
	"github.com/ollama/ollama/verifsim/vfs"
)

const blobProp = "C08"

// ---- simulated source reader -------------------------------------------------------

const (
	rdNone = iota
	rdShort
	rdLong
	rdCorrupt
	rdError
)

var rdNames = [...]string{"none", "short", "long", "corrupt", "error"}

var errSimRead = errors.New("simulated read error")

type readerPlan struct {
	mode        int
	atClass     int // 0: anywhere, 1: last byte, 2: first byte
	at          int
	extra       int
	chunkSel    int
	eofWithData bool
}

func (p readerPlan) String() string {
	if p.mode == rdNone {
		return "ok"
	}
	return rdNames[p.mode]
}

var blobChunkClasses = [...]int{1, 3, 17, 256, 4096, 65536}

func drawReaderPlan(rate int) readerPlan {
	D := verifsim.Draw
	p := readerPlan{atClass: D("rat", 4), at: D("rat", 1<<20), extra: 1 + D("rex", 64), chunkSel: D("rck", len(blobChunkClasses)), eofWithData: D("reof", 4) == 0}
	if p.atClass > 2 {
		p.atClass = 0
	}
	if rate > 0 && D("rf", rate) == 0 {
		p.mode = 1 + D("rfk", 4)
	}
	return p
}

type simReader struct {
	src      []byte // bytes that will be delivered (corruption / extension applied)
	n        int    // size of the genuine content
	stop     int    // number of bytes delivered before the end
	pos      int
	mode     int
	off      int // corrupted offset
	maxChunk int
	minChunk int
	eofData  bool
	fired    string
	reads    int
	onFire   func(kind string)
}

func blobNoise(seed uint64, n int) []byte {
	b := make([]byte, n)
	s := seed*0x9e3779b97f4a7c15 + 0x1234567
	for i := 0; i < n; i += 8 {
		s += 0x9e3779b97f4a7c15
		z := s
		z = (z ^ (z >> 30)) * 0xbf58476d1ce4e5b9
		z = (z ^ (z >> 27)) * 0x94d049bb133111eb
		z ^= z >> 31
		for j := 0; j < 8 && i+j < n; j++ {
			b[i+j] = byte(z >> (8 * j))
		}
	}
	return b
}

// newSimReader builds the reader for content data under plan p. Modes that make
// no sense for the content (cutting or corrupting an empty blob) degrade to a
// meaningful neighbour.
func newSimReader(data []byte, p readerPlan) *simReader {
	n := len(data)
	r := &simReader{src: data, n: n, stop: n, mode: p.mode, eofData: p.eofWithData}
	off := 0
	if n > 0 {
		switch p.atClass {
		case 1:
			off = n - 1
		case 2:
			off = 0
		default:
			off = p.at % n
		}
	}
	switch p.mode {
	case rdShort:
		if n == 0 {
			r.mode = rdNone
		} else {
			r.stop = off // delivers data[:off], then EOF
		}
	case rdLong:
		r.src = append(append([]byte{}, data...), blobNoise(uint64(p.at), p.extra)...)
		r.stop = len(r.src)
	case rdCorrupt:
		if n == 0 {
			r.mode = rdLong
			r.src = blobNoise(uint64(p.at), p.extra)
			r.stop = len(r.src)
		} else {
			r.src = append([]byte{}, data...)
			r.src[off] ^= byte(1 << (p.at % 8))
			r.off = off
		}
	case rdError:
		if n > 0 && p.atClass == 1 {
			r.stop = n // everything is delivered, then an error instead of EOF
		} else {
			r.stop = off
		}
	}
	mc := blobChunkClasses[p.chunkSel%len(blobChunkClasses)]
	if lo := len(r.src)/48 + 1; mc < lo {
		mc = lo
	}
	r.maxChunk = mc
	r.minChunk = len(r.src)/96 + 1 // bounds the number of reads even on an exhausted (all-zero) tape
	if r.minChunk > mc {
		r.minChunk = mc
	}
	return r
}

func (r *simReader) fire(kind string) {
	if r.fired == "" {
		r.fired = kind
		verifsim.Fault("reader_" + kind)
		if r.onFire != nil {
			r.onFire(kind)
		}
	}
}

func (r *simReader) Read(p []byte) (int, error) {
	verifsim.Yield("sim:read")
	r.reads++
	if len(p) == 0 {
		return 0, nil
	}
	if r.pos >= r.stop {
		switch r.mode {
		case rdShort:
			r.fire("short")
		case rdError:
			r.fire("error")
			return 0, errSimRead
		}
		return 0, io.EOF
	}
	k := r.minChunk + verifsim.Draw("rd", r.maxChunk-r.minChunk+1)
	if k > r.stop-r.pos {
		k = r.stop - r.pos
	}
	if k > len(p) {
		k = len(p)
	}
	copy(p, r.src[r.pos:r.pos+k])
	if r.mode == rdCorrupt && r.off >= r.pos && r.off < r.pos+k {
		r.fire("corrupt")
	}
	if r.mode == rdLong && r.pos+k > r.n {
		r.fire("long")
	}
	r.pos += k
	if r.pos == r.stop && r.eofData && r.mode != rdError {
		if r.mode == rdShort {
			r.fire("short")
		}
		return k, io.EOF
	}
	return k, nil
}

// ---- world ---------------------------------------------------------------------------

type blobDigest struct {
	idx  int
	d    Digest
	data []byte
	n    int64

	kinds      map[string]bool // store operations that targeted it: put, import, chunked
	faults     map[string]bool // reader faults that fired on its writers
	active     int             // writers in flight
	starts     int             // store operations started so far
	overlapped bool            // two writers were in flight at once
	chunkGap   bool            // a chunked session has (had) chunks not stored
	stored     string          // operation whose nil return promised retrievability ("" none)
	presentNow bool
	presentAt  int // last step at which Get reported it with its size (-1 never)
	hist       []string
}

func (d *blobDigest) note(f string, a ...any) {
	if len(d.hist) < 40 {
		d.hist = append(d.hist, strings.ReplaceAll(fmt.Sprintf(f, a...), blobScratch(), ""))
	}
}

// opKind names the store operation a digest-level violation is attributed to.
func (d *blobDigest) opKind(cause string) string {
	switch {
	case cause == "empty-blob":
		return "store"
	case cause == "partial-chunks":
		return "chunked"
	case d.kinds["put"]:
		return "put"
	case d.kinds["chunked"]:
		return "chunked"
	case d.kinds["import"]:
		return "import"
	}
	return "none"
}

type nameModel struct {
	idx      int
	variants []string
	poss     map[string]bool // candidate values; "" = not linked
	active   int             // Link/Unlink calls in flight
	gen      int             // completed Link/Unlink calls
	readers  []*readSet
	past     map[string]bool // digests ever linked by a completed Link

	overlap   bool   // Link/Unlink calls of this name overlapped at some point of the run (may leave two case-variant files)
	lastMut   string // outcome of the last completed Link/Unlink: link-ok, link-failed, unlink
	lastBusy  bool   // the last successful Link started on an incomplete blob file or ran while the blob was being written
	crashLink bool   // a Link of this name was in flight when the process died
	hist      []string
}

func (m *nameModel) note(f string, a ...any) {
	if len(m.hist) < 40 {
		m.hist = append(m.hist, strings.ReplaceAll(fmt.Sprintf(f, a...), blobScratch(), ""))
	}
}

type readSet struct {
	m    map[string]bool
	over bool // a Link/Unlink of the name was in flight at some instant of the read
}

func (m *nameModel) add(v string) {
	m.poss[v] = true
	for _, r := range m.readers {
		r.m[v] = true
		r.over = true
	}
}

func (m *nameModel) set(vs map[string]bool) {
	m.poss = map[string]bool{}
	for v := range vs {
		m.add(v)
	}
}

type mutTicket struct {
	gen        int
	start      map[string]bool
	overlapped bool
}

func (m *nameModel) beginMut(v string) *mutTicket {
	t := &mutTicket{gen: m.gen, start: map[string]bool{}, overlapped: m.active > 0}
	for k := range m.poss {
		t.start[k] = true
	}
	if m.active > 0 {
		m.overlap = true
	}
	m.active++
	m.add(v)
	return t
}

// endMut: a call that did not overlap another makes the model definite again.
func (m *nameModel) endMut(t *mutTicket, v string, changed bool) {
	m.active--
	over := t.overlapped || m.gen != t.gen || m.active > 0
	m.gen++
	if over {
		m.overlap = true
		return
	}
	if changed {
		m.set(map[string]bool{v: true})
	} else {
		m.set(t.start)
	}
}

func (m *nameModel) beginRead() *readSet {
	r := &readSet{m: map[string]bool{}, over: m.active > 0}
	for k := range m.poss {
		r.m[k] = true
	}
	m.readers = append(m.readers, r)
	return r
}

func (m *nameModel) endRead(r *readSet) {
	for i, x := range m.readers {
		if x == r {
			m.readers = append(m.readers[:i], m.readers[i+1:]...)
			return
		}
	}
}

const (
	opPut = iota
	opImport
	opChunked
	opLink
	opUnlink
	opResolve
	opGet
	opLinks
	opForeign // the manifest file is (re)written behind the cache's back, as the legacy store and users do
)

var blobOpNames = [...]string{"Put", "Import", "Chunked", "Link", "Unlink", "Resolve", "Get", "Links", "ForeignManifest"}

type chunkPlan struct {
	start, end int64 // inclusive
	rf         readerPlan
	skip       bool
	badDigest  bool
}

type blobOp struct {
	kind    int
	dig     int
	name    int
	variant int
	rf      readerPlan
	chunks  []chunkPlan
	retry   bool
}

type blobWorld struct {
	coarse bool // the cache's clock ticks once a second
	t      *testing.T
	sim    *verifsim.Sim
	tier   string
	c      *DiskCache
	dir    string
	tmp    string
	ctl    *vfs.Control

	digests         []*blobDigest
	names           []*nameModel
	plans           [][]blobOp
	post            []blobOp
	redoInterrupted bool
	inflight        map[string]blobOp // operations in progress, by writer (what the crash interrupted)

	isolated bool
	stepNo   int
	lastOps  int
	done     int
	finished bool

	crashKind string // set once the process has died: crash_before_<op>@<file class> / crash_torn_write@<file class>
	desc      []string
	info      map[string]int
}

func (w *blobWorld) note(f string, a ...any) {
	if len(w.desc) < 100 {
		w.desc = append(w.desc, fmt.Sprintf(f, a...))
	}
}

func (w *blobWorld) violate(sig, f string, a ...any) {
	verifsim.Violate(blobProp, "cache-content", "cache-content:"+sig, fmt.Sprintf(f, a...))
}

func blobScratch() string {
	d := os.Getenv("VERIF_SCRATCH")
	if d == "" {
		d = os.TempDir()
	}
	return d
}

var blobOrigTmp, blobHadTmp = os.LookupEnv("TMPDIR")

func newBlobWorld(t *testing.T, sim *verifsim.Sim, tier string, crashAt, tornSel int) *blobWorld {
	w := &blobWorld{t: t, sim: sim, tier: tier, info: map[string]int{}}
	base := filepath.Join(blobScratch(), "blobrun")
	os.RemoveAll(base)
	w.dir = filepath.Join(base, "cache")
	w.tmp = filepath.Join(base, "tmp")
	if err := os.MkdirAll(w.tmp, 0o755); err != nil {
		panic(err)
	}
	os.Setenv("TMPDIR", w.tmp)
	c, err := Open(w.dir) // no Ctl installed yet: setting up is not part of the case
	if err != nil {
		panic(err)
	}
	// clock granularity is a property of the platform: in a third of the cases the cache's
	// clock (its own seam, DiskCache.now) only ticks once a second, so that operations that
	// name things after the time collide
	w.coarse = verifsim.Active() && verifsim.Draw("coarse-clock", 3) == 0
	if w.coarse {
		c.now = coarseNow
		verifsim.Probe("coarse_clock")
	}
	w.c = c
	w.ctl = &vfs.Control{Roots: []string{base + string(filepath.Separator)}, CrashAt: crashAt, TornSel: tornSel, LogCap: 400}
	vfs.Ctl = w.ctl
	return w
}

func (w *blobWorld) close() {
	vfs.Ctl = nil
	if blobHadTmp {
		os.Setenv("TMPDIR", blobOrigTmp)
	} else {
		os.Unsetenv("TMPDIR")
	}
	os.RemoveAll(filepath.Dir(w.dir))
}

func (w *blobWorld) addDigest(data []byte) *blobDigest {
	sum := sha256.Sum256(data)
	for _, d := range w.digests {
		if d.d.sum == sum {
			return d
		}
	}
	d := &blobDigest{idx: len(w.digests), d: Digest{sum}, data: data, n: int64(len(data)), kinds: map[string]bool{}, faults: map[string]bool{}, presentAt: -1}
	w.digests = append(w.digests, d)
	return d
}

var blobNamePool = [][]string{
	{"reg.example/lib/model:latest", "REG.example/Lib/MODEL:Latest", "reg.EXAMPLE/LIB/model:LATEST"},
	{"reg.example/lib/model:v2", "Reg.Example/lib/Model:V2", "REG.EXAMPLE/LIB/MODEL:v2"},
}

// blobNamePoolPorts: two *different* names (a registry with a port, and a host spelled with an
// underscore) that differ in one character of the kind a name-to-path mapping might rewrite.
var blobNamePoolPorts = [][]string{
	{"reg:5000/lib/model:latest", "REG:5000/Lib/MODEL:Latest", "reg:5000/LIB/model:LATEST"},
	{"reg_5000/lib/model:latest", "Reg_5000/lib/Model:Latest", "REG_5000/LIB/MODEL:latest"},
}

// drawPlan draws the whole case on the controller, so that the workload does
// not depend on the schedule (only read sizes are drawn on the fly).
func (w *blobWorld) drawPlan() {
	D := verifsim.Draw
	w.isolated = D("isolated", 2) == 0
	nd := 1 + D("nd", 3)
	nw := 1 + D("nw", 3)
	duel := !w.isolated && D("duel", 2) == 0
	if duel && nw < 2 {
		nw = 2
	}
	rate := [...]int{0, 2, 4, 8}[D("frate", 4)]
	chunked := D("chunked", 2) == 0
	inOrder := D("inorder", 2) == 0
	// disk-error arm: one mutating file-system call in 25 fails (ENOSPC; EACCES for rename/remove)
	w.ctl.ErrRate = [...]int{0, 0, 0, 25}[D("disk-errors", 4)]
	for i := 0; i < nd; i++ {
		n := 0
		if i > 0 && D("samesize", 3) == 0 {
			n = len(w.digests[len(w.digests)-1].data)
		} else {
			switch D("szclass", 16) {
			case 0:
				n = 0
			case 1, 2:
				n = 1 + D("sz", 16)
			case 3, 4, 5, 6, 7, 8:
				n = 17 + D("sz", 1024)
			case 9, 10, 11, 12:
				n = 1024 + D("sz", 8*1024)
			default:
				if w.tier == "thorough" {
					n = 8*1024 + D("sz", 56*1024+1)
				} else {
					n = 8*1024 + D("sz", 24*1024)
				}
			}
		}
		seed := uint64(D("content", 1<<30))
		for {
			before := len(w.digests)
			w.addDigest(blobNoise(seed*4+uint64(i), n))
			if len(w.digests) > before {
				break
			}
			// same content as an earlier digest (two empty blobs): make it differ
			n++
		}
	}
	nn := 1 + D("nn", 2)
	pool := blobNamePool
	if D("name-pool", 3) == 0 {
		pool = blobNamePoolPorts
	}
	for i := 0; i < nn; i++ {
		w.names = append(w.names, &nameModel{idx: i, variants: pool[i], poss: map[string]bool{"": true}, past: map[string]bool{}})
	}
	ownedD := func(wi int) []int {
		var out []int
		for j := range w.digests {
			if !w.isolated || j%nw == wi {
				out = append(out, j)
			}
		}
		return out
	}
	ownedN := func(wi int) []int {
		var out []int
		for j := range w.names {
			if !w.isolated || j%nw == wi {
				out = append(out, j)
			}
		}
		return out
	}
	pick := func(xs []int) int { return xs[D("pick", len(xs))] }
	drawOp := func(ds, ns []int) blobOp {
		// weights: Put 5, Import 2, Chunked 3, Link 4, Unlink 1, Resolve 3, Get 2, Links 1
		table := []int{opPut, opPut, opPut, opPut, opPut, opImport, opImport, opLink, opLink, opLink, opLink, opUnlink, opResolve, opResolve, opResolve, opGet, opGet, opLinks, opForeign}
		if chunked {
			table = append(table, opChunked, opChunked, opChunked)
		}
		op := blobOp{kind: table[D("op", len(table))]}
		needD := op.kind == opPut || op.kind == opImport || op.kind == opChunked || op.kind == opLink || op.kind == opForeign
		needN := op.kind == opLink || op.kind == opUnlink || op.kind == opResolve || op.kind == opForeign
		if (needD && len(ds) == 0) || (needN && len(ns) == 0) {
			// this writer owns nothing suitable: read-only operation on anything
			op.kind = opGet
			op.dig = D("pick", len(w.digests))
			return op
		}
		if needD {
			op.dig = pick(ds)
		}
		if op.kind == opGet {
			op.dig = D("pick", len(w.digests))
		}
		if needN {
			op.name = pick(ns)
			op.variant = D("variant", len(w.names[op.name].variants))
		}
		switch op.kind {
		case opPut, opImport:
			op.rf = drawReaderPlan(rate)
		case opChunked:
			n := w.digests[op.dig].n
			op.chunks = drawChunks(n, rate, inOrder)
			op.retry = D("retry", 2) == 0
		}
		return op
	}
	w.plans = make([][]blobOp, nw)
	for wi := 0; wi < nw; wi++ {
		ds, ns := ownedD(wi), ownedN(wi)
		nops := 1 + D("nops", 5)
		for k := 0; k < nops; k++ {
			w.plans[wi] = append(w.plans[wi], drawOp(ds, ns))
		}
	}
	if duel {
		// two writers of the same digest, exactly one of which has a misbehaving source
		bad := drawReaderPlan(1)
		good := drawReaderPlan(0)
		a, b := blobOp{kind: opPut, dig: 0, rf: bad}, blobOp{kind: opPut, dig: 0, rf: good}
		if chunked && w.digests[0].n >= 2 && D("duel-chunked", 2) == 0 {
			// the same duel between two chunked writers: one delivers every chunk intact,
			// the other one's sources misbehave (it may still hold the partial file open
			// when the good writer has committed the blob)
			n := w.digests[0].n
			a = blobOp{kind: opChunked, dig: 0, chunks: drawChunks(n, 1, inOrder), retry: D("retry", 2) == 0}
			b = blobOp{kind: opChunked, dig: 0, chunks: drawChunks(n, 0, inOrder)}
			// most of these duels are about damaged bytes (one corrupted byte somewhere in a
			// chunk that arrives in several reads, so that bytes are written before the
			// chunk's digest can be checked), on a platform with a coarse clock
			if D("duel-corrupt", 4) != 0 {
				for i := range a.chunks {
					a.chunks[i].rf.mode, a.chunks[i].skip, a.chunks[i].badDigest = rdCorrupt, false, false
				}
			}
			if D("duel-coarse", 4) != 0 && !w.coarse {
				w.coarse = true
				w.c.now = coarseNow
			}
			verifsim.Probe("duel_chunked")
		}
		if D("duelside", 2) == 0 {
			a, b = b, a
		}
		w.plans[0] = append([]blobOp{a}, w.plans[0]...)
		w.plans[1] = append([]blobOp{b}, w.plans[1]...)
	}
	if nw >= 2 && !w.isolated && D("link-duel", 4) == 0 {
		// two writers link letter-case variants of one name (to a blob both have stored) at
		// about the same time: the name must end up as one link, whichever spelling wins
		nv := len(w.names[0].variants)
		va := D("link-duel-a", nv)
		vb := (va + 1 + D("link-duel-b", nv-1)) % nv
		good := drawReaderPlan(0)
		w.plans[0] = append([]blobOp{{kind: opPut, dig: 0, rf: good}, {kind: opLink, name: 0, variant: va, dig: 0}}, w.plans[0]...)
		w.plans[1] = append([]blobOp{{kind: opPut, dig: 0, rf: good}, {kind: opLink, name: 0, variant: vb, dig: 0}}, w.plans[1]...)
		verifsim.Probe("duel_link")
	}
	// operations of the restarted process (crash runs only; drawn always so that the tape layout is the same)
	npost := D("npost", 4)
	w.redoInterrupted = D("redo-interrupted", 2) == 0
	all := func(n int) []int {
		xs := make([]int, n)
		for i := range xs {
			xs[i] = i
		}
		return xs
	}
	for k := 0; k < npost; k++ {
		op := drawOp(all(len(w.digests)), all(len(w.names)))
		op.rf.mode = rdNone // the redo is fault-free
		for i := range op.chunks {
			op.chunks[i].rf.mode, op.chunks[i].skip, op.chunks[i].badDigest = rdNone, false, false
		}
		w.post = append(w.post, op)
	}
	// description
	var ds []string
	for _, d := range w.digests {
		ds = append(ds, fmt.Sprintf("d%d=%s/%dB", d.idx, d.d.Short(), d.n))
	}
	arm := "shared"
	if w.isolated {
		arm = "isolated"
	}
	w.note("case: %s arm, digests [%s], %d names, %d writers, reader fault rate 1/%d, disk error rate 1/%d, duel=%v", arm, strings.Join(ds, " "), nn, nw, rate, w.ctl.ErrRate, duel)
	for wi, p := range w.plans {
		var ops []string
		for _, op := range p {
			ops = append(ops, w.opString(op))
		}
		w.note("writer %d: %s", wi, strings.Join(ops, "; "))
	}
}

func drawChunks(n int64, rate int, inOrder bool) []chunkPlan {
	D := verifsim.Draw
	if n == 0 {
		return nil
	}
	k := 1 + D("nchunks", 4)
	if int64(k) > n {
		k = int(n)
	}
	// k-1 strictly increasing cut points in [1,n-1]; no loop that waits for distinct draws
	var cs []int64
	prev := int64(0)
	for j := 0; j < k-1; j++ {
		room := n - prev - int64(k-1-j) // keep one byte for each later chunk
		c := prev + 1 + int64(D("cut", int(room)))
		cs = append(cs, c)
		prev = c
	}
	cs = append(cs, n)
	var out []chunkPlan
	start := int64(0)
	for _, c := range cs {
		cp := chunkPlan{start: start, end: c - 1, rf: drawReaderPlan(rate)}
		if rate > 0 {
			cp.skip = D("skip", 2*rate) == 0
			cp.badDigest = D("baddig", 4*rate) == 0
		}
		out = append(out, cp)
		start = c
	}
	if !inOrder {
		p := verifsim.Perm(len(out))
		sh := make([]chunkPlan, len(out))
		for i, j := range p {
			sh[i] = out[j]
		}
		out = sh
	}
	return out
}

func (w *blobWorld) opString(op blobOp) string {
	switch op.kind {
	case opPut, opImport:
		return fmt.Sprintf("%s(d%d,%s)", blobOpNames[op.kind], op.dig, op.rf)
	case opChunked:
		var cs []string
		for _, c := range op.chunks {
			s := fmt.Sprintf("%d-%d", c.start, c.end)
			if c.skip {
				s += ":skip"
			} else if c.badDigest {
				s += ":baddigest"
			} else if c.rf.mode != rdNone {
				s += ":" + c.rf.String()
			}
			cs = append(cs, s)
		}
		return fmt.Sprintf("Chunked(d%d,[%s],retry=%v)", op.dig, strings.Join(cs, " "), op.retry)
	case opLink:
		return fmt.Sprintf("Link(%s,d%d)", w.names[op.name].variants[op.variant], op.dig)
	case opForeign:
		return fmt.Sprintf("ForeignManifest(%s,d%d)", w.names[op.name].variants[op.variant], op.dig)
	case opUnlink, opResolve:
		return fmt.Sprintf("%s(%s)", blobOpNames[op.kind], w.names[op.name].variants[op.variant])
	case opGet:
		return fmt.Sprintf("Get(d%d)", op.dig)
	}
	return blobOpNames[op.kind]
}

// ---- causes (middle part of the signature) ---------------------------------------

func (w *blobWorld) digestCause(d *blobDigest, chunks bool) string {
	if d.n == 0 {
		return "empty-blob"
	}
	if chunks && d.chunkGap {
		// a chunked session (running, ended, or cut by the crash) has not stored all its chunks
		return "partial-chunks"
	}
	var fk []string
	for k := range d.faults {
		fk = append(fk, k)
	}
	sort.Strings(fk)
	if d.overlapped {
		if len(fk) > 0 || w.crashKind != "" {
			// a writer killed by the crash is a failed writer
			return "concurrent-failed-writer"
		}
		return "concurrent-writers"
	}
	if w.crashKind != "" {
		return w.crashKind
	}
	switch len(fk) {
	case 0:
		if w.ctl.ErrRate > 0 {
			return "disk-errors"
		}
		return "none"
	case 1:
		return fk[0]
	}
	return "multi-fault"
}

func (w *blobWorld) nameCause(m *nameModel) string {
	switch {
	case m.crashLink:
		return "crash-during-link"
	case m.overlap || m.active > 0:
		return "concurrent-name-ops"
	case m.lastMut == "link-failed":
		return "after-failed-link"
	case m.lastMut == "link-ok" && m.lastBusy:
		return "linked-incomplete-blob"
	case w.crashKind != "":
		return "after-crash"
	case w.ctl.ErrRate > 0:
		return "disk-errors"
	}
	return "none"
}

// ---- observation ---------------------------------------------------------------------

// present: does the cache report d with its size (the real Get; no yields on
// the controller, wrapped in Atomic by task-side callers).
func (w *blobWorld) present(d *blobDigest) bool {
	e, err := w.c.Get(d.d)
	return err == nil && e.Size == d.n
}

func (w *blobWorld) fileSum(dg Digest) ([32]byte, int, error) {
	b, err := os.ReadFile(w.c.GetFile(dg))
	if err != nil {
		return [32]byte{}, 0, err
	}
	return sha256.Sum256(b), len(b), nil
}

func describeDamage(want, got []byte) string {
	if len(want) != len(got) {
		return fmt.Sprintf("length %d instead of %d", len(got), len(want))
	}
	first, last, nbad, zero := -1, -1, 0, 0
	for i := range want {
		if want[i] != got[i] {
			if first < 0 {
				first = i
			}
			last = i
			nbad++
			if got[i] == 0 {
				zero++
			}
		}
	}
	return fmt.Sprintf("%d differing bytes in [%d,%d], %d of them zero", nbad, first, last, zero)
}

// checkDigests is I1 + the lasting half of I2. Called on the controller after
// every step that changed the disk, and from audits.
func (w *blobWorld) checkDigests(where string) {
	for _, d := range w.digests {
		p := w.present(d)
		d.presentNow = p
		if p {
			d.presentAt = w.stepNo
			sum, n, err := w.fileSum(d.d)
			if err == nil && int64(n) == d.n && sum != d.d.sum {
				got, _ := os.ReadFile(w.c.GetFile(d.d))
				cause := w.digestCause(d, true)
				w.violate(d.opKind(cause)+":"+cause+":size-ok-content-bad",
					"%s: Get(%s) reports the blob present with its size %d, but the file content has SHA-256 %x (%s)\nhistory of the digest: %s\ncase: %s",
					where, d.d.Short(), d.n, sum[:6], describeDamage(d.data, got), strings.Join(d.hist, " | "), strings.Join(w.desc, "\n  "))
				return
			}
		} else if d.stored != "" && d.n > 0 {
			// only a truncation makes a file shrink; chunk sessions never truncate
			cause := w.digestCause(d, false)
			w.violate(d.opKind(cause)+":"+cause+":stored-blob-vanished",
				"%s: %s of %s (%d bytes) returned nil earlier, nothing removes blobs, but Get no longer reports it with its size\nhistory of the digest: %s\ncase: %s",
				where, d.stored, d.d.Short(), d.n, strings.Join(d.hist, " | "), strings.Join(w.desc, "\n  "))
			return
		}
	}
}

func (w *blobWorld) onStep() {
	w.stepNo++
	if verifsim.IsCrashed() {
		return
	}
	if w.ctl.Ops == w.lastOps {
		for _, d := range w.digests {
			if d.presentNow {
				d.presentAt = w.stepNo
			}
		}
		return
	}
	w.lastOps = w.ctl.Ops
	w.checkDigests("after a step")
}

// storedOK is the immediate half of I2, called by the task right after the
// store operation returned nil (same step).
func (w *blobWorld) storedOK(d *blobDigest, op string) {
	verifsim.Atomic(func() {
		if !w.present(d) {
			cause := w.digestCause(d, strings.HasPrefix(op, "Chunk"))
			kind := strings.ToLower(op)
			if cause == "empty-blob" {
				kind = "store"
			}
			w.violate(kind+":"+cause+":store-ok-get-missing",
				"%s of %s (%d bytes) returned nil but Get does not report the blob with that size (Get: %v)\nhistory of the digest: %s\ncase: %s",
				op, d.d.Short(), d.n, blobGetErr(w.c, d.d), strings.Join(d.hist, " | "), strings.Join(w.desc, "\n  "))
			return
		}
		if d.stored == "" {
			d.stored = op
		}
	})
}

func blobGetErr(c *DiskCache, d Digest) string {
	e, err := c.Get(d)
	if err != nil {
		return err.Error()
	}
	return fmt.Sprintf("size %d", e.Size)
}

// ---- operations (run in tasks) ----------------------------------------------------

func (d *blobDigest) begin(kind string) {
	d.kinds[kind] = true
	d.starts++
	if d.active > 0 {
		d.overlapped = true
		verifsim.Probe("same_digest_writers_overlap")
	}
	d.active++
}

func (d *blobDigest) end() { d.active-- }

func (d *blobDigest) reader(data []byte, p readerPlan) *simReader {
	r := newSimReader(data, p)
	r.onFire = func(kind string) { d.faults[kind] = true }
	return r
}

func (w *blobWorld) doPut(who string, op blobOp) {
	d := w.digests[op.dig]
	r := d.reader(d.data, op.rf)
	d.begin("put")
	d.note("%s Put(%s) starts", who, op.rf)
	err := w.c.Put(d.d, r, d.n)
	d.end()
	d.note("%s Put(%s) = %v", who, op.rf, err)
	if err == nil {
		verifsim.Probe("put_ok")
		if r.reads == 0 {
			verifsim.Probe("put_trusted_existing_file")
		}
		w.storedOK(d, "Put")
	} else {
		verifsim.Probe("put_failed")
		if r.fired == "" {
			w.info["put_failed_without_fault"]++
		}
	}
}

func (w *blobWorld) doImport(who string, op blobOp) {
	d := w.digests[op.dig]
	r := d.reader(d.data, op.rf)
	d.begin("import")
	d.note("%s Import(%s) starts", who, op.rf)
	got, err := w.c.Import(r, d.n)
	d.end()
	d.note("%s Import(%s) = %s, %v", who, op.rf, got.Short(), err)
	if err != nil {
		verifsim.Probe("import_failed")
		return
	}
	verifsim.Probe("import_ok")
	t := d
	if got != d.d {
		// a corrupted source of the right length: Import stores what it read under the digest of what it read
		t = w.addDigest(append([]byte{}, r.src[:r.pos]...))
		t.kinds["import"] = true
		t.note("%s Import of a corrupted source of d%d = %s", who, d.idx, got.Short())
		if t.d != got {
			w.violate("import:"+w.digestCause(d, false)+":import-digest-wrong", "Import returned %s for a source whose delivered bytes hash to %s", got.Short(), t.d.Short())
			return
		}
		verifsim.Probe("import_other_content")
	}
	w.storedOK(t, "Import")
}

func (w *blobWorld) doChunked(who string, op blobOp) {
	d := w.digests[op.dig]
	d.begin("chunked")
	d.note("%s Chunked starts", who)
	ck, err := w.c.Chunked(d.d, d.n)
	if err != nil {
		d.end()
		d.note("%s Chunked = %v", who, err)
		verifsim.Probe("chunked_open_failed")
		return
	}
	if len(op.chunks) > 0 {
		d.chunkGap = true
	}
	okc := make([]bool, len(op.chunks))
	put := func(i int, cp chunkPlan, rf readerPlan, bad bool) {
		part := d.data[cp.start : cp.end+1]
		cd := DigestFromBytes(part)
		if bad {
			cd.sum[3] ^= 0x40
			verifsim.Fault("chunk_digest_wrong")
		}
		r := d.reader(part, rf)
		err := ck.Put(Chunk{Start: cp.start, End: cp.end}, cd, r)
		d.note("%s chunk %d-%d (%s) = %v", who, cp.start, cp.end, rf, err)
		if err == nil {
			okc[i] = true
			verifsim.Probe("chunk_ok")
		} else {
			verifsim.Probe("chunk_failed")
		}
	}
	for i, cp := range op.chunks {
		if cp.skip {
			verifsim.Fault("chunk_never_attempted")
			continue
		}
		put(i, cp, cp.rf, cp.badDigest)
	}
	if op.retry {
		for i, cp := range op.chunks {
			if !okc[i] {
				put(i, cp, readerPlan{chunkSel: cp.rf.chunkSel}, false)
			}
		}
	}
	cerr := ck.Close()
	// the session stored the blob if every chunk of the tiling was accepted and Close did not object
	// (os.ErrInvalid: Close of a Chunker for a blob that was in the cache already)
	complete := cerr == nil || errors.Is(cerr, os.ErrInvalid)
	for _, ok := range okc {
		complete = complete && ok
	}
	d.end()
	d.note("%s Chunker.Close = %v, complete=%v", who, cerr, complete)
	if complete {
		// every chunk of a tiling of the blob was stored successfully in this session
		d.chunkGap = false
		verifsim.Probe("chunked_complete")
		w.storedOK(d, "Chunked")
	} else {
		verifsim.Probe("chunked_incomplete")
	}
}

func (w *blobWorld) doLink(who string, op blobOp) {
	m := w.names[op.name]
	d := w.digests[op.dig]
	name := m.variants[op.variant]
	// observations that count for I3 are those made from the end of the current step on
	// (the step in which the call starts may itself have changed the disk before the call)
	s0 := w.stepNo + 1
	fileState := func() string {
		st, err := os.Stat(w.c.GetFile(d.d))
		switch {
		case err != nil:
			return "no-file"
		case d.n == 0:
			return "empty-blob"
		case st.Size() == 0:
			return "zero-length-file"
		case st.Size() == d.n:
			return "full-size-file"
		}
		return "partial-file"
	}
	before := fileState()
	quiet := d.active == 0
	starts0 := d.starts
	tk := m.beginMut(d.d.String())
	m.note("%s Link(%s,d%d) starts (blob file: %s)", who, name, d.idx, before)
	err := w.c.Link(name, d.d)
	m.note("%s Link(%s,d%d) = %v", who, name, d.idx, err)
	if err != nil {
		m.endMut(tk, d.d.String(), false)
		m.lastMut = "link-failed"
		verifsim.Probe("link_refused")
		return
	}
	m.endMut(tk, d.d.String(), true)
	m.lastMut = "link-ok"
	m.lastBusy = before != "full-size-file" || !quiet || d.starts != starts0
	m.past[d.d.String()] = true
	verifsim.Probe("link_ok")
	// I3: the blob existed at some instant of the call
	verifsim.Atomic(func() {
		if d.presentAt >= s0 || w.present(d) {
			return
		}
		// the state of the blob file when the call started names the cause
		// no writer of the blob during the call: the state of the blob file when the call started names the cause
		cause := "concurrent-blob-writer"
		if quiet && d.starts == starts0 {
			cause = before
			if cause == "full-size-file" {
				cause = fileState()
			}
		}
		w.violate("link:"+cause+":link-ok-blob-absent",
			"Link(%s, %s) returned nil although Get never reported the blob (size %d) present during the call (now: %s)\nhistory of the digest: %s\nhistory of the name: %s\ncase: %s",
			name, d.d.Short(), d.n, blobGetErr(w.c, d.d), strings.Join(d.hist, " | "), strings.Join(m.hist, " | "), strings.Join(w.desc, "\n  "))
	})
}

// doForeign rewrites the manifest file of a name without going through the
// cache (atomically: temporary file + rename), with the bytes of one of the
// case's digests, whether or not that blob is in the cache. This is what the
// legacy store and a user editing a manifest do; Resolve documents that it
// re-hashes the file and re-stores it as a blob for exactly this case.
func (w *blobWorld) doForeign(who string, op blobOp) {
	m := w.names[op.name]
	d := w.digests[op.dig]
	name := m.variants[op.variant]
	path, err := w.c.manifestPath(name)
	if err != nil || d.n == 0 {
		return // nobody writes an empty manifest
	}
	if m.active > 0 {
		// An external writer racing a Link/Unlink of the same name is outside the statement
		// (its histories are of cache operations): on a case-sensitive file system the two
		// can create files for two spellings of the name, which no cache-side lock prevents.
		verifsim.Probe("foreign_manifest_skipped_name_busy")
		return
	}
	tk := m.beginMut(d.d.String())
	tmp := filepath.Join(w.tmp, "foreign-manifest")
	if err := os.MkdirAll(filepath.Dir(path), 0o777); err != nil {
		panic(err)
	}
	if err := os.WriteFile(tmp, d.data, 0o644); err != nil {
		panic(err)
	}
	if err := os.Rename(tmp, path); err != nil {
		panic(err)
	}
	w.ctl.Ops++ // the disk changed
	m.endMut(tk, d.d.String(), true)
	m.lastMut = "foreign"
	m.past[d.d.String()] = true
	m.note("%s ForeignManifest(%s,d%d)", who, name, d.idx)
	verifsim.Probe("foreign_manifest")
}

func (w *blobWorld) doUnlink(who string, op blobOp) {
	m := w.names[op.name]
	name := m.variants[op.variant]
	tk := m.beginMut("")
	ok, err := w.c.Unlink(name)
	m.note("%s Unlink(%s) = %v, %v", who, name, ok, err)
	m.endMut(tk, "", err == nil)
	if err == nil {
		m.lastMut = "unlink"
		verifsim.Probe("unlink_ok")
	}
}

// doResolve is I4 for one name variant; it returns a comparable summary of the result.
func (w *blobWorld) doResolve(who string, m *nameModel, variant int) string {
	name := m.variants[variant]
	rs := m.beginRead()
	got, err := w.c.Resolve(name)
	m.endRead(rs)
	seen := rs.m
	m.note("%s Resolve(%s) = %s, %v", who, name, got.Short(), err)
	ctx := func() string {
		var al []string
		for k := range seen {
			if k == "" {
				k = "<not linked>"
			} else if len(k) > 15 {
				k = k[7:15]
			}
			al = append(al, k)
		}
		sort.Strings(al)
		return fmt.Sprintf("candidates by the history: [%s]\nhistory of the name: %s\ncase: %s", strings.Join(al, " "), strings.Join(m.hist, " | "), strings.Join(w.desc, "\n  "))
	}
	cause := w.nameCause(m)
	if rs.over && !m.crashLink {
		cause = "concurrent-name-ops"
	}
	if err != nil {
		if errors.Is(err, fs.ErrNotExist) {
			verifsim.Probe("resolve_not_linked")
			if !seen[""] {
				w.violate("resolve:"+cause+":resolve-notexist-but-linked", "Resolve(%s) reports the name absent although it is linked\n%s", name, ctx())
			}
			return "absent"
		}
		verifsim.Probe("resolve_error")
		if errors.Is(err, syscall.ENOSPC) || errors.Is(err, syscall.EACCES) {
			// the disk-error arm: Resolve has to store the manifest as a blob and may fail like any store
			return "error"
		}
		if !seen[""] {
			w.violate("resolve:"+cause+":resolve-error-but-linked", "Resolve(%s) fails with %v although the name is linked\n%s", name, err, ctx())
		}
		return "error"
	}
	verifsim.Probe("resolve_ok")
	if !seen[got.String()] {
		what := "resolve-garbage"
		switch {
		case m.past[got.String()]:
			what = "resolve-stale-after-relink"
			if len(seen) == 1 && seen[""] {
				what = "resolve-stale-after-unlink"
			}
		case got == DigestFromBytes(""):
			what = "resolve-empty-manifest"
		}
		w.violate("resolve:"+cause+":"+what, "Resolve(%s) = %s, which is not the digest of the bytes linked to the name\n%s", name, got.Short(), ctx())
		return got.String()
	}
	// the blob resolved to is retrievable and has that content
	verifsim.Atomic(func() {
		e, gerr := w.c.Get(got)
		if gerr != nil {
			c := cause
			if got == DigestFromBytes("") {
				c = "empty-blob"
			}
			w.violate("resolve:"+c+":resolve-ok-blob-missing", "Resolve(%s) = %s but Get of that digest fails: %v\n%s", name, got.Short(), gerr, ctx())
			return
		}
		sum, n, rerr := w.fileSum(got)
		if rerr != nil || int64(n) != e.Size || sum != got.sum {
			w.violate("resolve:"+cause+":resolve-ok-blob-corrupt", "Resolve(%s) = %s but the blob file has %d bytes with SHA-256 %x (read error %v)\n%s", name, got.Short(), n, sum[:6], rerr, ctx())
		}
	})
	return got.String()
}

func (w *blobWorld) doLinks(who string) {
	verifsim.Atomic(func() {
		var listed []string
		for n, err := range w.c.Links() {
			if err != nil {
				return
			}
			listed = append(listed, n)
		}
		verifsim.Probe("links_listed")
		// "a name is linked only to a manifest blob that exists": every listed name is one
		// the workload linked (in some spelling), whatever happened - failed operations and
		// crashes included
		for _, l := range listed {
			known := false
			for _, m := range w.names {
				for _, v := range m.variants {
					if strings.EqualFold(l, v) {
						known = true
					}
				}
			}
			if !known {
				w.violate("links:phantom-name", "Links() lists %q, a name nobody ever linked (all listed: %v)\ncase: %s", l, listed, strings.Join(w.desc, "\n  "))
				return
			}
		}
		for _, m := range w.names {
			if m.active > 0 || len(m.poss) != 1 {
				continue
			}
			found := false
			for _, l := range listed {
				if strings.EqualFold(l, m.variants[0]) {
					found = true
				}
			}
			if linked := !m.poss[""]; linked != found {
				w.violate("links:"+w.nameCause(m)+":links-mismatch", "Links() lists %v; name %s linked=%v by the history\nhistory of the name: %s\ncase: %s",
					listed, m.variants[0], linked, strings.Join(m.hist, " | "), strings.Join(w.desc, "\n  "))
			}
		}
	})
}

func (w *blobWorld) doOp(who string, op blobOp) {
	w.info["ops"]++
	if w.inflight == nil {
		w.inflight = map[string]blobOp{}
	}
	w.inflight[who] = op
	w.doOp1(who, op)
	// not deferred: a writer unwound by the crash leaves its entry behind, which is the point
	delete(w.inflight, who)
}

func (w *blobWorld) doOp1(who string, op blobOp) {
	switch op.kind {
	case opPut:
		w.doPut(who, op)
	case opImport:
		w.doImport(who, op)
	case opChunked:
		w.doChunked(who, op)
	case opLink:
		w.doLink(who, op)
	case opUnlink:
		w.doUnlink(who, op)
	case opResolve:
		w.doResolve(who, w.names[op.name], op.variant)
	case opGet:
		d := w.digests[op.dig]
		if _, err := w.c.Get(d.d); err == nil {
			verifsim.Probe("get_hit")
		} else {
			verifsim.Probe("get_miss")
		}
	case opLinks:
		w.doLinks(who)
	case opForeign:
		w.doForeign(who, op)
	}
}

// audit: quiescent check of everything (end of the reference run, after the
// reopen, after the redo operations).
func (w *blobWorld) audit(where string) {
	// the audit is the oracle's own look at the cache: no disk errors while it runs
	rate := w.ctl.ErrRate
	w.ctl.ErrRate = 0
	defer func() { w.ctl.ErrRate = rate }()
	verifsim.Atomic(func() { w.checkDigests(where) })
	for _, m := range w.names {
		first := ""
		for vi := range m.variants {
			r := w.doResolve(where, m, vi)
			if vi == 0 {
				first = r
			} else if r != first {
				w.violate("resolve:"+w.nameCause(m)+":case-variants-differ", "%s: Resolve(%s) = %s but Resolve(%s) = %s\nhistory of the name: %s",
					where, m.variants[0], first, m.variants[vi], r, strings.Join(m.hist, " | "))
			}
		}
	}
	w.doLinks(where)
	verifsim.Atomic(func() { w.checkDigests(where) })
}

// afterCrash: the process died. What the dead process had in flight stays a
// candidate; nothing is in flight any more.
func (w *blobWorld) afterCrash() {
	kind := "crash"
	c := w.ctl.Crashed
	f := strings.Fields(c)
	if len(f) >= 3 {
		if f[0] == "torn" {
			kind = "crash_torn_write"
		} else {
			kind = "crash_before_" + f[1]
		}
		switch p := f[len(f)-1]; {
		case strings.Contains(p, "/manifests/"):
			kind += "@manifest"
		case strings.Contains(p, "/blobs/"):
			kind += "@blob"
		case strings.HasPrefix(p, w.tmp):
			kind += "@tmp"
		}
	}
	w.crashKind = kind
	w.note("process died: %s", strings.ReplaceAll(c, filepath.Dir(w.dir), ""))
	for _, d := range w.digests {
		d.active = 0
		d.note("-- crash (%s) --", kind)
	}
	for _, m := range w.names {
		if m.active > 0 {
			m.crashLink = true
		}
		m.active = 0
		m.gen++
		m.readers = nil
		m.note("-- crash (%s) --", kind)
	}
}

func coarseNow() time.Time { return time.Now().Truncate(time.Second) }

func (w *blobWorld) recoverTask() {
	c, err := Open(w.dir)
	if err != nil {
		w.violate("open:"+w.crashKind+":reopen-failed", "Open(%s) after the crash fails: %v", w.dir, err)
		w.finished = true
		return
	}
	if w.coarse {
		c.now = coarseNow
	}
	w.c = c
	verifsim.Probe("crash_reopened")
	w.audit("after crash+reopen")
	// what a client does after the process died under it: the interrupted store operations are
	// repeated (fault-free) - one run in two, before anything else touches what they left behind
	if w.redoInterrupted {
		var whos []string
		for who := range w.inflight {
			whos = append(whos, who)
		}
		sort.Strings(whos)
		for _, who := range whos {
			op := w.inflight[who]
			if op.kind != opPut && op.kind != opImport && op.kind != opChunked {
				continue
			}
			op.rf.mode = rdNone
			op.retry = false
			op.chunks = append([]chunkPlan(nil), op.chunks...)
			for i := range op.chunks {
				op.chunks[i].rf.mode, op.chunks[i].skip, op.chunks[i].badDigest = rdNone, false, false
			}
			verifsim.Probe("interrupted_store_repeated")
			w.note("restarted process repeats the interrupted %s", w.opString(op))
			w.doOp("restarted", op)
		}
		w.audit("after repeating the interrupted operations")
	}
	for _, op := range w.post {
		w.note("restarted process: %s", w.opString(op))
		w.doOp("restarted", op)
	}
	if len(w.post) > 0 {
		w.audit("after the redo operations")
	}
	w.finished = true
}

// ---- one execution --------------------------------------------------------------------

// blobCase executes the case drawn from tape once. point < 0: reference run
// (returns the number of enumeration points). point >= 0: the process dies at
// crash point point*stride+offset, where stride (1, 3 or 9; swarm: cases with
// few points leave time for more cases) and offset are drawn with the case.
func blobCase(t *testing.T, tape *verifsim.Tape, tier string, keepLog bool, point int) (verifsim.Result, int) {
	npoints := 0
	res := verifsim.Run(t, tape, keepLog, func(sim *verifsim.Sim, res *verifsim.Result) {
		torn := verifsim.Draw("tornsel", 1<<20)
		strides := [...]int{1, 1, 3, 9}
		if tier == "thorough" {
			strides = [...]int{1, 1, 1, 3}
		}
		stride := strides[verifsim.Draw("stride", len(strides))]
		offset := verifsim.Draw("stride-off", stride)
		crashAt := -1
		if point >= 0 {
			crashAt = point*stride + offset
			torn += crashAt * 7919
		}
		w := newBlobWorld(t, sim, tier, crashAt, torn)
		defer w.close()
		w.drawPlan()
		sim.OnStep = w.onStep
		for wi := range w.plans {
			wi := wi
			sim.Go(fmt.Sprintf("writer%d", wi), func() {
				for _, op := range w.plans[wi] {
					w.doOp(fmt.Sprintf("w%d", wi), op)
				}
				w.done++
			})
		}
		stop := sim.RunUntil(func() bool { return w.done == len(w.plans) }, 10*time.Minute, 20000)
		switch stop {
		case verifsim.CondTrue:
			res.Info["crash_points_in_cases"] += w.ctl.Points
			if w.ctl.Points > offset {
				npoints = (w.ctl.Points - offset + stride - 1) / stride
			}
			sim.Go("audit", func() {
				w.audit("end of the workload")
				w.finished = true
			})
			stop = sim.RunUntil(func() bool { return w.finished }, time.Minute, 10000)
		case verifsim.Crashed:
			sim.Crash()
			sim.ResetCrash()
			w.afterCrash()
			w.ctl.CrashAt = -1
			sim.Go("restarted", w.recoverTask)
			stop = sim.RunUntil(func() bool { return w.finished }, time.Minute, 20000)
		}
		switch stop {
		case verifsim.CondTrue, verifsim.Violated:
		case verifsim.Crashed:
			res.Info["unexpected_second_crash"]++
		default:
			res.Info["budget_exhausted_"+stop.String()]++
		}
		for k, v := range w.info {
			res.Info[k] += v
		}
		res.Info["vfs_mutating_calls"] += w.ctl.Ops
		if crashAt >= 0 && w.crashKind == "" {
			res.Info["crash_point_not_reached"]++
		}
		res.Sample = append(w.desc, w.ctl.Log...)
		if len(res.Sample) > 80 {
			res.Sample = res.Sample[:80]
		}
		sim.OnStep = nil
		if stop != verifsim.CondTrue {
			// tasks are still parked inside the cache code: unwind them (against a frozen disk) instead of leaking them
			sim.Crash()
		}
	})
	return res, npoints
}

// blobAssumed is a development aid (never set by registered checks): signatures
// listed one per line in the file $VERIF_ASSUME_KNOWN are treated like open
// known findings, so that the search can be looked at beyond them before the
// coordinator has triaged them.
var blobAssumed = func() map[string]bool {
	b, err := os.ReadFile(os.Getenv("VERIF_ASSUME_KNOWN"))
	if err != nil {
		return nil
	}
	m := map[string]bool{}
	for _, l := range strings.Split(string(b), "\n") {
		if l = strings.TrimSpace(l); l != "" && !strings.HasPrefix(l, "#") {
			m[l] = true
		}
	}
	return m
}()

func runBlob(t *testing.T, tape *verifsim.Tape, prop, tier string, keepLog bool) verifsim.Result {
	maxPoints := 48
	if tier == "thorough" {
		maxPoints = 400
	}
	r := verifsim.Enumerate(tape, maxPoints,
		func(tp *verifsim.Tape) (verifsim.Result, int) { return blobCase(t, tp, tier, keepLog, -1) },
		func(tp *verifsim.Tape, k int) verifsim.Result {
			r, _ := blobCase(t, tp, tier, keepLog, k)
			return r
		})
	if len(blobAssumed) > 0 && len(r.Violations) > 0 && blobAssumed[r.Violations[0].Signature] {
		r.Info["assumed_known "+r.Violations[0].Signature]++
		r.Violations = nil
	}
	return r
}

func TestVerifBlob(t *testing.T) {
	slog.SetDefault(slog.New(slog.NewTextHandler(io.Discard, &slog.HandlerOptions{Level: slog.LevelError + 8})))
	verifsim.WorkerMain(t, verifsim.Harness{
		Name:       "blob",
		RunOne:     runBlob,
		PanicProps: []string{"C08"},
		Real: []string{"server/internal/cache/blob cache.go chunked.go digest.go (instrumented, unmodified logic): DiskCache.Put/Import/Chunked/Link/Unlink/Resolve/Get/Links, Chunker.Put/Close, checkWriter",
			"server/internal/internal/names", "real files on tmpfs through the vfs pass-through (crash points, torn writes)"},
		Stub: []string{"source io.Readers (simulated: tape-chosen read sizes, short/long/corrupt/error)", "process death = freeze + unwind + reopen (no power-loss reordering)"},
		Rule: map[string]string{
			"*": "one case = a tape-drawn workload (1-3 writer tasks, 1-3 digests of 0-64 KB, 1-2 names with case variants, 1-6 operations per writer, isolated or shared arm, reader faults at a drawn rate); one evaluation = one simulated execution of it: the reference run, or the same case with the process dying at one enumerated crash point (before a mutating file-system call or after a prefix of a write), followed by reopen, audit, redo operations, audit; non-trivial = a crash point fired or at least two tasks were runnable at some step; distinct = different hash of the (task,label,time) decision sequence",
		},
		NonTrivial: func(prop string, r *verifsim.Result) bool { return r.MaxRunnable >= 2 || r.Info["enum_points_run"] > 0 },
		Assumptions: []string{"instrumentation preserves single-threaded semantics", "testing/synctest fake clock and quiescence detection",
			"pre-emption only at file-system calls and source reads", "crash = process death with a live kernel: completed system calls are durable, an interrupted write leaves a prefix"},
	})
}
