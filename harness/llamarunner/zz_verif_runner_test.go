//go:build verif

package llamarunner

import (
	"testing"

	"github.com/ollama/ollama/llama"
)

func TestVerifLlamaRunner(t *testing.T) {
	llama.ResetSimModels()
	s := &Server{}
	_ = s
}
