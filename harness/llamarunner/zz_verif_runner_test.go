//go:build verif

package llamarunner

// H-llamarunner: the real llamarunner.Server (run loop, completion handler,
// NewSequence, input cache; runner.go and cache.go instrumented) under the
// simulated scheduler. Package llama (cgo binding of llama.cpp) is replaced for
// this build by harness/llamafake: a pure-Go model of llama.cpp's unified KV
// cache, tokenizer and sampler. Clients call the real completion handler over
// an in-memory ResponseWriter. Second stage of C07 and C14 (the first stage is
// harness "runner" = runner/ollamarunner). The layout mirrors
// harness/ollamarunner/zz_verif_runner_test.go.

import (
	"bytes"
	"context"
	"encoding/json"
	"errors"
	"fmt"
	"io"
	"log/slog"
	"net/http"
	"os"
	"runtime"
	"strconv"
	"strings"
	"testing"
	"time"

	"golang.org/x/sync/semaphore"

	"github.com/ollama/ollama/api"
	"github.com/ollama/ollama/llama"
	"github.com/ollama/ollama/llm"
	"github.com/ollama/ollama/verifsim"
)

const (
	cacheShift     = iota // unified cache that can shift (most models)
	cacheNoShift          // unified cache that cannot shift (llama_kv_self_can_shift false: deepseek2)
	cacheRecurrent        // recurrent state per sequence: no shift, no partial erase (Mamba / RWKV)
)

type runCfg struct {
	arm       int // 0 fault-free, 1 client-side faults, 2 decode failures (+ client-side faults)
	parallel  int
	numCtx    int
	batch     int
	multiUser bool
	cacheMode int
	pad       int
	addBOS    bool
	flashAttn bool
	decodeErr int // arm 2: one Decode in decodeErr fails
	images    int // > 0: a (simulated) clip projector is loaded and prompts refer to this many images

	nClients     int
	reqPerClient int
	cancelRate   int // 1/n of the requests are cancelled by their client (0 = none)
	slowRate     int
	writeErrRate int
	textBias     bool // C14: favour generation over cache pressure
}

func (c *runCfg) String() string {
	mode := [...]string{"shift", "no-shift", "recurrent"}[c.cacheMode]
	return fmt.Sprintf("arm=%d parallel=%d ctx=%d batch=%d multiuser=%v cache=%s pad=%d addBOS=%v flashAttn=%v decodeErr=1/%d images=%d clients=%d x%d cancel=1/%d slow=1/%d writeErr=1/%d",
		c.arm, c.parallel, c.numCtx, c.batch, c.multiUser, mode, c.pad, c.addBOS, c.flashAttn, c.decodeErr, c.images, c.nClients, c.reqPerClient, c.cancelRate, c.slowRate, c.writeErrRate)
}

func drawRunCfg(prop, tier string) *runCfg {
	d := verifsim.Draw
	c := &runCfg{}
	switch d("arm", 10) {
	case 0, 1, 2, 3, 4:
		c.arm = 0
	case 5, 6, 7, 8:
		c.arm = 1
	default:
		c.arm = 2
	}
	c.textBias = prop == "C14" && d("text-bias", 4) != 0
	c.parallel = 1 + d("parallel", 4)
	ctxs := []int{2, 3, 4, 4, 6, 8, 8, 8, 12, 16, 16, 24, 32, 48, 64}
	if c.textBias {
		ctxs = []int{8, 16, 32, 48, 64, 64}
	}
	c.numCtx = ctxs[d("ctx", len(ctxs))]
	c.batch = 1 + d("batch", 8)
	if d("bigbatch", 8) == 0 {
		c.batch = 16
	}
	c.multiUser = d("multiuser", 2) == 0
	c.cacheMode = []int{cacheShift, cacheShift, cacheShift, cacheShift, cacheNoShift, cacheRecurrent}[d("cachemode", 6)]
	// llama.cpp rounds the cache size up to a multiple of 32 (256 with flash attention).
	// Production sizes (num_ctx x parallel) are multiples of 32, i.e. no slack at all; the
	// scaled-down contexts of the simulation get the same situation with a padding of 1.
	c.pad = []int{32, 1, 1, 8}[d("pad", 4)]
	c.flashAttn = c.pad == 32 && d("flashattn", 8) == 0
	c.addBOS = d("addbos", 4) == 0
	if c.arm == 2 {
		c.decodeErr = 20 + d("decodeerr", 60)
	}
	if !c.textBias && d("images", 5) == 0 {
		c.images = 1 + d("nimages", 3)
	}

	maxClients := 5
	if tier == "thorough" {
		maxClients = 9
	}
	c.nClients = 2 + d("clients", maxClients)
	if d("single-client", 10) == 0 {
		c.nClients = 1
	}
	c.reqPerClient = 1 + d("reqs", 3)
	if tier == "thorough" {
		c.reqPerClient = 1 + d("reqs", 5)
	}
	if c.arm != 0 {
		c.cancelRate = []int{0, 3, 6, 10}[d("cancelrate", 4)]
		c.slowRate = []int{0, 4, 8}[d("slowrate", 3)]
		c.writeErrRate = []int{0, 0, 8}[d("writeerr", 3)]
		if c.arm == 1 && c.cancelRate == 0 && c.slowRate == 0 && c.writeErrRate == 0 {
			c.cancelRate = 4
		}
	}
	return c
}

// ---- one Server under test -------------------------------------------------------------

type liveSeq struct {
	seq *Sequence
	req *reqState
}

// seqLog is the story of one cache sequence since it was last cleared completely.
type seqLog struct {
	ops   []string // most recent notable operations (messages)
	kinds []string // every kind of operation seen (signatures)
}

func (l *seqLog) op(name string) {
	known := false
	for _, k := range l.kinds {
		if k == name {
			known = true
		}
	}
	if !known {
		l.kinds = append(l.kinds, name)
	}
	if n := len(l.ops); n > 0 && l.ops[n-1] == name {
		return
	}
	if len(l.ops) >= 12 {
		copy(l.ops, l.ops[1:])
		l.ops = l.ops[:len(l.ops)-1]
	}
	l.ops = append(l.ops, name)
}

func (l *seqLog) has(name string) bool {
	for _, k := range l.kinds {
		if k == name {
			return true
		}
	}
	return false
}

func (l *seqLog) reset() { l.ops, l.kinds = nil, nil }

type simServer struct {
	name     string
	w        *runWorld
	cfg      *runCfg
	parallel int
	sc       *llama.SimConfig
	s        *Server
	cancel   context.CancelFunc
	fatal    string
	injected bool // a Decode failure was injected into this server
	exited   bool
	slotReq  []*reqState
	live     []liveSeq
	taskReq  map[string]*reqState
	logs     []*seqLog
	decodes  int
	clean    bool // no injected faults (reference servers)
	kvSeen   int  // cache version at the last slot-content check
}

var simModelSeq int

func (w *runWorld) newServer(name string, parallel, batch int, clean bool) *simServer {
	cfg := w.cfg
	srv := &simServer{name: name, w: w, cfg: cfg, parallel: parallel, taskReq: map[string]*reqState{}, clean: clean, kvSeen: -1}
	for i := 0; i < parallel; i++ {
		srv.logs = append(srv.logs, &seqLog{})
	}
	pieces := append([]string(nil), w.v.pieces...)
	srv.sc = &llama.SimConfig{
		Pieces:       pieces,
		EOG:          0,
		BOS:          int(w.v.bos),
		AddBOS:       cfg.addBOS,
		CanShift:     cfg.cacheMode == cacheShift,
		Recurrent:    cfg.cacheMode == cacheRecurrent,
		Pad:          cfg.pad,
		BeforeDecode: srv.beforeDecode,
		AfterDecode:  srv.afterDecode,
		Next:         srv.next,
		OnOp:         srv.onOp,
	}
	if cfg.pad == 32 {
		srv.sc.Pad = 0 // as llama.cpp: 32, 256 with flash attention
	}
	simModelSeq++
	path := "sim://" + name + "/" + strconv.Itoa(simModelSeq)
	llama.RegisterSimModel(path, srv.sc)

	// what Execute does, without the listener
	s := &Server{
		batchSize: batch,
		parallel:  parallel,
		seqs:      make([]*Sequence, parallel),
		seqsSem:   semaphore.NewWeighted(int64(parallel)),
		status:    llm.ServerStatusLoadingModel,
	}
	s.ready.Add(1)
	s.cond = verifsim.NewCond(&s.mu)
	ppath := ""
	if cfg.images > 0 {
		// a llava-style projector: image bytes {rows, id} -> rows embeddings (id, row, 0, 0)
		ppath = path + "/mmproj"
		llama.RegisterSimClip(ppath, func(data []byte) ([][]float32, error) {
			if len(data) != 2 {
				return nil, errors.New("sim clip: bad image")
			}
			out := make([][]float32, int(data[0]))
			for k := range out {
				out[k] = []float32{float32(data[1]), float32(k), 0, 0}
			}
			return out, nil
		})
	}
	// the real loadModel: LoadModelFromFile, NewContextParams, NewContextWithModel, NewImageContext, NewInputCache
	s.loadModel(llama.ModelParams{Progress: func(p float32) { s.progress = p }}, path, nil, ppath, cfg.numCtx*parallel, "", cfg.flashAttn, 1, cfg.multiUser)
	srv.s = s
	srv.slotReq = make([]*reqState, parallel)
	return srv
}

// start runs the Server's own run loop as a task. The loop panics on a
// processBatch error: the runner process dies. After an injected Decode
// failure that is the designed reaction and merely ends this server; without
// one it is a crash of the code under test and is reported (class panic,
// against C07: every such error comes from cache / slot management). Any
// other panic (index out of range, abort inside the llama.cpp model) is
// reported with the repo function it came from.
func (srv *simServer) start() {
	ctx, cancel := context.WithCancel(context.Background())
	srv.cancel = cancel
	verifsim.Go("run:"+srv.name, func() {
		defer func() {
			srv.exited = true
			if r := recover(); r != nil {
				if fmt.Sprintf("%T", r) == "verifsim.crashSentinel" {
					panic(r) // the kernel unwinding this task at teardown
				}
				if err, ok := r.(error); ok && srv.isBatchError(err) {
					srv.fatal = err.Error()
					verifsim.Probe("runner_fatal_batch_error")
					if srv.injected {
						return
					}
					srv.w.violate("C07", "panic", "panic:run-loop:"+fatalClass(srv.fatal), "%s: the run loop panicked with a processBatch error (the runner process dies): %s\n  slots: %s", srv.name, srv.fatal, srv.slotSummary())
					return
				}
				buf := make([]byte, 16384)
				buf = buf[:runtime.Stack(buf, false)]
				msg := fmt.Sprint(r)
				srv.fatal = msg
				if a, ok := r.(llama.Abort); ok {
					// llama.cpp would abort the process here (GGML_ASSERT / GGML_ABORT / C++ exception)
					srv.w.violate("C07", "panic", "abort:llama.cpp:"+abortKind(a.Msg)+"@"+verifsim.StackRepoFunc(string(buf)), "%s: llama.cpp aborts the runner process: %s\n  slots: %s\n%s", srv.name, a.Msg, srv.slotSummary(), buf)
					return
				}
				srv.w.violate(srv.w.prop, "panic", "panic:"+panicKind(msg)+"@"+verifsim.StackRepoFunc(string(buf)), "%s: unrecovered panic in the run loop: %s\n  slots: %s\n%s", srv.name, msg, srv.slotSummary(), buf)
			}
		}()
		srv.s.run(ctx)
	})
}

func abortKind(msg string) string {
	switch {
	case strings.Contains(msg, "K-shift"):
		return "k-shift-unsupported"
	case strings.Contains(msg, "invalid token"):
		return "invalid-token"
	case strings.Contains(msg, "n_batch"):
		return "batch-exceeds-n_batch"
	case strings.Contains(msg, "invalid logits id"):
		return "sample-without-logits"
	case strings.Contains(msg, "batch overflow"):
		return "batch-overflow"
	case strings.Contains(msg, "defrag"):
		return "defrag"
	}
	return "other"
}

func (srv *simServer) slotSummary() string {
	var sb strings.Builder
	for i := range srv.s.cache.slots {
		sl := &srv.s.cache.slots[i]
		fmt.Fprintf(&sb, "slot %d: %d inputs inUse=%v; ", i, len(sl.Inputs), sl.InUse)
	}
	return sb.String()
}

// isBatchError recognises the errors processBatch returns on purpose.
func (srv *simServer) isBatchError(err error) bool {
	msg := err.Error()
	return strings.Contains(msg, "failed to decode batch") || strings.Contains(msg, "unable to shift context")
}

func (srv *simServer) stop(sim *verifsim.Sim) {
	if srv.cancel != nil {
		srv.cancel()
	}
}

// ---- hooks of the llama.cpp model --------------------------------------------------------------

func (srv *simServer) log(seq int) *seqLog {
	for len(srv.logs) <= seq {
		srv.logs = append(srv.logs, &seqLog{})
	}
	return srv.logs[seq]
}

// onOp is told about every KV cache operation, on the goroutine that performs it.
func (srv *simServer) onOp(c *llama.Context, op llama.OpInfo) {
	a := op.Args
	debugf("%s: kv %s%v ok=%v cells=%d others=%v", srv.name, op.Name, a, op.OK, op.Cells, op.Others)
	switch op.Name {
	case "seq_rm":
		seq, p0, p1 := a[0], a[1], a[2]
		if seq < 0 {
			return
		}
		l := srv.log(seq)
		if p1 < 0 {
			// LoadCacheSlot / findBestCacheSlot (on the handler's goroutine), or the reset in
			// ShiftCacheSlot's fallback (on the run loop's goroutine)
			r := srv.taskReq[verifsim.TaskKey()]
			if r != nil && seq < len(srv.slotReq) {
				srv.slotReq[seq] = r
				r.slot = seq
				r.admitted = true
			}
			if !op.OK {
				verifsim.Probe("partial_erase_refused")
				l.op("erase-refused")
				return
			}
			if p0 <= 0 {
				if r == nil {
					verifsim.Probe("shift_fallback")
				}
				l.reset()
				return
			}
			if op.Cells > 0 {
				l.op("trim")
			}
			return
		}
		// middle removal: first half of a context shift
		if !op.OK {
			verifsim.Probe("shift_erase_refused")
			l.op("shift-refused")
			return
		}
		l.op("shift")
	case "seq_add":
		verifsim.Probe("shift_ok")
		if len(op.Others) > 0 {
			verifsim.Probe("shift_moved_shared_cells")
			srv.log(a[0]).op("shift-moved-shared-cells")
			for _, o := range op.Others {
				srv.log(o).op("shifted-by-other-sequence")
			}
		}
	case "seq_cp":
		verifsim.Probe("fork")
		srv.log(a[1]).reset()
		srv.log(a[1]).op("fork")
		srv.log(a[0]).op("forked")
	}
}

// beforeDecode: pre-emption point and fault injection.
func (srv *simServer) beforeDecode(c *llama.Context, b *llama.Batch) error {
	verifsim.Yield("sim:decode")
	srv.decodes++
	if !srv.clean && srv.cfg.decodeErr > 0 && verifsim.Draw("decode-fail", srv.cfg.decodeErr) == 0 {
		srv.injected = true
		if verifsim.Draw("decode-fail-kind", 2) == 0 {
			verifsim.Fault("decode_kv_cache_full")
			return llama.ErrKvCacheFull
		}
		verifsim.Fault("decode_error")
		return errors.New("llama_decode failed with code -3")
	}
	return nil
}

// next is the scripted network: a pure function of what the batch entry sees.
func (srv *simServer) next(c *llama.Context, row *llama.DecodeRow) int {
	h := uint64(14695981039346656037)
	h = fnv64(h, 0xabcd)
	for _, e := range row.Visible {
		h = fnv64(h, uint64(uint32(int32(e.Tok)))<<32|uint64(uint32(int32(e.Pos))))
	}
	return int(srv.w.v.next(h, int32(row.Tok)))
}

// ---- requests and clients ---------------------------------------------------------------

type reqState struct {
	id         int
	client     int
	prompt     []int32
	numPredict int
	numKeep    int
	stops      []string
	embedding  bool // sent to the embeddings handler (LoadCacheSlot with cachePrompt=false, no generation)

	cancelAfterWrites int // cancel the request context after this many response writes (-1: never)
	cancelAfter       time.Duration
	writeErrAt        int // the k-th write fails (-1: never)
	slow              time.Duration

	// observations
	admitted   bool
	slot       int
	gen        []int32 // tokens the model emitted for this request, in order (EOS included)
	lastRec    []int32 // the slot's record (Inputs + pending) at the last Decode of this request
	finalRec   []int32 // the slot's record when the sequence was removed
	haveFinal  bool
	seen       bool
	seenCached bool // the request started on a slot that already held a prefix of its prompt
	decodes    int
	pieces     []string
	final      *llm.CompletionResponse
	status     int
	errBody    string
	cancelled  bool // the client cancelled or its connection broke
	done       bool
}

// tokensString renders a prompt: token ids, and [img-k] for the image marker -(k+1).
func tokensString(t []int32) string {
	var sb strings.Builder
	for i, x := range t {
		if i > 0 {
			sb.WriteByte(' ')
		}
		if x < 0 {
			sb.WriteString("[img-" + strconv.Itoa(int(-x-1)) + "]")
			continue
		}
		sb.WriteString(strconv.Itoa(int(x)))
	}
	return sb.String()
}

func (r *reqState) String() string {
	p := tokensString(r.prompt)
	if len(p) > 120 {
		p = p[:120] + "..."
	}
	if r.embedding {
		return fmt.Sprintf("req#%d client=%d EMBEDDING prompt(%d)=[%s]", r.id, r.client, len(r.prompt), p)
	}
	return fmt.Sprintf("req#%d client=%d prompt(%d)=[%s] predict=%d keep=%d stop=%q cancelWrites=%d cancelAfter=%v writeErrAt=%d slow=%v",
		r.id, r.client, len(r.prompt), p, r.numPredict, r.numKeep, r.stops, r.cancelAfterWrites, r.cancelAfter, r.writeErrAt, r.slow)
}

type memWriter struct {
	hdr    http.Header
	buf    bytes.Buffer
	code   int
	writes int
	r      *reqState
	cancel context.CancelFunc
}

func (w *memWriter) Header() http.Header { return w.hdr }
func (w *memWriter) WriteHeader(c int) {
	// like net/http: the status line goes out with the first Write; later calls are ignored
	if w.code == 0 && w.writes == 0 {
		w.code = c
	}
}
func (w *memWriter) Flush() {}
func (w *memWriter) Write(b []byte) (int, error) {
	verifsim.Yield("client:write")
	w.writes++
	r := w.r
	if r.writeErrAt >= 0 && w.writes > r.writeErrAt {
		if !r.cancelled {
			verifsim.Fault("response_write_error")
		}
		r.cancelled = true
		return 0, errors.New("sim: write: broken pipe")
	}
	if r.slow > 0 {
		verifsim.Sleep(r.slow)
	}
	w.buf.Write(b)
	if r.cancelAfterWrites >= 0 && w.writes > r.cancelAfterWrites && !r.cancelled {
		r.cancelled = true
		verifsim.Fault("client_cancel_after_writes")
		w.cancel()
	}
	return len(b), nil
}

type runWorld struct {
	t       *testing.T
	prop    string
	tier    string
	cfg     *runCfg
	v       *vocab
	main    *simServer
	bases   [][]int32
	imgRows []int // image k becomes imgRows[k] embeddings
	reqs    []*reqState
	nDone   int // clients finished
	desc    []string
	nextReq int
	other   map[string]int // violations of the property that is not being checked in this run
	tainted bool           // VERIF_IGNORE matched in this run
	cancels []context.CancelFunc
	closing bool // teardown has begun: no new requests
}

func (w *runWorld) note(f string, a ...any) {
	if len(w.desc) < 70 {
		w.desc = append(w.desc, fmt.Sprintf(f, a...))
	}
	if verifDebug {
		fmt.Fprintf(os.Stderr, "  | "+f+"\n", a...)
	}
}

// debugf prints the harness-level story of a run (VERIF_DEBUG=1, replay by hand).
func debugf(f string, a ...any) {
	if verifDebug {
		fmt.Fprintf(os.Stderr, "  | "+f+"\n", a...)
	}
}

var verifDebug = os.Getenv("VERIF_DEBUG") != ""

// VERIF_IGNORE=substr,substr: development aid (never set by registered checks): violations whose
// signature contains one of the substrings are counted and dropped, so that the search can be
// continued past a finding that is already understood.
var verifIgnore = strings.Split(os.Getenv("VERIF_IGNORE"), ",")

// VERIF_ALLPROPS=1: development aid (never set by registered checks): violations found by the oracle of
// the property that is not being checked are reported too (signature prefix other:<ID>:).
var verifAllProps = os.Getenv("VERIF_ALLPROPS") != ""

// Every signature of this harness starts with "llamarunner:": the same symptom names exist in
// harness "runner" (the Go engine runner), whose known findings and fixes must not be
// confused with findings in runner/llamarunner's own copy of the code.
func (w *runWorld) violate(prop, class, sig, f string, a ...any) {
	sig = "llamarunner:" + sig
	if prop != w.prop {
		// the other property's oracle: its check reports it; do not cut this run short
		w.other[prop+":"+sig]++
		if !verifAllProps {
			return
		}
		sig = "other:" + prop + ":" + sig
		prop = w.prop
	}
	if w.tainted {
		return
	}
	for _, ig := range verifIgnore {
		if ig != "" && strings.Contains(sig, ig) {
			// like a known finding: the run is counted and discarded, later symptoms of the same run too
			w.other["ignored:"+sig]++
			w.tainted = true
			return
		}
	}
	verifsim.Violate(prop, class, sig, fmt.Sprintf(f, a...)+"\n  config: "+w.cfg.String()+"\n  "+w.v.describe())
}

func (w *runWorld) drawToken() int32 {
	n := w.v.nPrompt
	if n > 6 {
		n = 6
	}
	if n < 1 {
		return 1
	}
	if w.cfg.images > 0 && verifsim.Draw("img", 8) == 0 {
		return int32(-(1 + verifsim.Draw("imgid", w.cfg.images)))
	}
	if w.cfg.images > 0 && verifsim.Draw("tok0", 8) == 0 {
		// token id 0 is an ordinary token of real vocabularies ("!" or <unk>), and it is
		// also what the token field of an image-embedding input holds
		verifsim.Probe("token_zero_in_prompt")
		return 0
	}
	return int32(1 + verifsim.Draw("tok", n))
}

func (w *runWorld) drawTokens(n int) []int32 {
	out := make([]int32, 0, n)
	for i := 0; i < n; i++ {
		out = append(out, w.drawToken())
	}
	return out
}

func (w *runWorld) drawBases() {
	d := verifsim.Draw
	nc := w.cfg.numCtx
	for i, n := 0, 1+d("nbases", 3); i < n; i++ {
		var l int
		switch d("baselen", 7) {
		case 0:
			l = 1 + d("l", 3)
		case 1, 2:
			l = 1 + d("l", max(1, nc/2))
		case 3:
			l = max(1, nc-2+d("l", 3))
		case 4:
			l = nc + 1 + d("l", nc)
		case 5:
			l = 1 + d("l", nc)
		default:
			l = max(1, nc/2+d("l", max(1, nc/2)))
		}
		if w.cfg.textBias {
			l = 1 + d("l", max(1, nc/4))
		}
		w.bases = append(w.bases, w.drawTokens(l))
	}
}

// effective: the inputs NewSequence will see for a prompt (BOS in front when the model wants one).
func (w *runWorld) effective(prompt []int32) []int32 {
	var out []int32
	if w.cfg.addBOS {
		out = append(out, w.v.bos)
	}
	for _, t := range prompt {
		if t >= 0 {
			out = append(out, t)
			continue
		}
		k := int(-t - 1)
		for row := 0; row < w.imgRows[k]; row++ {
			out = append(out, int32(llama.EmbedID([]float32{float32(k), float32(row)})))
		}
	}
	return out
}

// drawRequest is called by the client task when it is about to send: the
// prompt may build on what earlier requests produced.
func (w *runWorld) drawRequest(client int) *reqState {
	d := verifsim.Draw
	cfg := w.cfg
	r := &reqState{id: w.nextReq, client: client, cancelAfterWrites: -1, writeErrAt: -1, slot: -1}
	w.nextReq++
	var finished []*reqState
	for _, o := range w.reqs {
		if o.done {
			finished = append(finished, o)
		}
	}
	kind := d("promptkind", 8)
	if len(finished) == 0 && kind >= 5 {
		kind = d("promptkind2", 5)
	}
	b := w.bases[d("base", len(w.bases))]
	switch kind {
	case 0, 1:
		r.prompt = append([]int32(nil), b...)
	case 2, 3:
		r.prompt = append(append([]int32(nil), b...), w.drawTokens(d("suffix", 7))...)
	case 4:
		cut := 1 + d("cut", len(b))
		r.prompt = append(append([]int32(nil), b[:cut]...), w.drawTokens(d("suffix", 5))...)
	case 5:
		o := finished[d("prev", len(finished))]
		r.prompt = append([]int32(nil), o.prompt...)
	default:
		// conversation continuation: previous prompt + what was generated + a new turn
		o := finished[d("prev", len(finished))]
		r.prompt = append([]int32(nil), o.prompt...)
		for _, t := range o.gen {
			if t != 0 {
				r.prompt = append(r.prompt, t)
			}
		}
		r.prompt = append(r.prompt, w.drawTokens(1+d("turn", 4))...)
		if len(r.prompt) > 4*cfg.numCtx+8 {
			r.prompt = r.prompt[:4*cfg.numCtx+8]
		}
	}
	if len(r.prompt) == 0 {
		r.prompt = []int32{1}
	}
	if !cfg.textBias && d("embedding", 10) == 0 {
		// the embeddings endpoint shares the slots and the run loop with completions
		r.embedding = true
		return r
	}
	unlimited := false
	switch d("predict", 8) {
	case 0:
		r.numPredict = []int{-1, 0}[d("unl", 2)]
		unlimited = true
	case 1:
		r.numPredict = 1
	case 2:
		r.numPredict = 2 + d("np", 4)
	case 3:
		// now and then a generation longer than the response channel is deep (100): with a
		// slow reader the run loop meets a full channel, also when the sequence ends
		r.numPredict = 1 + d("np", 40)
		if d("long", 3) == 0 {
			r.numPredict = 101 + d("np-long", 60)
		}
	default:
		r.numPredict = 1 + d("np", 40)
	}
	switch d("keep", 6) {
	case 0:
		r.numKeep = 0
	case 1:
		r.numKeep = 1 + d("k", 3)
	case 2:
		r.numKeep = cfg.numCtx / 2
	case 3:
		r.numKeep = -1
	case 4:
		r.numKeep = cfg.numCtx + 5
	default:
		r.numKeep = 4
	}
	if len(w.v.stops) > 0 {
		for _, i := range verifsim.Perm(len(w.v.stops)) {
			if d("usestop", 3) != 0 {
				r.stops = append(r.stops, w.v.stops[i])
			}
		}
	}
	if cfg.cancelRate > 0 && d("cancel", cfg.cancelRate) == 0 {
		if d("cancelkind", 2) == 0 {
			r.cancelAfterWrites = d("cancelwrites", 6)
		} else {
			r.cancelAfter = time.Duration(1+d("cancelus", 3000)) * time.Microsecond
		}
	}
	if cfg.slowRate > 0 && d("slow", cfg.slowRate) == 0 {
		r.slow = time.Duration(1+d("slowus", 2000)) * time.Microsecond
	}
	if cfg.writeErrRate > 0 && d("writeerr", cfg.writeErrRate) == 0 {
		r.writeErrAt = d("writeerrat", 5)
	}
	if unlimited && r.cancelAfter == 0 && r.cancelAfterWrites < 0 {
		// an unlimited request ends at EOS, or when its client gives up
		r.cancelAfter = time.Duration(2000+d("giveup", 20000)) * time.Microsecond
	}
	return r
}

// doRequest sends r to srv through the real handler and records the stream.
func (w *runWorld) doRequest(srv *simServer, r *reqState) {
	key := verifsim.TaskKey()
	srv.taskReq[key] = r
	if r.embedding {
		w.doEmbedding(srv, r, key)
		return
	}
	opts := api.DefaultOptions()
	opts.Temperature = 0
	opts.NumPredict = r.numPredict
	opts.NumKeep = r.numKeep
	opts.Stop = r.stops
	var images []llm.ImageData
	for _, t := range r.prompt {
		if t < 0 {
			k := int(-t - 1)
			known := false
			for _, im := range images {
				known = known || im.ID == k
			}
			if !known {
				images = append(images, llm.ImageData{ID: k, Data: []byte{byte(w.imgRows[k]), byte(k)}})
			}
		}
	}
	body, err := json.Marshal(llm.CompletionRequest{Prompt: tokensString(r.prompt), Images: images, Options: &opts})
	if err != nil {
		panic(err)
	}
	ctx, cancel := context.WithCancel(context.Background())
	w.cancels = append(w.cancels, cancel)
	hr, _ := http.NewRequestWithContext(ctx, "POST", "/completion", bytes.NewReader(body))
	mw := &memWriter{hdr: http.Header{}, r: r, cancel: cancel}
	if r.cancelAfter > 0 {
		verifsim.Go("cancel#"+strconv.Itoa(r.id), func() {
			verifsim.Sleep(r.cancelAfter)
			if !r.done && !r.cancelled {
				r.cancelled = true
				verifsim.Fault("client_cancel_timer")
				cancel()
			}
		})
	}
	srv.s.completion(mw, hr)
	verifsim.Yield("client:returned")
	cancel()
	delete(srv.taskReq, key)
	r.status = mw.code
	if r.status == 0 {
		r.status = 200
	}
	dec := json.NewDecoder(&mw.buf)
	for {
		var cr llm.CompletionResponse
		if err := dec.Decode(&cr); err != nil {
			if err != io.EOF {
				rest, _ := io.ReadAll(io.MultiReader(dec.Buffered(), &mw.buf))
				r.errBody = strings.TrimSpace(string(rest))
			}
			break
		}
		if cr.Done {
			c := cr
			r.final = &c
			continue
		}
		r.pieces = append(r.pieces, cr.Content)
	}
	r.done = true
}

// doEmbedding sends r to the real embeddings handler.
func (w *runWorld) doEmbedding(srv *simServer, r *reqState, key string) {
	body, err := json.Marshal(llm.EmbeddingRequest{Content: tokensString(r.prompt)})
	if err != nil {
		panic(err)
	}
	// (the handler only honours the context while it waits for a free entry of Server.seqs)
	ctx, cancel := context.WithCancel(context.Background())
	w.cancels = append(w.cancels, cancel)
	hr, _ := http.NewRequestWithContext(ctx, "POST", "/embedding", bytes.NewReader(body))
	mw := &memWriter{hdr: http.Header{}, r: r, cancel: func() {}}
	srv.s.embeddings(mw, hr)
	verifsim.Yield("client:returned")
	delete(srv.taskReq, key)
	r.status = mw.code
	if r.status == 0 {
		r.status = 200
	}
	var er llm.EmbeddingResponse
	if err := json.NewDecoder(&mw.buf).Decode(&er); err != nil {
		r.errBody = err.Error()
	} else if r.status == 200 {
		verifsim.Probe("embedding_request_ok")
	}
	r.done = true
}

func (w *runWorld) client(ci int) {
	d := verifsim.Draw
	for k := 0; k < w.cfg.reqPerClient; k++ {
		verifsim.Sleep(time.Duration(d("think", 400)) * time.Microsecond * time.Duration(1+9*d("think-long", 2)))
		if w.main.exited || w.closing {
			break
		}
		r := w.drawRequest(ci)
		w.reqs = append(w.reqs, r)
		w.note("%s", r)
		w.doRequest(w.main, r)
		w.afterRequest(w.main, r)
	}
	w.nDone++
}

// ---- the run -------------------------------------------------------------------------------

func panicKind(msg string) string {
	switch {
	case strings.Contains(msg, "slice bounds out of range"):
		return "slice-bounds"
	case strings.Contains(msg, "index out of range"):
		return "index-range"
	case strings.Contains(msg, "nil pointer dereference"):
		return "nil-deref"
	case strings.Contains(msg, "divide by zero"):
		return "div-zero"
	}
	return "other"
}

func fatalClass(msg string) string {
	switch {
	case strings.Contains(msg, "could not find a kv cache slot"):
		return "kv-cache-full"
	case strings.Contains(msg, "unable to shift context"):
		return "keep-exceeds-context"
	case strings.Contains(msg, "llama_decode failed"):
		return "decode-error"
	}
	return "other"
}

func verifQuietLogs() {
	slog.SetDefault(slog.New(slog.NewTextHandler(io.Discard, &slog.HandlerOptions{Level: slog.LevelError + 8})))
}

func runLlamaRunner(t *testing.T, tape *verifsim.Tape, prop, tier string, keepLog bool) verifsim.Result {
	return verifsim.Run(t, tape, keepLog, func(sim *verifsim.Sim, res *verifsim.Result) {
		llama.ResetSimModels()
		cfg := drawRunCfg(prop, tier)
		w := &runWorld{t: t, prop: prop, tier: tier, cfg: cfg, other: map[string]int{}}
		w.v = drawVocab(tier)
		w.v.finish()
		for k := 0; k < cfg.images; k++ {
			w.imgRows = append(w.imgRows, 1+verifsim.Draw("imgrows", 4))
		}
		w.drawBases()
		w.note("config: %s", cfg)
		w.note("%s", w.v.describe())
		res.Info["arm"+strconv.Itoa(cfg.arm)]++
		res.Info["cache_"+[...]string{"shift", "noshift", "recurrent"}[cfg.cacheMode]]++
		if cfg.images > 0 {
			res.Info["with_images"]++
		}

		w.main = w.newServer("main", cfg.parallel, cfg.batch, false)
		srv := w.main
		srv.start()

		states := map[uint64]bool{}
		sim.OnStep = func() {
			srv.onStep()
			if len(states) < 2048 {
				states[srv.stateHash()] = true
			}
		}
		for i := 0; i < cfg.nClients; i++ {
			i := i
			sim.Go("client"+strconv.Itoa(i), func() { w.client(i) })
		}
		stepBudget := 60000
		if tier == "thorough" {
			stepBudget = 200000
		}
		stop := sim.RunUntil(func() bool { return w.nDone == cfg.nClients }, 10*time.Minute, stepBudget)
		res.Info["stop_"+stop.String()]++
		if stop == verifsim.Idle {
			// nothing can run any more although clients are waiting
			if srv.fatal != "" {
				res.Info["runner_fatal"]++
				res.Info["runner_fatal:"+fatalClass(srv.fatal)]++
				w.note("run loop ended: %s", srv.fatal)
			} else {
				res.Info["stuck"]++
				_, detail := sim.BlockedSummary()
				w.note("STUCK: %s", detail)
			}
		}
		if stop == verifsim.CondTrue && srv.fatal == "" {
			// sequences of cancelled requests live on until the run loop notices: let them
			// leave, so that the slot bookkeeping of every request is checked at its end
			stop = sim.RunUntil(func() bool { return !srv.s.mu.Held() && srv.s.allNil() }, time.Minute, 20000)
			if stop != verifsim.CondTrue {
				res.Info["drain_"+stop.String()]++
				if stop == verifsim.Idle && srv.fatal != "" {
					// an injected Decode failure ended the run loop while the last sequences were leaving
					res.Info["drain_runner_fatal"]++
				}
			}
		}
		srv.onStep()
		sim.OnStep = nil
		// the main server is finished: its run loop must not run during the reference phase
		srv.stop(sim)
		sim.AbortCondWaiters()

		if stop == verifsim.CondTrue && prop == "C07" && srv.fatal == "" {
			w.differential(sim, res)
		}

		for _, r := range w.reqs {
			switch {
			case !r.done:
				res.Info["req_unfinished"]++
			case r.embedding:
				res.Info["req_embedding"]++
			case r.cancelled:
				res.Info["req_cancelled"]++
			case r.final != nil:
				res.Info["req_completed"]++
			default:
				res.Info["req_error"]++
			}
			res.Info["tokens_generated"] += len(r.gen)
		}
		res.Info["decodes"] += srv.decodes
		df, mv, ks := srv.s.lc.KvStats()
		res.Info["kv_defrags"] += df
		res.Info["kv_defrag_cells_moved"] += mv
		res.Info["kv_kshifts"] += ks
		if df > 0 {
			verifsim.Probe("kv_defrag")
		}
		for k, n := range w.other {
			res.Info["other_property_violation:"+k] += n
		}
		for h := range states {
			res.States = append(res.States, h)
		}
		res.Sample = w.desc

		// teardown: nothing may stay behind: end every request, stop the run loops, then
		// unwind whatever is still parked.
		sim.OnStep = nil
		w.closing = true
		for _, c := range w.cancels {
			c()
		}
		srv.stop(sim)
		sim.Drain(100*time.Millisecond, 20000)
		// an embeddings handler waits for its sequence without a way out; the run loop is gone
		for _, sq := range srv.s.seqs {
			if sq != nil && sq.embeddingOnly {
				func() {
					defer func() { recover() }()
					close(sq.embedding)
				}()
			}
		}
		sim.Drain(100*time.Millisecond, 2000)
		sim.AbortCondWaiters()
		sim.Crash()
		if n := sim.LiveTasks(); n > 0 {
			res.Info["tasks_left_behind"] += n
			if verifDebug {
				for _, t := range sim.Blocked() {
					res.Info["left:"+t.Name()+"@"+t.Label()]++
				}
			}
		}
		llama.ResetSimModels()
	})
}

func TestVerifLlamaRunner(t *testing.T) {
	verifQuietLogs()
	verifsim.WorkerMain(t, verifsim.Harness{
		Name:       "llamarunner",
		RunOne:     runLlamaRunner,
		PanicProps: []string{"C07", "C14"},
		Real: []string{"runner/llamarunner/runner.go (instrumented: Server.run, processBatch, completion and embeddings handlers, NewSequence, inputs, flushPending, removeSequence, loadModel)",
			"runner/llamarunner/cache.go (instrumented: InputCache, LoadCacheSlot, findLongest/BestCacheSlot with the KvCacheSeqCp fork, ShiftCacheSlot, ShiftDiscard)",
			"runner/llamarunner/image.go (ImageContext: NewImageContext, NewEmbed with the image cache, BatchSize, EmbedSize, NeedCrossAttention; over the simulated clip projector)",
			"runner/common/stop.go", "golang.org/x/sync/semaphore", "encoding/json stream encoding of llm.CompletionResponse"},
		Stub: []string{"package llama (cgo binding of llama.cpp) replaced by harness/llamafake: pure-Go model of llama.cpp's unified KV cache written after llama-kv-cache.cpp / llama_context::decode (cells with position, sequence-id set and token payload; seq_rm, seq_cp, seq_add, find_slot, defrag, K-shift, restore on failure; attention mask = cells of the entry's sequence with position <= its own), plus a recurrent-state mode (no partial erase) and a cannot-shift mode",
			"model (scripted network: next token = script(hash(visible (token, position) list)))",
			"tokenizer (per-run byte-string vocabulary: split multi-byte characters, stop-string fragments, invalid bytes, EOS, optional BOS)", "sampler (llama.SamplingContext returns the scripted token of the batch row)",
			"HTTP transport (in-memory ResponseWriter; clients call Server.completion directly)",
			"clip projector (simulated: image bytes -> 1-4 embeddings; the real ImageContext with its image cache runs over it in one run out of five)", "not driven: mllama inputs and cross-attention batches, LoRA, real model loading (loadModel runs, over the stand-in package); embedding vectors returned by the embeddings handler are zeros (it is driven for its use of slots and the run loop only)"},
		Rule: map[string]string{
			"C07": "llamarunner stage: one evaluation = one simulated execution of the real llamarunner.Server (run loop + 1-10 concurrent completion handlers, 1-4 slots) over the llama.cpp KV cache model, with tape-drawn configuration (context, batch, slot policy, cache that shifts / cannot shift / is recurrent, cache padding, BOS, with or without an image projector), request history (prompt tree with shared prefixes, repeats, continuations, over-long prompts, image references that become embedding inputs and embedding batches, one request in ten to the embeddings handler), client behaviour (cancel, slow reader, write error), Decode failures and interleaving, followed by one fresh single-slot reference Server per request; non-trivial = at least two tasks were runnable at some step and at least one request ran to completion; distinct = different hash of the (task, label, simulated time) decision sequence",
			"C14": "llamarunner stage: one evaluation = one simulated execution as for C07 (without the reference servers), biased towards generation: per-run vocabulary with split multi-byte characters, stop-string tilings and invalid bytes, 0-4 stop strings per request, prediction limits 1-40 or none, EOS; non-trivial = at least two tasks were runnable at some step and at least one request ran to completion; distinct = different hash of the decision sequence",
		},
		NonTrivial: func(prop string, r *verifsim.Result) bool { return r.MaxRunnable >= 2 && r.Info["req_completed"] > 0 },
		Assumptions: []string{"instrumentation (yields at synchronisation points, Mutex/Cond type swap, select determinisation) preserves single-threaded semantics",
			"testing/synctest fake clock and quiescence detection", "pre-emption only at synchronisation points (channel operations, locks, condition waits, semaphore, response writes, llama Decode)",
			"the llama.cpp stand-in (harness/llamafake) reproduces the cell bookkeeping of llama-kv-cache.cpp and the mask of llama-graph.cpp for the calls the runner makes; llama.cpp's own tensor code (K-shift and defrag data movement, attention kernels) is assumed to implement that bookkeeping correctly",
			"mllama inputs and cross-attention batches of runner/llamarunner are not driven"},
	})
}
