//go:build verif

package llamarunner

// Oracles of H-llamarunner (they mirror harness/ollamarunner/zz_verif_oracle_test.go).
//
// C07:
//  (1) at every Decode, per batch entry: the cells of the llama.cpp cache model
//      that the entry attends to are exactly (record[j], j) for j = 0..its own
//      position, where record = the slot's recorded Inputs plus the inputs
//      pending in this batch  -> class kv-history;
//  (1b) at every step at which Server.mu is free, for every slot: the cache
//      holds exactly one cell (record[j], j) of the slot's sequence id for every
//      recorded input (cells beyond the record are the tail a stop string cut
//      off; the next LoadCacheSlot erases from a position inside the record)
//      -> class slot-record;
//  (2) at every Decode and at every step at which Server.mu is free: a slot
//      is referenced by at most one live sequence, and InUse <=> referenced
//      -> class slot-exclusive;
//  (3) after the simulation: a fresh single-slot Server with an empty cache
//      generates the same tokens for the same request  -> class differential.
//
// C14: P1..P6 on (generated pieces G, received pieces R, final message), see checkStream.

import (
	"fmt"
	"strconv"
	"strings"
	"time"
	"unicode/utf8"

	"github.com/ollama/ollama/llama"
	"github.com/ollama/ollama/llm"
	"github.com/ollama/ollama/verifsim"
)

func inputTokens(in []input) []int32 {
	out := make([]int32, len(in))
	for i := range in {
		if in[i].embed != nil {
			out[i] = int32(llama.EmbedID(in[i].embed))
		} else {
			out[i] = int32(in[i].token)
		}
	}
	return out
}

// recString renders a slot record / cache content: token ids, and imgK.R for row R of image K.
func recString(t []int32) string {
	var sb strings.Builder
	for i, x := range t {
		if i > 0 {
			sb.WriteByte(' ')
		}
		sb.WriteString(entString(int(x)))
	}
	return sb.String()
}

func entString(x int) string {
	if x < 0 {
		return "img" + strconv.Itoa((-x-1)/64) + "." + strconv.Itoa((-x-1)%64)
	}
	return strconv.Itoa(x)
}

func (srv *simServer) family() string {
	return [...]string{"unified", "unified-noshift", "recurrent"}[srv.cfg.cacheMode]
}

// route names the operation class that explains a divergence on a cache sequence.
func (srv *simServer) route(slot int) string {
	l := srv.log(slot)
	switch {
	case l.has("shifted-by-other-sequence"):
		return "fork>shift-of-other-sequence-moved-shared-cells"
	case l.has("erase-refused"):
		return "after-refused-erase"
	case l.has("shift-refused"):
		return "after-refused-shift"
	case l.has("shift"):
		return "after-shift"
	case l.has("fork"):
		return "after-fork"
	case l.has("trim"):
		return "after-trim"
	}
	return "plain"
}

func (srv *simServer) liveFor(slot int) (*Sequence, int) {
	var found *Sequence
	n := 0
	for _, sq := range srv.s.seqs {
		if sq != nil && sq.cache != nil && sq.cache.Id == slot {
			found = sq
			n++
		}
	}
	return found, n
}

// checkSlots is oracle (2).
func (srv *simServer) checkSlots(where string) {
	s := srv.s
	refs := make([]int, len(s.cache.slots))
	for i, sq := range s.seqs {
		if sq == nil {
			continue
		}
		if sq.cache == nil {
			srv.w.violate("C07", "slot-exclusive", "slot:live-sequence-without-slot", "%s: live sequence %d has no cache slot", where, i)
			continue
		}
		id := sq.cache.Id
		if id < 0 || id >= len(refs) || sq.cache != &s.cache.slots[id] {
			srv.w.violate("C07", "slot-exclusive", "slot:foreign-slot", "%s: live sequence %d points to a slot outside the input cache (id %d)", where, i, id)
			continue
		}
		refs[id]++
	}
	for id, n := range refs {
		sl := &s.cache.slots[id]
		switch {
		case n > 1:
			srv.w.violate("C07", "slot-exclusive", "slot:shared-by-two-sequences", "%s: cache slot %d is used by %d live sequences at once", where, id, n)
		case n == 1 && !sl.InUse:
			srv.w.violate("C07", "slot-exclusive", "slot:referenced-but-not-in-use", "%s: cache slot %d is used by a live sequence but InUse is false (it can be handed to a second request)", where, id)
		case n == 0 && sl.InUse:
			srv.w.violate("C07", "slot-exclusive", "slot:in-use-but-unreferenced", "%s: cache slot %d is marked InUse but no live sequence uses it (slot leaked)", where, id)
		}
	}
}

// onStep runs on the controller after every step (and once at the end).
func (srv *simServer) onStep() {
	s := srv.s
	srv.probeBackpressure()
	if s.mu.Held() {
		return
	}
	srv.checkSlots("step")
	srv.trackSeqs()
	srv.checkCacheContent()
}

// probeBackpressure: a slow reader has let the response channel of a sequence fill up
// (the run loop then blocks in flushPending while holding Server.mu).
func (srv *simServer) probeBackpressure() {
	for _, sq := range srv.s.seqs {
		if sq != nil && len(sq.responses) == cap(sq.responses) {
			verifsim.Probe("response_channel_full")
			return
		}
	}
}

// trackSeqs notices sequences that appeared in / disappeared from Server.seqs.
func (srv *simServer) trackSeqs() {
	s := srv.s
	// departures
	kept := srv.live[:0]
	for _, l := range srv.live {
		still := false
		for _, sq := range s.seqs {
			if sq == l.seq {
				still = true
			}
		}
		if still {
			kept = append(kept, l)
			continue
		}
		srv.departed(l)
	}
	srv.live = kept
	// arrivals
	for _, sq := range s.seqs {
		if sq == nil || sq.cache == nil {
			continue
		}
		known := false
		for _, l := range srv.live {
			if l.seq == sq {
				known = true
			}
		}
		if known {
			continue
		}
		id := sq.cache.Id
		var r *reqState
		if id >= 0 && id < len(srv.slotReq) {
			r = srv.slotReq[id]
		}
		if r == nil || r.seen {
			// cannot attribute (only possible after a slot-exclusivity violation)
			continue
		}
		r.seen = true
		srv.live = append(srv.live, liveSeq{seq: sq, req: r})
		if n := len(sq.cache.Inputs); n > 0 {
			r.seenCached = true
			verifsim.Probe("prefix_cache_hit")
			if n+1 >= sq.numPromptInputs {
				verifsim.Probe("prefix_cache_hit_whole_prompt")
			}
		}
		if len(srv.w.effective(r.prompt)) > s.cache.numCtx {
			verifsim.Probe("prompt_truncated")
		}
	}
}

// departed: the sequence of l.req has just been removed from Server.seqs; its
// slot has not been touched since (Server.mu was held until now).
func (srv *simServer) departed(l liveSeq) {
	r := l.req
	slot := l.seq.cache
	r.finalRec = inputTokens(slot.Inputs)
	r.haveFinal = true
	debugf("%s: req#%d left slot %d: reason=%d numPredicted=%d numPredict=%d record=[%s]", srv.name, r.id, slot.Id, l.seq.doneReason, l.seq.numPredicted, l.seq.numPredict, recString(r.finalRec))
}

func visString(vis []llama.VisEnt) string {
	var sb strings.Builder
	for _, e := range vis {
		fmt.Fprintf(&sb, "%s@%d ", entString(e.Tok), e.Pos)
	}
	return sb.String()
}

// compareHistory compares what the cache holds / shows (ordered by position) with the
// expected tokens at positions 0..len(want)-1. Entries at positions >= len(want) are
// ignored when allowTail is set. It returns a symptom ("" = equal) and a description.
func compareHistory(got []llama.VisEnt, want []int32, allowTail bool) (string, string) {
	count := make([]int, len(want))
	wrongTok := -1
	beyond := 0
	for _, e := range got {
		if e.Pos < 0 || e.Pos >= len(want) {
			beyond++
			continue
		}
		count[e.Pos]++
		if int32(e.Tok) != want[e.Pos] && wrongTok < 0 {
			wrongTok = e.Pos
		}
	}
	var missing, dup []int
	for p, n := range count {
		if n == 0 {
			missing = append(missing, p)
		} else if n > 1 {
			dup = append(dup, p)
		}
	}
	switch {
	case len(missing) > 0 && len(dup) > 0:
		return "wrong-position", fmt.Sprintf("no entry at positions %v, several entries at positions %v", missing, dup)
	case len(missing) > 0:
		return "missing-entries", fmt.Sprintf("no entry at positions %v", missing)
	case len(dup) > 0:
		return "extra-entries", fmt.Sprintf("several entries at positions %v", dup)
	case beyond > 0 && !allowTail:
		return "extra-entries", fmt.Sprintf("%d entries at positions outside 0..%d", beyond, len(want)-1)
	case wrongTok >= 0:
		for _, e := range got {
			if e.Pos == wrongTok {
				return "wrong-token", fmt.Sprintf("position %d holds token %d, the record says %d", wrongTok, e.Tok, want[wrongTok])
			}
		}
	}
	return "", ""
}

// checkCacheContent is oracle (1b): runs when Server.mu is free and the cache has changed.
func (srv *simServer) checkCacheContent() {
	s := srv.s
	if s.lc == nil || s.lc.KvVersion() == srv.kvSeen {
		return
	}
	srv.kvSeen = s.lc.KvVersion()
	for i := range s.cache.slots {
		sl := &s.cache.slots[i]
		want := inputTokens(sl.Inputs)
		got := s.lc.KvSeq(sl.Id)
		if symptom, detail := compareHistory(got, want, true); symptom != "" {
			srv.w.violate("C07", "slot-record", "slot-content:"+srv.family()+":"+symptom+":"+srv.route(sl.Id),
				"%s: slot %d (inUse=%v): the cache does not hold what the slot's record says: %s\n  cache sequence %d: %s\n  slot record: [%s]\n  operations on this cache sequence since it was last cleared: %v",
				srv.name, sl.Id, sl.InUse, detail, sl.Id, visString(got), recString(want), srv.log(sl.Id).ops)
			return
		}
	}
}

// afterDecode is called by the llama.cpp model at the end of every successful
// Decode (Server.mu held by the run loop).
func (srv *simServer) afterDecode(c *llama.Context, rows []llama.DecodeRow) {
	srv.checkSlots("decode")
	srv.trackSeqs()
	seqs := 0
	last := -1
	for i := range rows {
		if sq := rows[i].Seqs[0]; sq != last {
			seqs++
			last = sq
		}
	}
	if seqs > 1 {
		verifsim.Probe("multi_seq_batch")
	}
	if len(rows) > 0 && rows[0].Embed {
		verifsim.Probe("image_embedding_batch")
	}
	srv.checkRows(rows)
	for i := range rows {
		if rows[i].Logits {
			debugf("  %s: slot %d row %d -> next token %d", srv.name, rows[i].Seqs[0], i, rows[i].Next)
			srv.generated(rows[i].Seqs[0], int32(rows[i].Next))
		}
	}
}

// checkRows is oracle (1).
func (srv *simServer) checkRows(rows []llama.DecodeRow) {
	type seqInfo struct {
		sq   *Sequence
		want []int32
		req  *reqState
	}
	infos := map[int]*seqInfo{}
	reported := false
	for i := range rows {
		row := &rows[i]
		slot := row.Seqs[0]
		info := infos[slot]
		if info == nil {
			sq, n := srv.liveFor(slot)
			if n != 1 {
				// reported by checkSlots
				infos[slot] = &seqInfo{}
				continue
			}
			info = &seqInfo{sq: sq, want: append(inputTokens(sq.cache.Inputs), inputTokens(sq.pendingInputs)...)}
			for _, l := range srv.live {
				if l.seq == sq {
					info.req = l.req
				}
			}
			infos[slot] = info
			if info.req != nil {
				info.req.lastRec = info.want
				info.req.decodes++
			}
		}
		if info.sq == nil || reported {
			continue
		}
		p := row.Pos
		if p < 0 || p >= len(info.want) || info.want[p] != int32(row.Tok) {
			srv.w.violate("C07", "kv-history", "kv-history:batch-row-vs-record", "%s: slot %d: batch entry %d carries token %d at position %d, the slot record (%d inputs incl. pending) disagrees", srv.name, slot, i, row.Tok, p, len(info.want))
			continue
		}
		symptom, detail := compareHistory(row.Visible, info.want[:p+1], false)
		if symptom == "" {
			continue
		}
		srv.w.violate("C07", "kv-history", "kv-history:"+srv.family()+":"+symptom+":"+srv.route(slot),
			"%s: slot %d: batch entry %d (token %d at position %d) does not see exactly the recorded inputs at positions 0..%d: %s\n  visible through the mask: %s\n  slot record + pending: [%s]\n  operations on this cache sequence since it was last cleared: %v\n  request: %v",
			srv.name, slot, i, row.Tok, p, p, detail, visString(row.Visible), recString(info.want), srv.log(slot).ops, info.req)
		reported = true
	}
}

// generated: token nt is what the sampler will pick for the sequence in slot.
func (srv *simServer) generated(slot int, nt int32) {
	sq, n := srv.liveFor(slot)
	if n != 1 {
		return
	}
	for _, l := range srv.live {
		if l.seq == sq {
			if !l.req.embedding {
				// (the last prompt entry of an embedding request asks for output as well; nothing is sampled)
				l.req.gen = append(l.req.gen, nt)
			}
			return
		}
	}
}

func (srv *simServer) stateHash() uint64 {
	h := uint64(14695981039346656037)
	s := srv.s
	for i := range s.cache.slots {
		sl := &s.cache.slots[i]
		x := uint64(len(sl.Inputs)) << 1
		if sl.InUse {
			x |= 1
		}
		h = fnv64(h, x)
	}
	for _, sq := range s.seqs {
		if sq == nil {
			h = fnv64(h, 0xffff)
			continue
		}
		h = fnv64(h, uint64(len(sq.inputs))<<20|uint64(len(sq.pendingResponses))<<10|uint64(sq.numPredicted&0x3ff))
	}
	return h
}

// ---- after each request: C07 (3b) and the C14 stream oracle -------------------------------------

func containsAnyStop(s string, stops []string) (bool, int) {
	n := 0
	for _, st := range stops {
		if strings.Contains(s, st) {
			n++
		}
	}
	return n > 0, n
}

func (w *runWorld) afterRequest(srv *simServer, r *reqState) {
	if r.status != 200 {
		verifsim.Probe("request_rejected")
		w.note("req#%d -> HTTP %d %s", r.id, r.status, r.errBody)
		return
	}
	if !r.admitted {
		if r.cancelled {
			verifsim.Probe("cancel_before_admission")
		}
		return
	}
	if r.embedding {
		return
	}
	w.checkStream(srv, r)
}

// checkStream is the C14 oracle, P1..P6 of DESIGN.md section 5, evaluated on
// G = the pieces of the tokens the model emitted for the request (EOS
// excluded), R = the pieces the client received, and the final message.
// Deliberately not asserted: which of several simultaneously completed stop
// strings is chosen, and how long text is withheld.
func (w *runWorld) checkStream(srv *simServer, r *reqState) {
	v := w.v
	var sb strings.Builder
	var tk []int // tk[k] = len(T_{k+1})
	eos := false
	for _, t := range r.gen {
		if t == 0 {
			eos = true
			break
		}
		sb.WriteString(v.pieces[t])
		tk = append(tk, sb.Len())
	}
	full := sb.String()
	out := strings.Join(r.pieces, "")
	completed := r.final != nil && !r.cancelled
	valid := utf8.ValidString(full)
	shape := func() string {
		return fmt.Sprintf("%s\n  generated pieces: %s\n  generated text T=%s (valid UTF-8: %v, EOS sampled: %v)\n  received pieces R=%s\n  final: %+v cancelled=%v", r, w.genPieces(r), clip(fmt.Sprintf("%q", full)), valid, eos, clip(fmt.Sprintf("%q", r.pieces)), r.final, r.cancelled)
	}
	n := len(tk)
	if n > 0 {
		verifsim.Probe("request_generated_text")
	}

	// first index at which the generated text contains a stop string
	j := -1
	nStopsAtJ := 0
	if len(r.stops) > 0 {
		for k := range tk {
			if ok, cnt := containsAnyStop(full[:tk[k]], r.stops); ok {
				j, nStopsAtJ = k, cnt
				break
			}
		}
	}

	// P1: out is a prefix of T_n
	if !strings.HasPrefix(full, out) {
		detail := "non-prefix"
		if !valid {
			// The known mechanism: flushPending sends the longest valid prefix of the pending
			// text and drops the rest, so the stream is the generated text minus segments that
			// each start at a byte that is not UTF-8 and end at a piece boundary. Only a
			// divergence of exactly that form gets the known signature.
			if droppedAfterInvalid(full, out, tk) {
				detail = "non-prefix:invalid-utf8-in-generated-text"
			} else {
				detail = "non-prefix:unexplained"
			}
		}
		w.violate("C14", "stream", "stream:P1:"+detail, "the streamed text %s is not a prefix of the generated text\n  %s", clip(fmt.Sprintf("%q", out)), shape())
		return
	}

	if j >= 0 {
		verifsim.Probe("stop_hit")
		tj := full[:tk[j]]
		// was the stop string completed across piece boundaries?
		start := 0
		if j > 0 {
			start = tk[j-1]
		}
		for _, st := range r.stops {
			if idx := strings.Index(tj, st); idx >= 0 && idx < start {
				verifsim.Probe("stop_split_across_pieces")
				break
			}
		}
		// P2 (i): nothing is generated after the piece that completes a stop string
		if n > j+1 {
			w.violate("C14", "stream", "stream:P2:generated-past-stop", "generation continued for %d pieces after piece %d completed a stop string\n  %s", n-j-1, j+1, shape())
			return
		}
		// P2 (ii): the output contains no stop string
		if ok, _ := containsAnyStop(out, r.stops); ok {
			kind := "single-stop"
			if nStopsAtJ > 1 {
				kind = "two-stops-completed-by-one-piece"
			}
			w.violate("C14", "stream", "stream:P2:output-contains-stop:"+kind, "the streamed text %q contains a stop string\n  %s", out, shape())
			return
		}
		if completed {
			// P2 (iii): the output ends immediately before a stop string
			okBefore := false
			tjValid := utf8.ValidString(tj)
			for _, st := range r.stops {
				for from := 0; from <= len(tj); {
					i := strings.Index(tj[from:], st)
					if i < 0 {
						break
					}
					i += from
					from = i + 1
					if len(out) == i {
						okBefore = true
					} else if len(out) < i && !tjValid {
						// invalid generated text: what follows the first byte that is not UTF-8
						// cannot be sent (same latitude as P3's "invalid trailing fragment")
						if rn, sz := utf8.DecodeRuneInString(tj[len(out):]); rn == utf8.RuneError && sz <= 1 {
							okBefore = true
						}
					}
				}
			}
			if !okBefore {
				w.violate("C14", "stream", "stream:P2:not-immediately-before-stop", "the streamed text %q does not end immediately before a stop string of T_j=%q\n  %s", out, tj, shape())
				return
			}
			if len(out) < start {
				verifsim.Probe("stop_truncated_earlier_piece")
			}
			if len(out) > start && len(out) < tk[j] {
				verifsim.Probe("stop_truncated_token")
			}
		}
	} else if completed {
		// P3: no stop string anywhere: everything is delivered, and generation ended at EOS or at the limit
		want := full
		if !valid {
			// the longest valid prefix: everything before the first invalid byte
			for i := 0; i < len(full); {
				rn, sz := utf8.DecodeRuneInString(full[i:])
				if rn == utf8.RuneError && sz <= 1 {
					want = full[:i]
					break
				}
				i += sz
			}
		}
		if out != want {
			w.violate("C14", "stream", "stream:P3:text-withheld", "the stream ended (no stop string involved) after %q, the generated text is %q\n  %s", out, full, shape())
			return
		}
		switch {
		case eos:
			verifsim.Probe("eos")
		case r.numPredict > 0 && n == r.numPredict:
			verifsim.Probe("limit")
		default:
			w.violate("C14", "stream", "stream:P3:ended-without-eos-or-limit", "generation ended after %d pieces although no stop string, no EOS and no limit (%d) was reached\n  %s", n, r.numPredict, shape())
			return
		}
	}

	// P4: valid text => every streamed piece is whole UTF-8 and free of stop strings
	if valid {
		for _, p := range r.pieces {
			if !utf8.ValidString(p) {
				w.violate("C14", "stream", "stream:P4:piece-splits-character", "streamed piece %q is not whole UTF-8 although the generated text is valid\n  %s", p, shape())
				return
			}
			if ok, _ := containsAnyStop(p, r.stops); ok {
				w.violate("C14", "stream", "stream:P4:piece-contains-stop", "streamed piece %q contains a stop string\n  %s", p, shape())
				return
			}
		}
		// a multi-byte character that arrived in several tokens was delivered whole
		for k := range tk {
			if !utf8.ValidString(full[:tk[k]]) && tk[k] <= len(out) {
				verifsim.Probe("utf8_split_withheld")
				break
			}
		}
	}

	if completed {
		// P5: the finish reason names what ended generation
		want := llm.DoneReasonLength
		if j >= 0 || eos {
			want = llm.DoneReasonStop
		}
		if r.final.DoneReason != want {
			why := "limit"
			if j >= 0 {
				why = "stop-string"
			} else if eos {
				why = "eos"
			}
			w.violate("C14", "stream", "stream:P5:"+why+"-reported-as-"+strconv.Itoa(int(r.final.DoneReason)), "generation ended by %s but the final message says done_reason=%d (%q)\n  %s", why, int(r.final.DoneReason), r.final.DoneReason.String(), shape())
			return
		}
	}

	// C07 (3b) / C14 P6: the slot's record after the request
	if r.haveFinal && r.lastRec != nil {
		trimmed := len(r.lastRec) - len(r.finalRec)
		prefixOK := trimmed >= 0
		if prefixOK {
			for i := range r.finalRec {
				if r.finalRec[i] != r.lastRec[i] {
					prefixOK = false
					break
				}
			}
		}
		switch {
		case !prefixOK:
			w.violate("C07", "slot-record", "slot-record:rewritten-at-end", "after %s the slot record [%s] is not a prefix of the record at its last Decode [%s]", r, recString(r.finalRec), recString(r.lastRec))
		case j < 0 && trimmed != 0:
			w.violate("C07", "slot-record", "slot-record:trimmed-without-stop", "after %s (no stop string) the slot record lost %d inputs that are in the cache", r, trimmed)
		case j >= 0 && completed && utf8.ValidString(full[:tk[j]]):
			// P6: trimmed to the tokens whose text was returned
			mHigh, mLow := 0, 0
			for k := range tk {
				if tk[k] <= len(out) {
					mHigh = k + 1
					if v.pieces[r.gen[k]] != "" {
						mLow = k + 1
					}
				}
			}
			// the record at the last Decode holds the first n-1 generated tokens
			// (a context shift may already have discarded some of them: no more than the record holds can go)
			wantMin := min((n-1)-mHigh, len(r.lastRec))
			wantMax := min((n-1)-mLow, len(r.lastRec))
			if trimmed < wantMin || trimmed > wantMax {
				w.violate("C14", "stream", "stream:P6:record-not-trimmed-to-returned-text", "after the stop the slot record was trimmed by %d inputs; %d..%d of the %d generated tokens had their text returned, so %d..%d must go\n  %s", trimmed, mLow, mHigh, n, wantMin, wantMax, shape())
			} else if trimmed > 0 {
				verifsim.Probe("stop_trimmed_record")
			}
		}
	}
	if r.cancelled && n > 0 {
		verifsim.Probe("cancel_midstream")
	}
}

// droppedAfterInvalid reports whether out can be obtained from full by deleting segments
// each of which starts at a byte where UTF-8 decoding fails and ends at a piece boundary
// (ends[k] = length of the first k+1 pieces), possibly followed by a tail that was never sent.
func droppedAfterInvalid(full, out string, ends []int) bool {
	n, m := len(full), len(out)
	isEnd := make([]bool, n+1)
	for _, e := range ends {
		isEnd[e] = true
	}
	// rows[i][o]: the first i bytes of full can be turned into the first o bytes of out;
	// drop[o]: a dropped segment with that o has started before the current position.
	rows := make([][]bool, n+5)
	rows[0] = make([]bool, m+1)
	rows[0][0] = true
	drop := make([]bool, m+1)
	anyDrop := false
	for i := 0; i <= n; i++ {
		row := rows[i]
		if i > 0 && isEnd[i] && anyDrop {
			if row == nil {
				row = make([]bool, m+1)
			}
			for o, d := range drop {
				if d {
					row[o] = true
				}
			}
		}
		if row == nil {
			continue
		}
		rows[i] = nil
		if row[m] {
			return true
		}
		if i == n {
			break
		}
		rn, sz := utf8.DecodeRuneInString(full[i:])
		if rn != utf8.RuneError || sz > 1 {
			for o, ok := range row {
				if ok && strings.HasPrefix(out[o:], full[i:i+sz]) {
					if rows[i+sz] == nil {
						rows[i+sz] = make([]bool, m+1)
					}
					rows[i+sz][o+sz] = true
				}
			}
			continue
		}
		for o, ok := range row {
			if ok {
				drop[o] = true
				anyDrop = true
			}
		}
	}
	return false
}

func clip(s string) string {
	if len(s) > 360 {
		return s[:240] + " ... " + s[len(s)-100:]
	}
	return s
}

func (w *runWorld) genPieces(r *reqState) string {
	var sb strings.Builder
	for i, t := range r.gen {
		if i > 0 {
			sb.WriteByte(' ')
		}
		if t == 0 {
			sb.WriteString("EOS")
		} else {
			fmt.Fprintf(&sb, "%d:%q", t, w.v.pieces[t])
		}
		if i > 40 {
			fmt.Fprintf(&sb, " ... (%d tokens)", len(r.gen))
			break
		}
	}
	return sb.String()
}

// ---- C07 (4): differential against a fresh single-slot Server ---------------------------------------

func (w *runWorld) differential(sim *verifsim.Sim, res *verifsim.Result) {
	var cands []*reqState
	for _, r := range w.reqs {
		if r.done && r.admitted && r.status == 200 && len(r.gen) > 0 {
			cands = append(cands, r)
		}
	}
	maxRef := 6
	if w.tier == "thorough" {
		maxRef = 12
	}
	for len(cands) > maxRef {
		k := verifsim.Draw("refdrop", len(cands))
		cands = append(cands[:k], cands[k+1:]...)
	}
	for _, r := range cands {
		ref := &reqState{id: 1000 + r.id, client: -1, prompt: r.prompt, numPredict: r.numPredict, numKeep: r.numKeep, stops: r.stops, cancelAfterWrites: -1, writeErrAt: -1, slot: -1}
		if r.cancelled || r.numPredict <= 0 {
			// compare the tokens the request got to see; the limit does not change what the model is given
			ref.numPredict = len(r.gen)
		}
		// the reference runner batches differently (its own batch size, one sequence): what
		// the model is given must not depend on how the inputs were cut into batches
		refBatch := w.cfg.batch
		if verifsim.Draw("refbatch", 2) == 0 {
			refBatch = 1 + verifsim.Draw("refbatchsize", 16)
		}
		srv := w.newServer("ref#"+strconv.Itoa(r.id), 1, refBatch, true)
		srv.start()
		sim.OnStep = srv.onStep
		finished := false
		sim.Go("refclient#"+strconv.Itoa(r.id), func() {
			w.doRequest(srv, ref)
			finished = true
		})
		stop := sim.RunUntil(func() bool { return finished }, time.Minute, 40000)
		srv.onStep()
		sim.OnStep = nil
		srv.stop(sim)
		sim.AbortCondWaiters()
		res.Info["decodes_ref"] += srv.decodes
		if stop != verifsim.CondTrue {
			res.Info["ref_unresolved"]++
			if stop == verifsim.Violated {
				return
			}
			continue
		}
		verifsim.Probe("differential_checked")
		got, want := r.gen, ref.gen
		bad := -1
		if r.cancelled || r.numPredict <= 0 {
			if len(want) > len(got) {
				want = want[:len(got)]
			}
		}
		if len(got) != len(want) {
			bad = min(len(got), len(want))
		}
		for i := 0; i < len(got) && i < len(want); i++ {
			if got[i] != want[i] {
				bad = i
				break
			}
		}
		if bad >= 0 {
			kind := "cold"
			if r.seenCached {
				kind = "cached-prefix"
			}
			w.violate("C07", "differential", "differential:tokens:"+kind, "%s: generated tokens differ from those of a fresh single-slot runner with an empty cache from token %d on\n  with history: [%s]\n  fresh runner: [%s]", r, bad, tokensString(got), tokensString(want))
			return
		}
		sim.RunUntil(nil, 100*time.Millisecond, 500)
	}
}
