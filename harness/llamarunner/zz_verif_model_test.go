//go:build verif

package llamarunner

// Per-run vocabulary and the scripted network behind the llama.cpp model
// (package llama is replaced by harness/llamafake for this build).
//
// The vocabulary generator is the one of harness/ollamarunner (same per-run
// byte-string vocabulary: split multi-byte characters, stop-string tilings,
// invalid bytes, empty pieces, EOS = token 0); packages differ, so it is a copy.
// The scripted network: next token = script(hash of the ordered (token,
// position) list the batch entry attends to in the simulated KV cache).

import (
	"fmt"
	"sort"
	"strings"

	"github.com/ollama/ollama/verifsim"
)

// ---- vocabulary ----------------------------------------------------------------------

// vocab is the per-run tokenizer table. Token 0 is EOS. forced[t] != 0: after
// t the script always emits forced[t] (continuation of a split multi-byte
// character, valid-text arm); likely[t] != 0: after t the script emits
// likely[t] three times out of four (next fragment of a stop string).
type vocab struct {
	pieces []string
	forced []int32
	likely []int32
	table  []int32 // what the script picks from when nothing is forced
	stops  []string
	valid  bool // the generated text is valid UTF-8 apart from a trailing incomplete character

	bos     int32 // beginning-of-sequence token (its own id, empty piece, never generated)
	nPrompt int   // prompts are drawn from tokens 1..nPrompt
}

// finish adds the BOS token after the generator has run.
func (v *vocab) finish() {
	v.nPrompt = len(v.pieces) - 1
	v.bos = v.addNew("")
}

func (v *vocab) add(p string) int32 {
	for i := 1; i < len(v.pieces); i++ {
		if v.pieces[i] == p && v.forced[i] == 0 && v.likely[i] == 0 {
			return int32(i)
		}
	}
	v.pieces = append(v.pieces, p)
	v.forced = append(v.forced, 0)
	v.likely = append(v.likely, 0)
	return int32(len(v.pieces) - 1)
}

// addNew always creates a new token (fragments of a chain need their own ids).
func (v *vocab) addNew(p string) int32 {
	v.pieces = append(v.pieces, p)
	v.forced = append(v.forced, 0)
	v.likely = append(v.likely, 0)
	return int32(len(v.pieces) - 1)
}

var vocabAlphabet = []string{"a", "b", "c", " ", "é", "€", "😀", "ab", "<", "\n"}

func drawWord(maxChars int, nAlpha int) string {
	n := 1 + verifsim.Draw("wordlen", maxChars)
	var sb strings.Builder
	for i := 0; i < n; i++ {
		sb.WriteString(vocabAlphabet[verifsim.Draw("char", nAlpha)])
	}
	return sb.String()
}

// cutPoints splits s into 2..4 byte fragments at tape-chosen offsets (any byte
// offset: a cut may fall inside a multi-byte character).
func cutPoints(s string, charBoundary bool) []string {
	if len(s) < 2 {
		return []string{s}
	}
	parts := 2 + verifsim.Draw("parts", 3)
	var cuts []int
	for i := 0; i < parts-1; i++ {
		c := 1 + verifsim.Draw("cut", len(s)-1)
		if charBoundary {
			for c < len(s) && (s[c]&0xc0) == 0x80 {
				c++
			}
			if c >= len(s) {
				continue
			}
		}
		cuts = append(cuts, c)
	}
	sort.Ints(cuts)
	var out []string
	prev := 0
	for _, c := range cuts {
		if c > prev {
			out = append(out, s[prev:c])
			prev = c
		}
	}
	out = append(out, s[prev:])
	return out
}

func drawVocab(tier string) *vocab {
	d := verifsim.Draw
	v := &vocab{pieces: []string{""}, forced: []int32{0}, likely: []int32{0}}
	v.valid = d("valid-arm", 4) != 0
	nAlpha := 3 + d("alphabet", len(vocabAlphabet)-2)

	// stop strings with shared prefixes
	nStops := d("nstops", 5)
	for i := 0; i < nStops; i++ {
		var s string
		if i > 0 && d("stop-shared", 2) == 0 {
			base := v.stops[d("stop-base", len(v.stops))]
			// extend, or cut and diverge
			if d("stop-ext", 2) == 0 {
				s = base + drawWord(2, nAlpha)
			} else {
				k := 0
				for j := range base { // rune starts
					if j > 0 && d("stop-cut", 2) == 0 {
						k = j
						break
					}
				}
				s = base[:k] + drawWord(2, nAlpha)
			}
		} else {
			s = drawWord(3, nAlpha)
		}
		dup := false
		for _, o := range v.stops {
			if o == s {
				dup = true
			}
		}
		if !dup && s != "" {
			v.stops = append(v.stops, s)
		}
	}

	// plain pieces
	for i := 0; i < nAlpha; i++ {
		if d("plain", 4) != 0 {
			v.table = append(v.table, v.add(vocabAlphabet[i]))
		}
	}
	for i, n := 0, 2+d("nwords", 6); i < n; i++ {
		v.table = append(v.table, v.add(drawWord(3, nAlpha)))
	}
	// multi-byte characters split over 2-4 tokens
	for _, ch := range []string{"é", "€", "😀", "\uFFFD"} { // U+FFFD is a valid character (EF BF BD), not only the decoder's error value
		if d("split-char", 3) == 0 {
			continue
		}
		frags := cutPoints(ch, false)
		if len(frags) < 2 {
			continue
		}
		var ids []int32
		for _, f := range frags {
			ids = append(ids, v.addNew(f))
		}
		for i := 0; i+1 < len(ids); i++ {
			if v.valid {
				v.forced[ids[i]] = ids[i+1]
			} else {
				v.likely[ids[i]] = ids[i+1]
			}
		}
		v.table = append(v.table, ids[0])
		if !v.valid {
			// continuation fragments may also appear out of place
			v.table = append(v.table, ids[1+d("frag", len(ids)-1)])
		}
	}
	// pieces that tile the stop strings
	for _, s := range v.stops {
		for rep, n := 0, 1+d("tilings", 2); rep < n; rep++ {
			frags := cutPoints(s, v.valid)
			if len(frags) < 2 {
				v.table = append(v.table, v.add(s))
				continue
			}
			// optional junk before the first and after the last fragment
			if d("junk-pre", 3) == 0 {
				frags[0] = drawWord(2, nAlpha) + frags[0]
			}
			switch d("junk-post", 4) {
			case 0:
				frags[len(frags)-1] += drawWord(2, nAlpha)
			case 1:
				if len(v.stops) > 1 {
					// the last fragment also carries (part of) another stop string:
					// one token may complete two stop strings at once
					o := v.stops[d("other-stop", len(v.stops))]
					k := len(o)
					if d("other-whole", 2) == 0 {
						k = 1 + d("other-cut", len(o))
						if v.valid {
							for k < len(o) && (o[k]&0xc0) == 0x80 {
								k++
							}
						}
					}
					frags[len(frags)-1] += o[:k]
				}
			}
			var ids []int32
			for _, f := range frags {
				ids = append(ids, v.addNew(f))
			}
			for i := 0; i+1 < len(ids); i++ {
				v.likely[ids[i]] = ids[i+1]
			}
			v.table = append(v.table, ids[0])
			if d("tail-loose", 2) == 0 {
				v.table = append(v.table, ids[len(ids)-1])
			}
		}
		if d("stop-whole", 3) == 0 {
			v.table = append(v.table, v.add(s))
		}
	}
	if !v.valid {
		for _, b := range []string{"\xff", "\x80", "\xc3", "\xe2\x82", "a\xf0\x9f"} {
			if d("invalid-byte", 2) == 0 {
				v.table = append(v.table, v.add(b))
			}
		}
	}
	if d("empty-piece", 6) == 0 {
		v.table = append(v.table, v.addNew(""))
	}
	// EOS weight
	for i, n := 0, d("eos-weight", 4); i < n; i++ {
		v.table = append(v.table, 0)
	}
	if len(v.table) == 0 {
		v.table = append(v.table, v.add("a"))
	}
	return v
}

func (v *vocab) describe() string {
	var sb strings.Builder
	fmt.Fprintf(&sb, "vocab valid=%v stops=%q pieces=[", v.valid, v.stops)
	for i, p := range v.pieces {
		if i > 0 {
			sb.WriteString(" ")
		}
		fmt.Fprintf(&sb, "%d:%q", i, p)
		if v.forced[i] != 0 {
			fmt.Fprintf(&sb, "=>%d", v.forced[i])
		}
		if v.likely[i] != 0 {
			fmt.Fprintf(&sb, "->%d", v.likely[i])
		}
	}
	sb.WriteString("]")
	return sb.String()
}

// next is the script: a pure function of the visible history (through its
// hash) and the row's own token (which is part of the visible history).
func (v *vocab) next(h uint64, last int32) int32 {
	if last >= 0 && int(last) < len(v.forced) {
		if f := v.forced[last]; f != 0 {
			return f
		}
		if l := v.likely[last]; l != 0 && h%4 != 0 {
			return l
		}
	}
	return v.table[(h>>8)%uint64(len(v.table))]
}

func fnv64(h uint64, x uint64) uint64 {
	for i := 0; i < 8; i++ {
		h = (h ^ (x & 0xff)) * 1099511628211
		x >>= 8
	}
	return h
}
