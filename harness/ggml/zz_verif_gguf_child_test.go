//go:build verif

package ggml

// H-gguf, part 2: the decode server. Every ggml.Decode of the harness runs in
// a dedicated child process of the test binary (DESIGN.md C10: "measured
// around the call in a dedicated process with ulimit -v"): the child sets
// RLIMIT_AS to its start-up address space + ggHeadroom (256 MiB), so the worst a runaway
// allocation can do is kill the child with "fatal error: out of memory",
// which the parent turns into a violation instead of a crashed worker.
//
// Inside the child the file is served by a simulated reader (the seam): short
// reads, an injected error at the k-th Read or Seek, and the work counters of
// the termination oracle.

import (
	"bufio"
	"encoding/binary"
	"encoding/json"
	"errors"
	"fmt"
	"io"
	"log/slog"
	"os"
	"runtime"
	"runtime/debug"
	"runtime/metrics"
	"strconv"
	"strings"
	"syscall"
	"testing"

	"github.com/ollama/ollama/verifsim"
)

const (
	ggHeadroom = 256 << 20 // address space the child may add to what it had at start

	ggFlagPrecise   = 1 // exact, GC-independent TotalAlloc measurement + attribution of the largest allocation site
	ggFlagAccessors = 2 // exercise the accessors after a successful decode
)

type ggReq struct {
	Mode      int32
	Flags     uint8
	ErrAtRead uint32 // 1-based; 0 = never
	ErrAtSeek uint32
	Chunks    []uint16 // Read serves at most Chunks[i%len] bytes on its i-th call; empty = as many as asked
	Img       []byte
}

type ggResp struct {
	OK        bool   `json:"ok"`
	Err       string `json:"err,omitempty"`
	Panic     string `json:"panic,omitempty"`
	PanicFn   string `json:"panic_fn,omitempty"`
	Stage     string `json:"stage,omitempty"`
	Runaway   string `json:"runaway,omitempty"`
	Reads     int    `json:"reads"`
	Seeks     int    `json:"seeks"`
	Delivered int64  `json:"delivered"`
	Requested int64  `json:"requested"`
	MaxReq    int64  `json:"max_req"`
	Alloc     uint64 `json:"alloc"`
	AllocFn   string `json:"alloc_fn,omitempty"`
	AllocTop  uint64 `json:"alloc_top,omitempty"`
	ErrFired  bool   `json:"err_fired,omitempty"`
	SeekFired bool   `json:"seek_fired,omitempty"`
	Short     int    `json:"short,omitempty"`
	N         int64  `json:"n,omitempty"`
	NKV       int    `json:"nkv,omitempty"`
	NTensors  int    `json:"ntensors,omitempty"`
	Accessors int    `json:"accessors,omitempty"`
}

func (r *ggReq) encode() []byte {
	b := make([]byte, 4, 32+2*len(r.Chunks)+len(r.Img))
	b = binary.LittleEndian.AppendUint32(b, uint32(r.Mode))
	b = append(b, r.Flags)
	b = binary.LittleEndian.AppendUint32(b, r.ErrAtRead)
	b = binary.LittleEndian.AppendUint32(b, r.ErrAtSeek)
	b = binary.LittleEndian.AppendUint16(b, uint16(len(r.Chunks)))
	for _, c := range r.Chunks {
		b = binary.LittleEndian.AppendUint16(b, c)
	}
	b = binary.LittleEndian.AppendUint32(b, uint32(len(r.Img)))
	b = append(b, r.Img...)
	binary.LittleEndian.PutUint32(b, uint32(len(b)-4))
	return b
}

func ggDecodeReq(b []byte) (*ggReq, error) {
	if len(b) < 19 {
		return nil, errors.New("short request")
	}
	r := &ggReq{}
	r.Mode = int32(binary.LittleEndian.Uint32(b))
	r.Flags = b[4]
	r.ErrAtRead = binary.LittleEndian.Uint32(b[5:])
	r.ErrAtSeek = binary.LittleEndian.Uint32(b[9:])
	nc := int(binary.LittleEndian.Uint16(b[13:]))
	p := 15
	if len(b) < p+2*nc+4 {
		return nil, errors.New("short request (chunks)")
	}
	for i := 0; i < nc; i++ {
		r.Chunks = append(r.Chunks, binary.LittleEndian.Uint16(b[p:]))
		p += 2
	}
	n := int(binary.LittleEndian.Uint32(b[p:]))
	p += 4
	if len(b) != p+n {
		return nil, errors.New("bad request length")
	}
	r.Img = b[p:]
	return r, nil
}

// ---- simulated reader -------------------------------------------------------------

type ggRunaway struct{ why string }

var errGGInjectedRead = errors.New("verif: injected read error")
var errGGInjectedSeek = errors.New("verif: injected seek error")

type ggSimRS struct {
	data      []byte
	pos       int64
	chunks    []uint16
	errAtRead int
	errAtSeek int

	reads, seeks int
	delivered    int64
	requested    int64
	maxReq       int64
	short        int
	errFired     bool
	seekFired    bool

	maxDelivered int64
	maxCalls     int
}

// ggWorkBounds is the termination oracle's budget for a file of n bytes:
// bytes served <= 16 n + 1 MB; Read+Seek calls <= 16 n + 4096 (with one-byte
// short reads a correct decoder needs about n calls).
func ggWorkBounds(n int) (maxDelivered int64, maxCalls int) {
	return 16*int64(n) + 1<<20, 16*n + 4096
}

func (r *ggSimRS) Read(p []byte) (int, error) {
	r.reads++
	r.requested += int64(len(p))
	if int64(len(p)) > r.maxReq {
		r.maxReq = int64(len(p))
	}
	if r.reads+r.seeks > r.maxCalls {
		panic(ggRunaway{fmt.Sprintf("more than %d Read/Seek calls on a %d-byte file", r.maxCalls, len(r.data))})
	}
	if r.errAtRead > 0 && r.reads == r.errAtRead {
		r.errFired = true
		return 0, errGGInjectedRead
	}
	if len(p) == 0 {
		return 0, nil
	}
	if r.pos >= int64(len(r.data)) {
		return 0, io.EOF
	}
	n := len(p)
	if rem := int64(len(r.data)) - r.pos; int64(n) > rem {
		n = int(rem)
	}
	if len(r.chunks) > 0 {
		c := int(r.chunks[(r.reads-1)%len(r.chunks)])
		if c < 1 {
			c = 1
		}
		if c < n {
			n = c
			r.short++
		}
	}
	copy(p, r.data[r.pos:r.pos+int64(n)])
	r.pos += int64(n)
	r.delivered += int64(n)
	if r.delivered > r.maxDelivered {
		panic(ggRunaway{fmt.Sprintf("more than %d bytes read from a %d-byte file", r.maxDelivered, len(r.data))})
	}
	return n, nil
}

func (r *ggSimRS) Seek(off int64, whence int) (int64, error) {
	r.seeks++
	if r.reads+r.seeks > r.maxCalls {
		panic(ggRunaway{fmt.Sprintf("more than %d Read/Seek calls on a %d-byte file", r.maxCalls, len(r.data))})
	}
	if r.errAtSeek > 0 && r.seeks == r.errAtSeek {
		r.seekFired = true
		return 0, errGGInjectedSeek
	}
	var np int64
	switch whence {
	case io.SeekStart:
		np = off
	case io.SeekCurrent:
		np = r.pos + off
	case io.SeekEnd:
		np = int64(len(r.data)) + off
	default:
		return 0, errors.New("seek: invalid whence")
	}
	if np < 0 {
		// what *os.File does
		return 0, errors.New("seek: invalid argument")
	}
	r.pos = np
	return np, nil
}

// ---- one decode ---------------------------------------------------------------------

var ggAllocSample = []metrics.Sample{{Name: "/gc/heap/allocs:bytes"}}

func ggAllocNow(precise bool) uint64 {
	if precise {
		var ms runtime.MemStats
		runtime.ReadMemStats(&ms)
		return ms.TotalAlloc
	}
	metrics.Read(ggAllocSample)
	return ggAllocSample[0].Value.Uint64()
}

func ggPanicClass(msg string) string {
	switch {
	case strings.Contains(msg, "makeslice"):
		return "makeslice"
	case strings.Contains(msg, "nil pointer dereference"):
		return "nil-deref"
	case strings.Contains(msg, "slice bounds out of range"):
		return "slice-bounds"
	case strings.Contains(msg, "index out of range"):
		return "index-range"
	case strings.Contains(msg, "interface conversion"):
		return "type-assertion"
	case strings.Contains(msg, "divide by zero"):
		return "div-zero"
	case strings.Contains(msg, "truncation out of range"):
		return "buffer-truncate"
	case strings.Contains(msg, "out of memory"), strings.Contains(msg, "too large"):
		return "alloc"
	}
	if len(msg) > 40 {
		msg = msg[:40]
	}
	return strings.Map(func(r rune) rune {
		if r >= '0' && r <= '9' {
			return -1
		}
		if r == ' ' {
			return '-'
		}
		return r
	}, msg)
}

func ggPanicText(r any) string {
	switch v := r.(type) {
	case error:
		return v.Error()
	case string:
		return v
	}
	return fmt.Sprint(r)
}

func ggStack() string {
	b := make([]byte, 32<<10)
	return string(b[:runtime.Stack(b, false)])
}

// ggDecodeOnce runs ggml.Decode (and, on success, the accessors) on req.
func ggDecodeOnce(req *ggReq) (resp ggResp) {
	precise := req.Flags&ggFlagPrecise != 0
	rs := &ggSimRS{data: req.Img, chunks: req.Chunks, errAtRead: int(req.ErrAtRead), errAtSeek: int(req.ErrAtSeek)}
	rs.maxDelivered, rs.maxCalls = ggWorkBounds(len(req.Img))
	var before map[[32]uintptr]int64
	oldRate := runtime.MemProfileRate
	oldGC := 0
	if precise {
		// empty the sync.Pools (two cycles: primary and victim), stop the collector and
		// sample every allocation, so that the measurement does not depend on GC timing
		runtime.GC()
		runtime.GC()
		oldGC = debug.SetGCPercent(-1)
		before = ggProfile()
		runtime.MemProfileRate = 1
	}
	var f *GGML
	a0 := ggAllocNow(precise)
	var a1 uint64
	func() {
		defer func() {
			if r := recover(); r != nil {
				a1 = ggAllocNow(precise)
				if ra, ok := r.(ggRunaway); ok {
					resp.Runaway = ra.why
					return
				}
				resp.Panic = ggPanicText(r)
				resp.PanicFn = verifsim.StackRepoFunc(ggStack())
			}
		}()
		resp.Stage = "decode"
		m, n, err := Decode(rs, int(req.Mode))
		a1 = ggAllocNow(precise)
		if err != nil {
			resp.Err = err.Error()
			if len(resp.Err) > 200 {
				resp.Err = resp.Err[:200]
			}
			return
		}
		resp.OK, resp.N, f = true, n, m
	}()
	resp.Alloc = a1 - a0
	if precise {
		runtime.MemProfileRate = oldRate
		debug.SetGCPercent(oldGC)
		runtime.GC()
		runtime.GC()
		resp.AllocFn, resp.AllocTop = ggProfileDiff(before, ggProfile())
	}
	if f != nil && req.Flags&ggFlagAccessors != 0 {
		func() {
			defer func() {
				if r := recover(); r != nil {
					if ra, ok := r.(ggRunaway); ok {
						resp.Runaway = ra.why
						return
					}
					resp.Panic = ggPanicText(r)
					resp.PanicFn = verifsim.StackRepoFunc(ggStack())
				}
			}()
			resp.Stage = "accessors"
			resp.NKV = len(f.KV())
			resp.NTensors = len(f.Tensors().Items())
			resp.Accessors = ggExercise(f)
			resp.Stage = "done"
		}()
	}
	resp.Reads, resp.Seeks, resp.Delivered, resp.Requested, resp.MaxReq = rs.reads, rs.seeks, rs.delivered, rs.requested, rs.maxReq
	resp.Short, resp.ErrFired, resp.SeekFired = rs.short, rs.errFired, rs.seekFired
	return resp
}

// ggExercise calls what the server calls on a decoded, untrusted model
// (server/create.go, server/model.go, server/images.go, server/routes.go,
// llm/server.go, llm/memory.go) as far as it needs no GPU and no cgo. The
// GraphSize estimator is deliberately left out.
func ggExercise(f *GGML) int {
	n := 0
	kv := f.KV()
	arch := kv.Architecture()
	_ = f.Name()
	_ = kv.Kind()
	_ = kv.ParameterCount()
	_ = kv.FileType().String()
	_ = kv.BlockCount()
	_ = kv.EmbeddingLength()
	_ = kv.HeadCount()
	_ = kv.HeadCountKV()
	_ = kv.EmbeddingHeadCount()
	_ = kv.EmbeddingHeadCountK()
	_ = kv.EmbeddingHeadCountV()
	_ = kv.ContextLength()
	_ = kv.ChatTemplate()
	_ = kv.OllamaEngineRequired()
	n += 14
	// typed helpers on the keys this harness writes (and the server / loader read)
	_ = kv.String("general.name")
	_ = kv.String("general.type", "unknown")
	_ = kv.Uint("general.alignment", 32)
	_ = kv.Uint("general.file_type")
	_ = kv.Uint("pooling_type")
	_ = kv.Uint("vision.block_count")
	_ = kv.Uint("attention.key_length")
	_ = kv.Float("attention.layer_norm_rms_epsilon")
	_ = kv.Bool("tokenizer.ggml.add_bos_token", true)
	n += 9
	_, _ = kv[arch+".pooling_type"]
	_, _ = kv[arch+".vision.block_count"]
	// show (server/routes.go getModelData + JSON encoding of the reply)
	for k := range kv {
		if t, ok := kv[k].([]any); len(t) > 5 && ok {
			_ = t
		}
	}
	_, _ = json.Marshal(kv)
	n++
	ts := f.Tensors()
	var total uint64
	for _, t := range ts.Items() {
		total += t.Size()
		_ = t.Type()
		_ = t.parameters()
		_ = t.block()
	}
	_ = ts.Items("blk.")
	for _, l := range ts.GroupLayers() {
		total += l.Size()
	}
	_, _ = json.Marshal(ts.Items())
	n += 4
	_ = f.SupportsFlashAttention()
	_ = f.SupportsKVCacheType("q8_0")
	_, _ = f.VisionGraphSize()
	n += 3
	return n
}

// ---- allocation-site attribution --------------------------------------------------

func ggProfile() map[[32]uintptr]int64 {
	var recs []runtime.MemProfileRecord
	n, _ := runtime.MemProfile(nil, true)
	for {
		recs = make([]runtime.MemProfileRecord, n+64)
		var ok bool
		n, ok = runtime.MemProfile(recs, true)
		if ok {
			recs = recs[:n]
			break
		}
	}
	out := make(map[[32]uintptr]int64, len(recs))
	for i := range recs {
		out[recs[i].Stack0] += recs[i].AllocBytes
	}
	return out
}

// ggProfileDiff returns the repository function that allocated most between
// the two profiles, and how much.
func ggProfileDiff(before, after map[[32]uintptr]int64) (string, uint64) {
	byFn := map[string]int64{}
	for st, b := range after {
		d := b - before[st]
		if d <= 0 {
			continue
		}
		n := 0
		for n < len(st) && st[n] != 0 {
			n++
		}
		frames := runtime.CallersFrames(st[:n])
		fn := ""
		for {
			fr, more := frames.Next()
			if strings.HasPrefix(fr.Function, "github.com/ollama/ollama/") && !strings.Contains(fr.File, "zz_verif") && !strings.Contains(fr.Function, "/verifsim") {
				fn = verifsim.RepoFunc([]string{fr.Function})
				break
			}
			if !more {
				break
			}
		}
		if fn != "" {
			byFn[fn] += d
		}
	}
	best, bestN := "", int64(0)
	for fn, n := range byFn {
		if n > bestN || (n == bestN && fn < best) {
			best, bestN = fn, n
		}
	}
	return best, uint64(bestN)
}

// ---- the child process -------------------------------------------------------------

// TestVerifGGUFChild is the decode server; it is started by the harness with
// VERIF_GGUF_CHILD=1 and fds 3 (requests) and 4 (responses).
func TestVerifGGUFChild(t *testing.T) {
	if os.Getenv("VERIF_GGUF_CHILD") != "1" {
		t.Skip("decode server of H-gguf; started by TestVerifGGUF")
	}
	slog.SetDefault(slog.New(slog.DiscardHandler))
	in := os.NewFile(3, "req")
	out := os.NewFile(4, "resp")
	if in == nil || out == nil {
		t.Fatal("child: fds 3/4 missing")
	}
	if err := ggLimitAddressSpace(ggHeadroom); err != nil {
		fmt.Fprintf(os.Stderr, "verif-child: cannot set RLIMIT_AS: %v\n", err)
		os.Exit(3)
	}
	br := bufio.NewReaderSize(in, 1<<16)
	bw := bufio.NewWriterSize(out, 1<<16)
	var hdr [4]byte
	for {
		if _, err := io.ReadFull(br, hdr[:]); err != nil {
			return // parent closed the pipe
		}
		n := binary.LittleEndian.Uint32(hdr[:])
		buf := make([]byte, n)
		if _, err := io.ReadFull(br, buf); err != nil {
			return
		}
		req, err := ggDecodeReq(buf)
		if err != nil {
			fmt.Fprintf(os.Stderr, "verif-child: %v\n", err)
			os.Exit(3)
		}
		resp := ggDecodeOnce(req)
		if resp.Alloc > 64<<20 {
			debug.FreeOSMemory()
		}
		jb, _ := json.Marshal(&resp)
		binary.LittleEndian.PutUint32(hdr[:], uint32(len(jb)))
		bw.Write(hdr[:])
		bw.Write(jb)
		if err := bw.Flush(); err != nil {
			return
		}
	}
}

func ggLimitAddressSpace(headroom uint64) error {
	b, err := os.ReadFile("/proc/self/statm")
	if err != nil {
		return err
	}
	fs := strings.Fields(string(b))
	if len(fs) == 0 {
		return errors.New("statm: empty")
	}
	pages, err := strconv.ParseUint(fs[0], 10, 64)
	if err != nil {
		return err
	}
	lim := pages*uint64(os.Getpagesize()) + headroom
	var cur syscall.Rlimit
	if err := syscall.Getrlimit(syscall.RLIMIT_AS, &cur); err != nil {
		return err
	}
	if cur.Max != ^uint64(0) && lim > cur.Max {
		lim = cur.Max
	}
	return syscall.Setrlimit(syscall.RLIMIT_AS, &syscall.Rlimit{Cur: lim, Max: cur.Max})
}
