//go:build verif

package ggml

// H-gguf: property C10 (decoder part), level fault_enumeration. DESIGN.md section 5 "C10".
//
// One case = one generated valid GGUF image (W). Points = the enumerated
// faults on it (F): truncation at every offset, overwrite of every structural
// integer of the field map with boundary values, consistent re-typing of
// well-known keys, tape-chosen bit flips, short reads, a read error at the
// k-th Read, a seek error at the k-th Seek. Oracle (O): ggml.Decode returns a
// model or an error - no panic, bounded reader work, bounded allocation -
// and the accessors the server calls on the result do not panic either.
//
// No bubble: there is no concurrency in the decoder. Every decode runs in a
// child process (zz_verif_gguf_child_test.go).

import (
	"bufio"
	"bytes"
	"encoding/binary"
	"encoding/json"
	"fmt"
	"hash/fnv"
	"io"
	"log/slog"
	"os"
	"os/exec"
	"sort"
	"strings"
	"testing"
	"time"

	"github.com/ollama/ollama/verifsim"
)

const ggProp = "C10"

func TestVerifGGUF(t *testing.T) {
	slog.SetDefault(slog.New(slog.DiscardHandler))
	defer ggStopChild()
	if ggDebug {
		defer func() {
			for k, n := range ggDbgN {
				fmt.Fprintf(os.Stderr, "gguf-debug: %-12s n=%d total=%v avg=%v\n", k, n, ggDbgT[k], ggDbgT[k]/time.Duration(n))
			}
		}()
	}
	verifsim.WorkerMain(t, verifsim.Harness{
		Name:       "gguf",
		RunOne:     runGGUF,
		PanicProps: []string{ggProp},
		Real: []string{"fs/ggml.Decode (gguf.go, ggml.go: containerGGUF, readGGUF*, discardGGUFString, KV accessors, Tensors, GroupLayers, VisionGraphSize)",
			"fs/util/bufioutil.BufferedSeeker", "fs/ggml.WriteGGUF (generator of v3 images, cross-checked against the harness assembler)"},
		Stub: []string{"the file: an in-memory io.ReadSeeker with short reads, injected Read/Seek errors and work counters"},
		Rule: map[string]string{"*": "one evaluation = one ggml.Decode-based check of one image (a generated valid GGUF, or one enumerated fault on it: truncation offset, field overwrite, re-typed key, bit flip, reader fault), run in up to three maxArraySize modes in a separate process with RLIMIT_AS; non-trivial = the fault is inside the bytes the reference decode consumed (or the reader fault fired); distinct = different hash of (image, fault, outcome)"},
		NonTrivial: func(prop string, r *verifsim.Result) bool {
			return r.Info["points_effective"] > 0
		},
		Assumptions: []string{
			"in-family restriction: only images that arise from faults on a valid stored/transferred file are explored, not arbitrary byte strings",
			"runtime/metrics /gc/heap/allocs:bytes and runtime.MemStats.TotalAlloc count every heap allocation of the decoder",
			"a decode that dies with the Go runtime's fatal out-of-memory error under RLIMIT_AS = start-up address space + 256 MiB allocated out of proportion",
			"the simulated reader follows the io.Reader contract (never 0, nil for a non-empty buffer)",
		},
	})
}

// ---- child process management ------------------------------------------------------

type ggChild struct {
	cmd    *exec.Cmd
	w      *os.File
	r      *os.File
	br     *bufio.Reader
	stderr *bytes.Buffer
}

var (
	ggDebug = os.Getenv("VERIF_GGUF_DEBUG") != ""
	ggDbgN  = map[string]int{}
	ggDbgT  = map[string]time.Duration{}
)

var (
	ggTheChild  *ggChild
	ggInProcess = os.Getenv("VERIF_GGUF_INPROC") != "" // debugging aid: no child, no protection
)

func ggStartChild() (*ggChild, error) {
	exe, err := os.Executable()
	if err != nil {
		return nil, err
	}
	reqR, reqW, err := os.Pipe()
	if err != nil {
		return nil, err
	}
	respR, respW, err := os.Pipe()
	if err != nil {
		return nil, err
	}
	cmd := exec.Command(exe, "-test.run", "^TestVerifGGUFChild$", "-test.cpu", "1", "-test.timeout", "24h", "-test.count", "1")
	env := []string{"VERIF_GGUF_CHILD=1", "GOTRACEBACK=single"}
	for _, e := range os.Environ() {
		if strings.HasPrefix(e, "VERIF_") || strings.HasPrefix(e, "GOMAXPROCS=") || strings.HasPrefix(e, "GOTRACEBACK=") || strings.HasPrefix(e, "GOGC=") || strings.HasPrefix(e, "GOMEMLIMIT=") {
			continue
		}
		env = append(env, e)
	}
	cmd.Env = env
	cmd.ExtraFiles = []*os.File{reqR, respW}
	c := &ggChild{cmd: cmd, w: reqW, r: respR, stderr: &bytes.Buffer{}}
	cmd.Stderr = c.stderr
	cmd.Stdout = io.Discard
	if err := cmd.Start(); err != nil {
		return nil, err
	}
	reqR.Close()
	respW.Close()
	c.br = bufio.NewReaderSize(respR, 1<<16)
	return c, nil
}

// A small pool of pre-started decode servers hides the start-up latency when a
// decode kills its server (frequent while the tree has allocation defects).
var ggSpares chan *ggChild

func ggTakeChild() (*ggChild, error) {
	if ggSpares == nil {
		ggSpares = make(chan *ggChild, 2)
		go func() {
			for {
				c, err := ggStartChild()
				if err != nil {
					close(ggSpares)
					return
				}
				ggSpares <- c
			}
		}()
	}
	c, ok := <-ggSpares
	if !ok {
		return ggStartChild()
	}
	return c, nil
}

func (c *ggChild) kill() string {
	c.w.Close()
	c.cmd.Process.Kill()
	c.cmd.Wait()
	c.r.Close()
	return c.stderr.String()
}

func ggStopChild() {
	if ggTheChild != nil {
		ggTheChild.kill()
		ggTheChild = nil
	}
	// the spares exit by themselves: their request pipe closes with this process
}

// ggDeath describes a decode that killed (or hung) the decode server.
type ggDeath struct {
	Kind   string // "oom", "hang", "fatal"
	Fn     string
	Detail string
}

// A decode is declared hung when the decode server has burnt ggHangCPU of CPU
// time on it (CPU time, not wall time: the verdict must not depend on the load
// of the machine; a healthy decode takes microseconds), or - as a last resort
// against a blocked child - after ggHangWall.
const (
	ggHangCPU  = 30 * time.Second
	ggHangWall = 15 * time.Minute
)

// ggCPU returns the CPU time (user+system) consumed so far by process pid.
func ggCPU(pid int) time.Duration {
	b, err := os.ReadFile(fmt.Sprintf("/proc/%d/stat", pid))
	if err != nil {
		return 0
	}
	s := string(b)
	if i := strings.LastIndexByte(s, ')'); i >= 0 {
		s = s[i+1:]
	}
	f := strings.Fields(s)
	if len(f) < 13 {
		return 0
	}
	var ut, stt int64
	fmt.Sscan(f[11], &ut)
	fmt.Sscan(f[12], &stt)
	return time.Duration(ut+stt) * (time.Second / 100) // USER_HZ is 100 on Linux
}

// readFull reads the reply, polling the child's CPU consumption while it waits.
func (c *ggChild) readFull(buf []byte, cpu0 *time.Duration, start time.Time) (hang string, err error) {
	got := 0
	for got < len(buf) {
		c.r.SetReadDeadline(time.Now().Add(2 * time.Second))
		n, err := c.br.Read(buf[got:])
		got += n
		if err == nil {
			continue
		}
		if !os.IsTimeout(err) {
			return "", err
		}
		if *cpu0 < 0 {
			// first time-out of this request: start counting CPU time here
			*cpu0 = ggCPU(c.cmd.Process.Pid)
		}
		if used := ggCPU(c.cmd.Process.Pid) - *cpu0; used > ggHangCPU {
			return fmt.Sprintf("the decode consumed more than %v of CPU time without returning", ggHangCPU), err
		}
		if time.Since(start) > ggHangWall {
			return fmt.Sprintf("no answer from the decode within %v", ggHangWall), err
		}
	}
	return "", nil
}

// ggCall runs one decode in the child. death != nil when the child did not answer.
func ggCall(req *ggReq) (resp *ggResp, death *ggDeath, err error) {
	if ggDebug {
		t0 := time.Now()
		defer func() {
			k := "ok"
			if death != nil {
				k = "death:" + death.Kind
			} else if req.Flags&ggFlagPrecise != 0 {
				k = "precise"
			}
			ggDbgN[k]++
			ggDbgT[k] += time.Since(t0)
			if dt := time.Since(t0); dt > 50*time.Millisecond && resp != nil {
				fmt.Fprintf(os.Stderr, "gguf-debug: slow %v %s mode=%d size=%d alloc=%d ok=%v err=%q panic=%q fn=%s\n", dt, k, req.Mode, len(req.Img), resp.Alloc, resp.OK, resp.Err, resp.Panic, resp.AllocFn)
			}
		}()
	}
	if ggInProcess {
		r := ggDecodeOnce(req)
		return &r, nil, nil
	}
	for attempt := 0; ; attempt++ {
		if ggTheChild == nil {
			ggTheChild, err = ggTakeChild()
			if err != nil {
				return nil, nil, fmt.Errorf("start decode server: %w", err)
			}
		}
		c := ggTheChild
		start := time.Now()
		cpu0 := time.Duration(-1)
		_, werr := c.w.Write(req.encode())
		var hdr [4]byte
		var rerr error
		hang := ""
		if werr == nil {
			hang, rerr = c.readFull(hdr[:], &cpu0, start)
		}
		if werr == nil && rerr == nil {
			buf := make([]byte, binary.LittleEndian.Uint32(hdr[:]))
			if hang, rerr = c.readFull(buf, &cpu0, start); rerr == nil {
				var r ggResp
				if err := json.Unmarshal(buf, &r); err != nil {
					return nil, nil, fmt.Errorf("decode server reply: %w", err)
				}
				return &r, nil, nil
			}
		}
		stderr := c.kill()
		ggTheChild = nil
		switch {
		case hang != "":
			return nil, &ggDeath{Kind: "hang", Detail: hang}, nil
		case strings.Contains(stderr, "out of memory") || strings.Contains(stderr, "cannot allocate memory"):
			if blk := ggFatalBlock(stderr); blk > 0 && blk <= ggAllocBound(len(req.Img)) && attempt == 0 {
				// a small allocation failed because earlier (garbage) allocations of this server
				// had used up the headroom: not attributable, ask a fresh server once
				continue
			}
			return nil, &ggDeath{Kind: "oom", Fn: ggFatalFunc(stderr), Detail: ggFatalSummary(stderr)}, nil
		case strings.Contains(stderr, "fatal error:") || strings.Contains(stderr, "panic:"):
			return nil, &ggDeath{Kind: "fatal", Fn: ggFatalFunc(stderr), Detail: ggFatalSummary(stderr)}, nil
		}
		// the child vanished for no reason attributable to the decode: retry once, then give up
		if attempt >= 1 {
			return nil, nil, fmt.Errorf("decode server died without a diagnosis (write err %v, read err %v): %s", werr, rerr, ggTail(stderr, 600))
		}
	}
}

func ggTail(s string, n int) string {
	if len(s) > n {
		return "..." + s[len(s)-n:]
	}
	return s
}

// ggFatalFunc extracts the innermost repository function of the running
// goroutine from a runtime crash dump.
func ggFatalFunc(stderr string) string {
	for _, blk := range strings.Split(stderr, "\n\n") {
		blk = strings.TrimLeft(blk, "\n")
		if strings.HasPrefix(blk, "goroutine ") && strings.Contains(strings.SplitN(blk, "\n", 2)[0], "[running") {
			return verifsim.StackRepoFunc(blk)
		}
	}
	return "?"
}

// ggFatalBlock parses "runtime: out of memory: cannot allocate N-byte block".
func ggFatalBlock(stderr string) uint64 {
	const key = "cannot allocate "
	i := strings.Index(stderr, key)
	if i < 0 {
		return 0
	}
	var n uint64
	fmt.Sscanf(stderr[i+len(key):], "%d-byte block", &n)
	return n
}

func ggFatalSummary(stderr string) string {
	var out []string
	for _, l := range strings.Split(stderr, "\n") {
		if strings.HasPrefix(l, "fatal error:") || strings.HasPrefix(l, "runtime: out of memory") || strings.HasPrefix(l, "runtime: cannot allocate") || strings.HasPrefix(l, "panic:") {
			out = append(out, l)
		}
	}
	if len(out) > 4 {
		out = out[:4]
	}
	return strings.Join(out, "; ")
}

// ---- fault points ----------------------------------------------------------------------

var ggModes = []int32{0, -1, 4}

type ggPoint struct {
	kind  string // trunc ow retype flip short rderr skerr trunc+short
	off   int
	fld   *ggField
	val   uint64
	bit   uint
	key   string
	alt   ggVal
	sched int      // index into ggState.scheds; -1 = full reads
	k     int      // k-th Read / Seek (1-based)
	all   bool     // run in all maxArraySize modes
	fld2  *ggField // second overwritten field of a double fault (nil = single fault)
	val2  uint64
}

func (p *ggPoint) fieldKind(st *ggState) string {
	switch p.kind {
	case "ow":
		return p.fld.Kind
	case "flip":
		if f := st.fieldAt(p.off); f != nil {
			return f.Kind
		}
		return "payload"
	case "retype":
		return "retype"
	case "trunc", "trunc+short":
		return "truncation"
	}
	return "reader"
}

func (p *ggPoint) describe(st *ggState) string {
	switch p.kind {
	case "trunc":
		return fmt.Sprintf("truncate the %d-byte file at offset %d (%s)", len(st.c.img), p.off, st.where(p.off))
	case "trunc+short":
		return fmt.Sprintf("truncate the %d-byte file at offset %d (%s) and serve it with short reads %v", len(st.c.img), p.off, st.where(p.off), st.scheds[p.sched])
	case "ow":
		s := fmt.Sprintf("overwrite %s of %q at offset %d (%d bytes): %d -> %d (%#x)", p.fld.Kind, p.fld.Ctx, p.fld.Off, p.fld.Width, p.fld.Orig, p.val, p.val)
		if p.fld2 != nil {
			s += fmt.Sprintf(" and %s at offset %d: %d -> %#x", p.fld2.Kind, p.fld2.Off, p.fld2.Orig, p.val2)
		}
		return s
	case "retype":
		return fmt.Sprintf("store key %q with value type %s instead of its proper type (file re-assembled consistently)", p.key, ggTypeName(p.alt.T))
	case "flip":
		return fmt.Sprintf("flip bit %d of the byte at offset %d (%s)", p.bit, p.off, st.where(p.off))
	case "short":
		return fmt.Sprintf("serve the intact file with short reads %v", st.scheds[p.sched])
	case "rderr":
		s := "full reads"
		if p.sched >= 0 {
			s = fmt.Sprintf("short reads %v", st.scheds[p.sched])
		}
		return fmt.Sprintf("Read number %d fails (%s)", p.k, s)
	case "skerr":
		return fmt.Sprintf("Seek number %d fails", p.k)
	}
	return p.kind
}

type ggState struct {
	c       *ggCase
	mode    int32 // the case's maxArraySize mode
	scheds  [][]uint16
	points  []ggPoint
	refOK   [3]bool // reference decode succeeded in mode i
	refN    int64   // bytes the reference decode consumed (offset returned by Decode)
	hash    uint64
	keepLog bool
	known   map[string]bool
	// known-finding hits of this case: signature -> first point (1-based; 0 = reference)
	knownFirst *verifsim.Violation
	knownK     int
	// known-finding hits per fault family of this case (see ggKnownCap)
	knownByFam map[string]int
	curFam     string
	lenientRef bool // see pointReplay in runGGUF
}

// While the tree has open known findings almost every oversized length kills the decode
// server, which is slow. Once a fault family (truncation, overwrite of one field kind, ...)
// has met ggKnownCap known findings in a case, its remaining points are skipped (counted as
// points_skipped_known_cap: inconclusive, never a verdict). The count of violating points is
// deterministic, so the cap is too. On a tree without known findings nothing is ever skipped.
const ggKnownCap = 30

func (p *ggPoint) family() string {
	if p.kind == "ow" {
		return "ow:" + p.fld.Kind
	}
	return p.kind
}

func (st *ggState) fieldAt(off int) *ggField {
	for i := range st.c.fields {
		f := &st.c.fields[i]
		if off >= f.Off && off < f.Off+f.Width {
			return f
		}
	}
	return nil
}

func (st *ggState) where(off int) string {
	if f := st.fieldAt(off); f != nil {
		return fmt.Sprintf("inside %s of %q", f.Kind, f.Ctx)
	}
	var prev *ggField
	for i := range st.c.fields {
		f := &st.c.fields[i]
		if f.Off+f.Width <= off {
			prev = f
		}
	}
	if prev != nil {
		return fmt.Sprintf("payload after %s of %q", prev.Kind, prev.Ctx)
	}
	return "payload"
}

// ggOverwriteValues lists the boundary values for a field (DESIGN: 0, 1, 2^31,
// 2^32-1, 2^63, 2^64-1, original+-1, huge-but-plausible; type tags: every tag).
func ggOverwriteValues(f *ggField) []uint64 {
	cand := []uint64{0, 1, 2, 1 << 31, 1<<32 - 1, 1 << 63, 1<<64 - 1, f.Orig - 1, f.Orig + 1, 1025, 1<<31 - 1, 1<<63 - 1}
	// huge-but-plausible: about 12 MiB of whatever the field counts (well above the
	// allocation bound of a few-KiB file, far below the address-space limit)
	switch f.Kind {
	case "arrcount":
		cand = append(cand, 3<<18) // x 16-byte interface values
	case "ndims", "dim":
		cand = append(cand, 3<<19) // x 8-byte dimensions
	case "keylen", "strlen", "elemstrlen", "tnamelen":
		cand = append(cand, 3<<22) // bytes
		// just past the decoder's internal buffers (16 KiB scratch, 32 KiB bufio)
		cand = append(cand, 16<<10, 16<<10+1, 32<<10+1)
	default:
		cand = append(cand, 3<<18, 3<<22)
	}
	// counts and lengths that wrap around when multiplied by an element width: the
	// product is a small negative number (a relative seek backwards, a negative
	// slice bound) or a small positive one
	switch f.Kind {
	case "arrcount", "dim", "strlen", "elemstrlen", "keylen", "tnamelen", "ntensors", "nkv":
		for _, w := range []uint64{1, 2, 4, 8, 16} {
			for _, j := range []uint64{1, 2, 3, 4, 5, 8, 16, 32} {
				cand = append(cand, (^uint64(0))/w+1-j) // (2^64 - j*w) / w
			}
			cand = append(cand, (^uint64(0))/w+2) // wraps to a small positive product
		}
	}
	switch f.Kind {
	case "valtype", "arrtype":
		for t := uint64(0); t <= 13; t++ {
			cand = append(cand, t)
		}
	case "tkind":
		cand = append(cand, 3, 9, 15, 29, 31, 39)
	case "version":
		cand = append(cand, 3, 4)
	case "alignval":
		cand = append(cand, 3, 7, 1<<16)
	case "ndims":
		cand = append(cand, 4, 5, 1<<16)
	case "magic":
		cand = []uint64{0, uint64(FILE_MAGIC_GGUF_BE), uint64(FILE_MAGIC_GGML), uint64(FILE_MAGIC_GGLA), f.Orig + 1}
	}
	m := ^uint64(0)
	if f.Width < 8 {
		m = 1<<(8*uint(f.Width)) - 1
	}
	seen := map[uint64]bool{f.Orig: true}
	var out []uint64
	for _, v := range cand {
		v &= m
		if !seen[v] {
			seen[v] = true
			out = append(out, v)
		}
	}
	return out
}

var ggWellKnown = []string{"general.architecture", "general.alignment", "general.type", "general.file_type", "general.name", "general.parameter_count",
	".block_count", ".embedding_length", ".attention.head_count", ".attention.head_count_kv", ".context_length", ".attention.key_length",
	".attention.layer_norm_rms_epsilon", ".pooling_type", ".vision.block_count", ".vision.patch_size", "tokenizer.chat_template", "tokenizer.ggml.add_bos_token", "tokenizer.ggml.tokens"}

func ggAltValues() []ggVal {
	return []ggVal{
		u32v(7), strv("7"), {T: ggufTypeUint64, U: 7}, {T: ggufTypeInt32, U: 7}, {T: ggufTypeBool, U: 1}, f32v(1), {T: ggufTypeUint8, U: 7},
		{T: ggufTypeArray, AT: ggufTypeInt32, A: []ggVal{{U: 1}, {U: 2}}},
		{T: ggufTypeArray, AT: ggufTypeString, A: []ggVal{{S: "a"}}},
	}
}

func sameType(a, b ggVal) bool {
	return a.T == b.T && (a.T != ggufTypeArray || a.AT == b.AT)
}

// buildPoints enumerates the fault points of the case (deterministic order).
func (st *ggState) buildPoints(d ggDraw, tier string) {
	c := st.c
	size := len(c.img)
	// 1. truncation at every offset
	for off := 0; off < size; off++ {
		st.points = append(st.points, ggPoint{kind: "trunc", off: off, sched: -1})
	}
	// 2. overwrite of each structural integer
	for i := range c.fields {
		f := &c.fields[i]
		all := false
		switch f.Kind {
		case "strlen", "keylen", "elemstrlen", "arrcount", "arrtype", "valtype", "nkv", "version", "magic":
			all = true
		}
		for _, v := range ggOverwriteValues(f) {
			st.points = append(st.points, ggPoint{kind: "ow", fld: f, off: f.Off, val: v, sched: -1, all: all})
		}
	}
	// 2b. double faults: a count or length that wraps around (a backward step over the
	// element just read) together with a huge number of key/values or tensors - each
	// alone terminates quickly, together the decoder can be sent round for ever
	var nkvF, ntF *ggField
	for i := range c.fields {
		switch c.fields[i].Kind {
		case "nkv":
			nkvF = &c.fields[i]
		case "ntensors":
			ntF = &c.fields[i]
		}
	}
	var arrF *ggField // the count of the array the field belongs to
	for i := range c.fields {
		f := &c.fields[i]
		var outer *ggField
		switch f.Kind {
		case "arrcount":
			arrF = f
		case "elemstrlen":
			// a backward step over an element's own length field, once per declared element
			if arrF != nil {
				for _, j := range []uint64{1, 4, 8, 12, 16} {
					st.points = append(st.points, ggPoint{kind: "ow", fld: f, off: f.Off, val: -j, sched: -1, all: true, fld2: arrF, val2: 1 << 62})
				}
			}
		}
		switch f.Kind {
		case "arrcount", "strlen", "elemstrlen", "keylen":
			outer = nkvF
		case "tnamelen", "dim":
			outer = ntF
		}
		if outer == nil {
			continue
		}
		for _, w := range []uint64{1, 2, 4, 8} {
			for _, j := range []uint64{1, 2, 4, 8, 16, 32} {
				v := (^uint64(0))/w + 1 - j
				if f.Width < 8 {
					v &= 1<<(8*uint(f.Width)) - 1
				}
				st.points = append(st.points, ggPoint{kind: "ow", fld: f, off: f.Off, val: v, sched: -1, all: true, fld2: outer, val2: 1 << 62})
			}
		}
	}
	// 3. consistent re-typing of well-known keys
	if c.fields != nil {
		for _, kv := range c.file.KVs {
			wk := false
			for _, s := range ggWellKnown {
				if kv.Key == s || (s[0] == '.' && strings.HasSuffix(kv.Key, s)) {
					wk = true
				}
			}
			if !wk {
				continue
			}
			for _, alt := range ggAltValues() {
				if !sameType(alt, kv.Val) {
					st.points = append(st.points, ggPoint{kind: "retype", key: kv.Key, alt: alt, sched: -1})
				}
			}
		}
	}
	// 4a. thorough tier: every single-bit flip of every structural integer
	if tier == "thorough" {
		for i := range c.fields {
			f := &c.fields[i]
			for b := 0; b < 8*f.Width; b++ {
				off := f.Off + b/8
				if c.file.BE {
					off = f.Off + f.Width - 1 - b/8
				}
				st.points = append(st.points, ggPoint{kind: "flip", off: off, bit: uint(b % 8), sched: -1})
			}
		}
	}
	// 4b. tape-chosen bit flips anywhere in the file
	nflip := 24
	if tier == "thorough" {
		nflip = 64
	}
	for i := 0; i < nflip && size > 0; i++ {
		st.points = append(st.points, ggPoint{kind: "flip", off: d(size), bit: uint(d(8)), sched: -1, all: true})
	}
}

// buildReaderPoints adds the reader faults once the fault-free read/seek counts are known.
func (st *ggState) buildReaderPoints(d ggDraw, reads []int, seeks int) {
	size := len(st.c.img)
	for s := range st.scheds {
		st.points = append(st.points, ggPoint{kind: "short", sched: s, all: true})
	}
	// read error at the k-th read: every k when few, otherwise a stratified tape-drawn sample
	for si := -1; si < len(st.scheds); si++ {
		n := reads[si+1]
		const maxK = 40
		if n <= maxK {
			for k := 1; k <= n; k++ {
				st.points = append(st.points, ggPoint{kind: "rderr", sched: si, k: k})
			}
		} else {
			for i := 0; i < maxK; i++ {
				lo, hi := i*n/maxK, (i+1)*n/maxK
				if hi > lo {
					st.points = append(st.points, ggPoint{kind: "rderr", sched: si, k: 1 + lo + d(hi-lo)})
				}
			}
		}
	}
	for k := 1; k <= seeks && k <= 64; k++ {
		st.points = append(st.points, ggPoint{kind: "skerr", sched: -1, k: k})
	}
	// truncation combined with short reads
	for i := 0; i < 16 && size > 0 && len(st.scheds) > 0; i++ {
		st.points = append(st.points, ggPoint{kind: "trunc+short", off: d(size), sched: d(len(st.scheds))})
	}
}

// image builds the faulty image of a point.
func (st *ggState) image(p *ggPoint) []byte {
	c := st.c
	switch p.kind {
	case "trunc", "trunc+short":
		return c.img[:p.off]
	case "ow":
		img := append([]byte(nil), c.img...)
		ggPutField(img, c.file.BE, *p.fld, p.val)
		if p.fld2 != nil {
			v2 := p.val2
			if p.fld2.Width < 8 {
				v2 &= 1<<(8*uint(p.fld2.Width)) - 1
			}
			ggPutField(img, c.file.BE, *p.fld2, v2)
		}
		return img
	case "flip":
		img := append([]byte(nil), c.img...)
		img[p.off] ^= 1 << p.bit
		return img
	case "retype":
		f := c.file
		f.KVs = append([]ggKV(nil), c.file.KVs...)
		for i := range f.KVs {
			if f.KVs[i].Key == p.key {
				f.KVs[i].Val = p.alt
			}
		}
		img, _ := f.assemble()
		return img
	}
	return c.img
}

// ---- oracle ----------------------------------------------------------------------------

func ggAllocBound(size int) uint64 { return 64*uint64(size) + 4<<20 }

const ggAllocBand = 512 << 10

type ggRun struct {
	res  verifsim.Result
	log  []string
	hash uint64
}

func (r *ggRun) logf(f string, a ...any) {
	if len(r.log) < 200 {
		r.log = append(r.log, fmt.Sprintf(f, a...))
	}
}

func ggHash(h uint64, parts ...any) uint64 {
	f := fnv.New64a()
	var b [8]byte
	binary.LittleEndian.PutUint64(b[:], h)
	f.Write(b[:])
	fmt.Fprint(f, parts...)
	return f.Sum64()
}

// check runs one image in one mode and applies the oracle. It returns the
// violation (nil when the image was handled properly) and the response.
func (st *ggState) check(run *ggRun, img []byte, mode int32, p *ggPoint, what string) (*verifsim.Violation, *ggResp) {
	req := &ggReq{Mode: mode, Flags: ggFlagAccessors, Img: img}
	if p != nil {
		if p.sched >= 0 {
			req.Chunks = st.scheds[p.sched]
		}
		switch p.kind {
		case "rderr":
			req.ErrAtRead = uint32(p.k)
		case "skerr":
			req.ErrAtSeek = uint32(p.k)
		}
	}
	info := run.res.Info
	fk := "none"
	if p != nil {
		fk = p.fieldKind(st)
	}
	viol := func(class, sig, msg string) *verifsim.Violation {
		full := fmt.Sprintf("%s\n  image: %s, maxArraySize=%d\n  fault: %s", msg, st.c.describe()[0], mode, what)
		return &verifsim.Violation{Property: ggProp, Class: class, Signature: sig, Msg: full}
	}
	info["decodes"]++
	// Whether an oversized allocation kills the decode server or is merely measured depends on
	// the server's heap history, so nothing below that enters the run's hash, Steps or Info may
	// depend on it: a violation contributes its signature only; diagnostics go to Probes.
	diag := run.res.Probes
	resp, death, err := ggCall(req)
	if err != nil {
		run.res.HarnessErr = err.Error()
		return nil, nil
	}
	bound := ggAllocBound(len(img))
	if death == nil && resp.Alloc+ggAllocBand > bound && resp.Panic == "" && resp.Runaway == "" {
		// near or above the bound: measure again exactly (GC-independent) and attribute
		req.Flags |= ggFlagPrecise
		diag["diag_precise_remeasure"]++
		var r2 *ggResp
		r2, death, err = ggCall(req)
		if err != nil {
			run.res.HarnessErr = err.Error()
			return nil, nil
		}
		if death == nil {
			resp = r2
		}
	}
	var v *verifsim.Violation
	switch {
	case death != nil:
		diag["diag_child_deaths"]++
		run.logf("  mode %d: decode server died: %s %s (%s)", mode, death.Kind, death.Fn, death.Detail)
		switch death.Kind {
		case "oom":
			v = viol("alloc", "alloc:"+death.Fn, fmt.Sprintf("decoding a %d-byte image exhausted the address-space limit (start-up size + 256 MiB) in %s: %s [altered field kind: %s]", len(img), death.Fn, death.Detail, fk))
		case "hang":
			v = viol("hang", "hang:"+fk, fmt.Sprintf("decoding a %d-byte image did not return: %s", len(img), death.Detail))
		default:
			v = viol("fatal", "fatal:"+death.Fn, fmt.Sprintf("decoding a %d-byte image crashed the process in %s: %s [altered field kind: %s]", len(img), death.Fn, death.Detail, fk))
		}
		resp = nil
	case resp.Runaway != "":
		v = viol("runaway-read", "runaway-read:"+fk, "the decoder does not stop reading: "+resp.Runaway)
	case resp.Panic != "":
		cl := ggPanicClass(resp.Panic)
		stage := "ggml.Decode"
		if resp.Stage != "decode" {
			stage = "an accessor called on the successfully decoded model"
		}
		if cl == "makeslice" {
			// a length the runtime refuses outright: same root cause as an oversized allocation
			v = viol("alloc", "alloc:"+resp.PanicFn, fmt.Sprintf("%s panicked in %s: %s [altered field kind: %s]", stage, resp.PanicFn, resp.Panic, fk))
		} else {
			v = viol("panic", "panic:"+cl+"@"+resp.PanicFn, fmt.Sprintf("%s panicked in %s: %s [altered field kind: %s]", stage, resp.PanicFn, resp.Panic, fk))
		}
	case resp.Alloc > bound:
		fn := resp.AllocFn
		if fn == "" {
			fn = "?"
		}
		v = viol("alloc", "alloc:"+fn, fmt.Sprintf("decoding a %d-byte image allocated %d bytes (bound 64 x size + 4 MiB = %d); largest allocation site: %s (%d bytes) [altered field kind: %s]; decode result: ok=%v err=%q",
			len(img), resp.Alloc, bound, fn, resp.AllocTop, fk, resp.OK, resp.Err))
	}
	if resp != nil && st.keepLog {
		run.logf("  mode %d: ok=%v err=%q panic=%q stage=%s reads=%d seeks=%d delivered=%d alloc=%d", mode, resp.OK, resp.Err, resp.Panic, resp.Stage, resp.Reads, resp.Seeks, resp.Delivered, resp.Alloc)
	}
	if v != nil {
		run.hash = ggHash(run.hash, mode, v.Signature)
		return v, resp
	}
	run.hash = ggHash(run.hash, mode, resp.OK, resp.Err, resp.Stage)
	run.res.Steps += resp.Reads + resp.Seeks
	if resp.ErrFired {
		info["read_err_fired"]++
	}
	if resp.SeekFired {
		info["seek_err_fired"]++
	}
	if resp.Short > 0 {
		info["short_reads_served"] += resp.Short
	}
	if resp.OK {
		info["decode_ok"]++
	} else {
		info["decode_err"]++
	}
	return nil, resp
}

// handle files a violation: known signatures are remembered and the case goes on.
func (st *ggState) handle(run *ggRun, v *verifsim.Violation, k int) bool {
	if v == nil {
		return false
	}
	run.res.Info["viol:"+v.Signature]++
	if st.known[v.Signature] || (st.lenientRef && k == 0) {
		run.res.Info["known_hits"]++
		st.knownByFam[st.curFam]++
		if st.knownFirst == nil {
			st.knownFirst, st.knownK = v, k
		}
		return false
	}
	run.res.Violations = append(run.res.Violations, *v)
	return true
}

func ggLoadKnown() map[string]bool {
	out := map[string]bool{}
	b, err := os.ReadFile(os.Getenv("VERIF_KNOWN"))
	if err != nil {
		return out
	}
	var ks []verifsim.KnownFinding
	if json.Unmarshal(b, &ks) != nil {
		return out
	}
	for _, k := range ks {
		if k.Property == ggProp && k.Status == "open" {
			out[k.Signature] = true
		}
	}
	return out
}

var ggKnown map[string]bool

func runGGUF(t *testing.T, tape *verifsim.Tape, prop, tier string, keepLog bool) verifsim.Result {
	if ggKnown == nil {
		ggKnown = ggLoadKnown()
	}
	maxPoints := 1500
	if tier == "thorough" {
		maxPoints = 1 << 20
	}
	var st *ggState
	// Replay of "reference + point k" (confirmation, minimisation, --replay): a violation of
	// the reference decode must not hide the point, whatever the known-findings list says
	// today; it is remembered and reported only if the point itself is clean.
	pointReplay := false
	if tape.Replaying() {
		if rest := tape.Rest(); len(rest) > 0 && rest[0]%(1<<30) > 0 {
			pointReplay = true
		}
	}
	// Replays never consult the known-findings list (a replay file must mean the same thing
	// whatever that list contains): the first violation met is the result.
	known := ggKnown
	if tape.Replaying() {
		known = nil
	}
	ref := func(tp *verifsim.Tape) (verifsim.Result, int) {
		d := ggDraw(tp.Draw)
		run := &ggRun{res: verifsim.Result{Info: map[string]int{}, Faults: map[string]int{}, Probes: map[string]int{}}}
		c := ggGenerate(d, tier)
		st = &ggState{c: c, keepLog: keepLog, known: known, knownByFam: map[string]int{}, curFam: "reference", lenientRef: pointReplay}
		st.mode = ggModes[d(len(ggModes))]
		nsched := 1 + d(2)
		for i := 0; i < nsched; i++ {
			var s []uint16
			switch d(4) {
			case 0:
				s = []uint16{1}
			case 1:
				s = []uint16{uint16(1 + d(16))}
			default:
				n := 2 + d(3)
				for j := 0; j < n; j++ {
					s = append(s, uint16(1+d(40)))
				}
			}
			st.scheds = append(st.scheds, s)
		}
		st.buildPoints(d, tier)
		st.hash = ggHash(0, string(c.img), st.mode, st.scheds)
		run.hash = st.hash
		info := run.res.Info
		info["case:"+c.arm]++
		info["image_bytes"] += len(c.img)
		info["fields_mapped"] += len(c.fields)
		if c.writerCmp != "" {
			info["writer_crosscheck_"+c.writerCmp]++
		}
		run.logf("reference: %s", c.describe()[0])
		// field map self-check
		for _, f := range c.fields {
			if v, ok := ggFieldValue(c.img, c.file.BE, f); !ok || v != f.Orig {
				run.res.HarnessErr = fmt.Sprintf("field map self-check failed: %+v reads %d", f, v)
				return run.res, 0
			}
		}
		// reference decodes: all modes with full reads, then each short-read schedule in the case mode
		reads := make([]int, 1+len(st.scheds))
		seeks := 0
		stop := false
		for i, m := range ggModes {
			v, resp := st.check(run, c.img, m, nil, "none (reference decode of the valid image)")
			if run.res.HarnessErr != "" {
				return run.res, 0
			}
			if st.handle(run, v, 0) {
				stop = true
				break
			}
			if resp != nil && v == nil {
				st.refOK[i] = resp.OK
				if resp.OK {
					run.res.Probes["ref_decoded_ok"]++
					st.refN = resp.N
				} else {
					info["ref_rejected"]++
					run.logf("  reference rejected in mode %d: %s", m, resp.Err)
				}
				if m == st.mode {
					reads[0], seeks = resp.Reads, resp.Seeks
				}
			}
		}
		if !stop {
			for si := range st.scheds {
				p := &ggPoint{kind: "short", sched: si}
				v, resp := st.check(run, c.img, st.mode, p, p.describe(st))
				if run.res.HarnessErr != "" {
					return run.res, 0
				}
				// (a violation here is reported by the "short" point of the same schedule)
				if resp != nil && v == nil {
					reads[si+1] = resp.Reads
				}
			}
			st.buildReaderPoints(d, reads, seeks)
		}
		run.res.Sample = c.describe()
		run.res.SchedHash = run.hash
		run.res.TapeUsed = tp.Used()
		run.res.Tape = tp.Recorded()
		run.res.TapeOver = tp.Over
		if keepLog {
			run.res.Trace = append(c.describe(), run.log...)
		}
		if stop {
			return run.res, 0
		}
		return run.res, len(st.points)
	}
	point := func(_ *verifsim.Tape, k int) verifsim.Result {
		run := &ggRun{res: verifsim.Result{Info: map[string]int{}, Faults: map[string]int{}, Probes: map[string]int{}}}
		if st == nil || k >= len(st.points) {
			return run.res
		}
		p := &st.points[k]
		st.curFam = p.family()
		if st.knownByFam[st.curFam] >= ggKnownCap {
			run.res.Info["points_skipped_known_cap"]++
			run.res.Executions = -1 // not an evaluation
			return run.res
		}
		what := p.describe(st)
		img := st.image(p)
		run.hash = ggHash(st.hash, k, p.kind)
		run.logf("point %d: %s", k, what)
		info := run.res.Info
		run.res.Faults[p.kind]++
		if p.kind == "ow" {
			run.res.Faults["ow:"+p.fld.Kind]++
		}
		// effective = the fault lies inside what the reference decode consumed
		eff := true
		switch p.kind {
		case "trunc", "trunc+short", "flip", "ow":
			eff = st.refN == 0 || int64(p.off) < st.refN
		}
		if eff {
			info["points_effective"]++
		}
		modes := []int32{st.mode}
		if p.all {
			modes = ggModes
		}
		for _, m := range modes {
			v, resp := st.check(run, img, m, p, what)
			if run.res.HarnessErr != "" {
				return run.res
			}
			if p.kind == "retype" && resp != nil && resp.OK {
				// Decode accepted the re-typed key (whatever the accessors then did)
				run.res.Probes["retype_decoded"]++
			}
			if resp != nil && v == nil {
				pr := p.kind + "_then_"
				if resp.OK {
					pr += "ok"
				} else {
					pr += "err"
				}
				run.res.Probes[pr]++
				if resp.OK && resp.Stage == "done" {
					run.res.Probes["accessors_on_faulty_model"]++
				}
				if p.kind == "rderr" && resp.ErrFired {
					run.res.Probes["rderr_fired"]++
				}
				if p.kind == "skerr" && resp.SeekFired {
					run.res.Probes["skerr_fired"]++
				}
				if resp.Short > 0 {
					run.res.Probes["short_reads"]++
				}
				run.res.States = append(run.res.States, ggHash(0, p.kind, p.fieldKind(st), resp.OK, resp.Err))
			}
			if st.handle(run, v, k+1) {
				run.res.Sample = append(st.c.describe(), "fault: "+what)
				break
			}
			if v != nil {
				break // a known finding: the other modes of this point would only repeat it
			}
		}
		run.res.SchedHash = run.hash
		if keepLog {
			run.res.Trace = append(st.c.describe(), run.log...)
		}
		return run.res
	}
	t0 := time.Now()
	total := verifsim.Enumerate(tape, maxPoints, ref, point)
	if ggDebug && st != nil {
		fmt.Fprintf(os.Stderr, "gguf-debug: case %v points=%d execs=%d %s\n", time.Since(t0), len(st.points), total.Executions, st.c.describe()[0])
	}
	if total.HarnessErr == "" && len(total.Violations) == 0 && st != nil && st.knownFirst != nil {
		// only known findings were met: report the first one so that the worker counts it;
		// its tape replays as "reference + that point"
		total.Violations = append(total.Violations, *st.knownFirst)
		if len(total.Tape) > 0 {
			total.Tape[0] = uint32(st.knownK)
		}
	}
	return total
}

// sortedKeys is used by debugging output.
func sortedKeys(m map[string]int) []string {
	ks := make([]string, 0, len(m))
	for k := range m {
		ks = append(ks, k)
	}
	sort.Strings(ks)
	return ks
}
