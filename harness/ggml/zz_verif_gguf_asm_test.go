//go:build verif

package ggml

// H-gguf, part 1: an independent GGUF assembler that records a field map
// (offset, width, meaning of every structural integer) and the tape-driven
// generator of valid images (v1, v2, v3; little and big endian).
//
// The assembler follows the format the decoder implements (fs/ggml/gguf.go):
//
//	magic u32 | version u32 | v1: ntensors u32, nkv u32 | v2/v3: ntensors u64, nkv u64
//	kv*:      key string | value type u32 | value
//	string:   v2/v3: len u64, bytes        v1: len u64 (incl. NUL), bytes, NUL
//	array:    elem type u32 | count (v1: u32, v2/v3: u64) | elements
//	tensor*:  name string | ndims u32 | dims u64* | kind u32 | offset u64
//	data:     per tensor: padding to general.alignment (default 32), bytes

import (
	"bytes"
	"encoding/binary"
	"fmt"
	"io"
	"math"
	"sort"
)

// ggField is one entry of the field map.
type ggField struct {
	Off   int
	Width int    // bytes
	Kind  string // magic version ntensors nkv keylen valtype strlen arrtype arrcount elemstrlen tnamelen ndims dim tkind toffset alignval
	Orig  uint64
	Ctx   string // key or tensor the field belongs to
}

type ggVal struct {
	T  uint32 // ggufType*
	U  uint64 // integer / bool value (two's complement for signed)
	F  float64
	S  string
	AT uint32 // element type of an array
	A  []ggVal
}

type ggKV struct {
	Key string
	Val ggVal
}

type ggTensor struct {
	Name  string
	Shape []uint64 // as stored in the file
	Kind  uint32
	Data  []byte
}

type ggFile struct {
	Version uint32
	BE      bool
	KVs     []ggKV
	Tensors []ggTensor
}

type ggAsm struct {
	bo     binary.AppendByteOrder
	ver    uint32
	buf    []byte
	fields []ggField
}

func (a *ggAsm) field(kind, ctx string, width int, v uint64) {
	a.fields = append(a.fields, ggField{Off: len(a.buf), Width: width, Kind: kind, Orig: v, Ctx: ctx})
}

func (a *ggAsm) u32(kind, ctx string, v uint32) {
	if kind != "" {
		a.field(kind, ctx, 4, uint64(v))
	}
	a.buf = a.bo.AppendUint32(a.buf, v)
}

func (a *ggAsm) u64(kind, ctx string, v uint64) {
	if kind != "" {
		a.field(kind, ctx, 8, v)
	}
	a.buf = a.bo.AppendUint64(a.buf, v)
}

func (a *ggAsm) str(kind, ctx, s string) {
	if a.ver == 1 {
		a.u64(kind, ctx, uint64(len(s))+1)
		a.buf = append(a.buf, s...)
		a.buf = append(a.buf, 0)
		return
	}
	a.u64(kind, ctx, uint64(len(s)))
	a.buf = append(a.buf, s...)
}

func ggScalarWidth(t uint32) int {
	switch t {
	case ggufTypeUint8, ggufTypeInt8, ggufTypeBool:
		return 1
	case ggufTypeUint16, ggufTypeInt16:
		return 2
	case ggufTypeUint32, ggufTypeInt32, ggufTypeFloat32:
		return 4
	case ggufTypeUint64, ggufTypeInt64, ggufTypeFloat64:
		return 8
	}
	return 0
}

func (a *ggAsm) scalar(kind, ctx string, v ggVal) {
	bits := v.U
	switch v.T {
	case ggufTypeFloat32:
		bits = uint64(math.Float32bits(float32(v.F)))
	case ggufTypeFloat64:
		bits = math.Float64bits(v.F)
	}
	w := ggScalarWidth(v.T)
	if kind != "" {
		m := ^uint64(0)
		if w < 8 {
			m = 1<<(8*uint(w)) - 1
		}
		a.field(kind, ctx, w, bits&m)
	}
	switch w {
	case 1:
		a.buf = append(a.buf, byte(bits))
	case 2:
		a.buf = a.bo.AppendUint16(a.buf, uint16(bits))
	case 4:
		a.buf = a.bo.AppendUint32(a.buf, uint32(bits))
	case 8:
		a.buf = a.bo.AppendUint64(a.buf, bits)
	}
}

func (a *ggAsm) value(key string, v ggVal) {
	switch v.T {
	case ggufTypeString:
		a.str("strlen", key, v.S)
	case ggufTypeArray:
		a.u32("arrtype", key, v.AT)
		if a.ver == 1 {
			a.u32("arrcount", key, uint32(len(v.A)))
		} else {
			a.u64("arrcount", key, uint64(len(v.A)))
		}
		for _, e := range v.A {
			if v.AT == ggufTypeString {
				a.str("elemstrlen", key, e.S)
			} else {
				e.T = v.AT
				a.scalar("", key, e)
			}
		}
	default:
		kind := ""
		if key == "general.alignment" {
			kind = "alignval"
		}
		a.scalar(kind, key, v)
	}
}

func ggPad(offset, align int64) int64 {
	if align <= 0 {
		return 0
	}
	return (align - offset%align) % align
}

// alignment returns the value the decoder will use for the data section of f.
func (f *ggFile) alignment() int64 {
	for _, kv := range f.KVs {
		if kv.Key == "general.alignment" && kv.Val.T == ggufTypeUint32 {
			return int64(uint32(kv.Val.U))
		}
	}
	return 32
}

// assemble produces the image and its field map.
func (f *ggFile) assemble() ([]byte, []ggField) {
	a := &ggAsm{ver: f.Version}
	if f.BE {
		a.bo = binary.BigEndian
	} else {
		a.bo = binary.LittleEndian
	}
	// "GGUF" read as a little-endian u32 is 0x46554747; a big-endian file stores that number big-endian
	a.u32("magic", "", uint32(FILE_MAGIC_GGUF_LE))
	a.u32("version", "", f.Version)
	if f.Version == 1 {
		a.u32("ntensors", "", uint32(len(f.Tensors)))
		a.u32("nkv", "", uint32(len(f.KVs)))
	} else {
		a.u64("ntensors", "", uint64(len(f.Tensors)))
		a.u64("nkv", "", uint64(len(f.KVs)))
	}
	for _, kv := range f.KVs {
		a.str("keylen", kv.Key, kv.Key)
		a.u32("valtype", kv.Key, kv.Val.T)
		a.value(kv.Key, kv.Val)
	}
	align := f.alignment()
	var s uint64
	for _, t := range f.Tensors {
		a.str("tnamelen", t.Name, t.Name)
		a.u32("ndims", t.Name, uint32(len(t.Shape)))
		for _, d := range t.Shape {
			a.u64("dim", t.Name, d)
		}
		a.u32("tkind", t.Name, t.Kind)
		// the repository's writer stores s + padding(s) with s advanced by the unpadded sizes
		a.u64("toffset", t.Name, s+uint64(ggPad(int64(s), align)))
		s += uint64(len(t.Data))
	}
	for _, t := range f.Tensors {
		for n := ggPad(int64(len(a.buf)), align); n > 0; n-- {
			a.buf = append(a.buf, 0)
		}
		a.buf = append(a.buf, t.Data...)
	}
	return a.buf, a.fields
}

// ggFieldValue reads the field's current value from img (for self-checks and messages).
func ggFieldValue(img []byte, be bool, fl ggField) (uint64, bool) {
	if fl.Off+fl.Width > len(img) {
		return 0, false
	}
	b := img[fl.Off : fl.Off+fl.Width]
	var bo binary.ByteOrder = binary.LittleEndian
	if be {
		bo = binary.BigEndian
	}
	switch fl.Width {
	case 1:
		return uint64(b[0]), true
	case 2:
		return uint64(bo.Uint16(b)), true
	case 4:
		return uint64(bo.Uint32(b)), true
	case 8:
		return bo.Uint64(b), true
	}
	return 0, false
}

func ggPutField(img []byte, be bool, fl ggField, v uint64) {
	b := img[fl.Off : fl.Off+fl.Width]
	var bo binary.ByteOrder = binary.LittleEndian
	if be {
		bo = binary.BigEndian
	}
	switch fl.Width {
	case 1:
		b[0] = byte(v)
	case 2:
		bo.PutUint16(b, uint16(v))
	case 4:
		bo.PutUint32(b, uint32(v))
	case 8:
		bo.PutUint64(b, v)
	}
}

// ---- generator --------------------------------------------------------------------

type ggDraw func(n int) int

var (
	ggArchs  = []string{"llama", "gemma3", "mllama", "bert", "clip"}
	ggStrs   = []string{"", "a", "llama", "model", "{{ .Prompt }}", "adapter", "projector", "x y z", "0123456789abcdef0123456789abcdef", "é世"}
	ggTNames = []string{"token_embd.weight", "blk.0.attn_q.weight", "blk.1.ffn_gate.weight", "output.weight", "v.class_embd", "mm.0.weight", "rope_freqs.weight", "blk.0.ffn_gate_exps.weight", "t", "blk", "v.mm", "blk.7"}
	// kind, elements per block, bytes per block
	ggKinds  = [][3]uint64{{0, 1, 4}, {1, 1, 2}, {2, 32, 18}, {8, 32, 34}, {12, 256, 144}, {30, 1, 2}, {24, 1, 1}, {14, 256, 210}}
	ggIntSet = []uint64{0, 1, 2, 7, 32, 255, 256, 4096, 65535, 1 << 31, 1<<32 - 1, 1<<63 - 1, 1<<64 - 1}
	ggFltSet = []float64{0, 1, -2.5, 1e-5, 10000}
	// every value type of the format
	ggScalarTypes = []uint32{ggufTypeUint8, ggufTypeInt8, ggufTypeUint16, ggufTypeInt16, ggufTypeUint32, ggufTypeInt32, ggufTypeFloat32, ggufTypeBool, ggufTypeUint64, ggufTypeInt64, ggufTypeFloat64}
)

func ggTypeName(t uint32) string {
	names := []string{"u8", "i8", "u16", "i16", "u32", "i32", "f32", "bool", "string", "array", "u64", "i64", "f64"}
	if int(t) < len(names) {
		return names[t]
	}
	return fmt.Sprintf("type%d", t)
}

func ggMask(t uint32, u uint64) uint64 {
	w := ggScalarWidth(t)
	if t == ggufTypeBool {
		return u & 1
	}
	if w == 0 || w == 8 {
		return u
	}
	return u & (1<<(8*uint(w)) - 1)
}

func ggRandScalar(d ggDraw, t uint32) ggVal {
	switch t {
	case ggufTypeFloat32, ggufTypeFloat64:
		return ggVal{T: t, F: ggFltSet[d(len(ggFltSet))]}
	case ggufTypeString:
		return ggVal{T: t, S: ggStrs[d(len(ggStrs))]}
	}
	return ggVal{T: t, U: ggMask(t, ggIntSet[d(len(ggIntSet))])}
}

func ggRandArray(d ggDraw, et uint32, allowBig bool) ggVal {
	n := []int{0, 1, 2, 5, 17}[d(5)]
	if allowBig && ggScalarWidth(et) > 0 && ggScalarWidth(et) <= 2 && d(6) == 5 {
		n = 1030 // just above the decoder's default collection limit
	}
	v := ggVal{T: ggufTypeArray, AT: et}
	for i := 0; i < n; i++ {
		if n > 17 {
			v.A = append(v.A, ggVal{T: et, U: ggMask(et, uint64(i))})
		} else {
			v.A = append(v.A, ggRandScalar(d, et))
		}
	}
	return v
}

func u32v(v uint32) ggVal  { return ggVal{T: ggufTypeUint32, U: uint64(v)} }
func strv(s string) ggVal  { return ggVal{T: ggufTypeString, S: s} }
func f32v(f float64) ggVal { return ggVal{T: ggufTypeFloat32, F: f} }

// ggCase is one generated valid file plus what is needed to derive faults from it.
type ggCase struct {
	file      ggFile
	arm       string
	arch      string
	img       []byte
	fields    []ggField // nil when the image comes from the repository's writer and differs from the assembler's
	writerCmp string    // "", "equal", "differs", "error"
}

// ggGenerate draws one valid file. writerOnly restricts value types to those
// ggml.WriteGGUF can express (uint32, float32, bool, string, []int32,
// []uint32, []float32, []string), so that the image can be cross-checked.
func ggGenerate(d ggDraw, tier string) *ggCase {
	c := &ggCase{}
	f := &c.file
	writerArm := false
	switch a := d(12); {
	case a < 4:
		c.arm, f.Version, writerArm = "v3-writer", 3, true
	case a < 6:
		c.arm, f.Version = "v3-asm", 3
	case a < 7:
		c.arm, f.Version, f.BE = "v3-be", 3, true
	case a < 9:
		c.arm, f.Version, f.BE = "v2", 2, d(3) == 2
	default:
		c.arm, f.Version, f.BE = "v1", 1, d(3) == 2
	}
	if f.BE && f.Version != 3 {
		c.arm += "-be"
	}
	arch := ggArchs[d(len(ggArchs))]
	c.arch = arch
	add := func(k string, v ggVal) { f.KVs = append(f.KVs, ggKV{k, v}) }
	if d(8) != 0 {
		add("general.architecture", strv(arch))
	}
	if d(3) == 2 {
		add("general.alignment", u32v([]uint32{8, 16, 64, 4, 1, 24, 32}[d(7)]))
	}
	if d(3) == 2 {
		add("general.type", strv([]string{"model", "adapter", "projector"}[d(3)]))
	}
	if d(2) == 1 {
		add("general.file_type", u32v(uint32(d(34))))
	}
	if d(3) == 2 {
		add("general.name", strv(ggStrs[d(len(ggStrs))]))
	}
	if d(4) != 0 {
		add(arch+".block_count", u32v(uint32(d(5))))
	}
	if d(2) == 1 {
		add(arch+".embedding_length", u32v(uint32(64*d(4))))
	}
	if d(2) == 1 {
		add(arch+".attention.head_count", u32v(uint32(d(5))))
	}
	if d(2) == 1 {
		add(arch+".attention.head_count_kv", u32v(uint32(1+d(4))))
	}
	if d(3) == 2 {
		add(arch+".context_length", u32v(uint32(128<<uint(d(4)))))
	}
	if d(4) == 3 {
		add(arch+".attention.key_length", u32v(uint32(16*d(4))))
	}
	if d(4) == 3 {
		add(arch+".attention.layer_norm_rms_epsilon", f32v(1e-5))
	}
	if d(5) == 4 {
		add(arch+".pooling_type", u32v(uint32(d(3))))
	}
	if d(5) == 4 {
		add(arch+".vision.block_count", u32v(uint32(d(3))))
		if d(2) == 1 {
			add(arch+".vision.image_size", u32v(224))
			add(arch+".vision.patch_size", u32v(uint32(14*d(2))))
		}
	}
	if d(3) == 2 {
		add("tokenizer.chat_template", strv(ggStrs[d(len(ggStrs))]))
	}
	if d(3) == 2 {
		add("tokenizer.ggml.add_bos_token", ggVal{T: ggufTypeBool, U: uint64(d(2))})
	}
	if d(2) == 1 {
		add("tokenizer.ggml.tokens", ggRandArray(d, ggufTypeString, false))
	}
	if d(3) == 2 {
		add("tokenizer.ggml.scores", ggRandArray(d, ggufTypeFloat32, false))
	}
	if d(3) == 2 {
		add("tokenizer.ggml.token_type", ggRandArray(d, ggufTypeInt32, false))
	}
	// rarely a string longer than the decoder's 16 KiB scratch buffer (separate code path),
	// or one that makes the file longer than the 32 KiB read buffer (several Reads)
	switch d(24) {
	case 23:
		add("general.description", strv(ggLongString(16<<10+37)))
	case 22:
		add("general.description", strv(ggLongString(40000)))
	case 21:
		if tier == "thorough" {
			v := ggVal{T: ggufTypeArray, AT: ggufTypeString}
			for i := 0; i < 1030; i++ {
				v.A = append(v.A, ggVal{T: ggufTypeString, S: ggStrs[i%len(ggStrs)]})
			}
			add("tokenizer.ggml.merges", v)
		}
	}
	// extra keys: every scalar type and arrays of every element type
	nextra := d(7)
	for i := 0; i < nextra; i++ {
		key := fmt.Sprintf("%s.x%d", []string{"general", "tokenizer", arch, "other"}[d(4)], i)
		var v ggVal
		if writerArm {
			switch d(8) {
			case 0:
				v = ggRandScalar(d, ggufTypeUint32)
			case 1:
				v = ggRandScalar(d, ggufTypeFloat32)
			case 2:
				v = ggRandScalar(d, ggufTypeBool)
			case 3:
				v = ggRandScalar(d, ggufTypeString)
			case 4:
				v = ggRandArray(d, ggufTypeInt32, false)
			case 5:
				v = ggRandArray(d, ggufTypeUint32, false)
			case 6:
				v = ggRandArray(d, ggufTypeFloat32, false)
			default:
				v = ggRandArray(d, ggufTypeString, false)
			}
		} else if d(2) == 1 {
			t := append(append([]uint32{}, ggScalarTypes...), ggufTypeString)
			v = ggRandScalar(d, t[d(len(t))])
		} else {
			t := append(append([]uint32{}, ggScalarTypes...), ggufTypeString)
			v = ggRandArray(d, t[d(len(t))], true)
		}
		add(key, v)
	}
	// tensors
	nt := d(6)
	align := f.alignment()
	_ = align
	used := map[string]bool{}
	for i := 0; i < nt; i++ {
		name := ggTNames[d(len(ggTNames))]
		if used[name] {
			name = fmt.Sprintf("%s%d", name, i)
		}
		used[name] = true
		k := ggKinds[d(len(ggKinds))]
		nd := 1 + d(3)
		if !writerArm && d(8) == 7 {
			nd = 0
		}
		shape := make([]uint64, nd)
		elems := uint64(1)
		for j := range shape {
			shape[j] = uint64(1 + d(3))
			if j == 0 {
				// first stored dimension carries the block multiple
				shape[j] = k[1] * uint64(1+d(2))
				if k[1] == 1 {
					shape[j] = uint64(1 + d(7))
				}
			}
			elems *= shape[j]
		}
		size := elems * k[2] / k[1]
		data := make([]byte, size)
		for j := range data {
			data[j] = byte(j*7 + i)
		}
		f.Tensors = append(f.Tensors, ggTensor{Name: name, Shape: shape, Kind: uint32(k[0]), Data: data})
	}
	if writerArm {
		// the repository's writer sorts keys
		sort.SliceStable(f.KVs, func(i, j int) bool { return f.KVs[i].Key < f.KVs[j].Key })
		c.viaWriter()
	}
	if c.img == nil {
		c.img, c.fields = f.assemble()
	}
	return c
}

func ggLongString(n int) string {
	b := make([]byte, n)
	for i := range b {
		b[i] = 'a' + byte(i%26)
	}
	return string(b)
}

type ggMemWS struct{ buf bytes.Buffer }

func (w *ggMemWS) Write(p []byte) (int, error) { return w.buf.Write(p) }
func (w *ggMemWS) Seek(off int64, whence int) (int64, error) {
	if off == 0 && whence == io.SeekCurrent {
		return int64(w.buf.Len()), nil
	}
	return 0, fmt.Errorf("ggMemWS: unsupported seek")
}

// viaWriter produces the image with ggml.WriteGGUF and cross-checks it (and
// thereby the field map) against the assembler.
func (c *ggCase) viaWriter() {
	kv := KV{}
	for _, e := range c.file.KVs {
		v := e.Val
		switch v.T {
		case ggufTypeUint32:
			kv[e.Key] = uint32(v.U)
		case ggufTypeFloat32:
			kv[e.Key] = float32(v.F)
		case ggufTypeBool:
			kv[e.Key] = v.U != 0
		case ggufTypeString:
			kv[e.Key] = v.S
		case ggufTypeArray:
			switch v.AT {
			case ggufTypeInt32:
				s := make([]int32, len(v.A))
				for i, x := range v.A {
					s[i] = int32(uint32(x.U))
				}
				kv[e.Key] = s
			case ggufTypeUint32:
				s := make([]uint32, len(v.A))
				for i, x := range v.A {
					s[i] = uint32(x.U)
				}
				kv[e.Key] = s
			case ggufTypeFloat32:
				s := make([]float32, len(v.A))
				for i, x := range v.A {
					s[i] = float32(x.F)
				}
				kv[e.Key] = s
			case ggufTypeString:
				s := make([]string, len(v.A))
				for i, x := range v.A {
					s[i] = x.S
				}
				kv[e.Key] = s
			}
		}
	}
	ts := make([]Tensor, 0, len(c.file.Tensors))
	for _, t := range c.file.Tensors {
		// the writer stores Shape reversed
		sh := make([]uint64, len(t.Shape))
		for i := range sh {
			sh[i] = t.Shape[len(sh)-1-i]
		}
		ts = append(ts, Tensor{Name: t.Name, Kind: t.Kind, Shape: sh, WriterTo: bytes.NewReader(t.Data)})
	}
	var ws ggMemWS
	err := func() (err error) {
		defer func() {
			if r := recover(); r != nil {
				err = fmt.Errorf("writer panic: %v", r)
			}
		}()
		return WriteGGUF(&ws, kv, ts)
	}()
	if err != nil {
		c.writerCmp = "error"
		return
	}
	// the writer sorted ts in place: assemble in the same tensor order
	byName := map[string]ggTensor{}
	for _, t := range c.file.Tensors {
		byName[t.Name] = t
	}
	c.file.Tensors = c.file.Tensors[:0]
	for _, t := range ts {
		c.file.Tensors = append(c.file.Tensors, byName[t.Name])
	}
	img, fields := c.file.assemble()
	c.img = ws.buf.Bytes()
	if bytes.Equal(img, c.img) {
		c.fields = fields
		c.writerCmp = "equal"
	} else {
		c.writerCmp = "differs"
	}
}

func (c *ggCase) describe() []string {
	f := &c.file
	out := []string{fmt.Sprintf("valid image: arm=%s version=%d bigendian=%v arch=%s kvs=%d tensors=%d alignment=%d size=%d bytes fields=%d writer-crosscheck=%q",
		c.arm, f.Version, f.BE, c.arch, len(f.KVs), len(f.Tensors), f.alignment(), len(c.img), len(c.fields), c.writerCmp)}
	for i, kv := range f.KVs {
		if i >= 24 {
			out = append(out, fmt.Sprintf("  ... %d more keys", len(f.KVs)-i))
			break
		}
		v := kv.Val
		switch v.T {
		case ggufTypeString:
			out = append(out, fmt.Sprintf("  kv %s string %q", kv.Key, v.S))
		case ggufTypeArray:
			out = append(out, fmt.Sprintf("  kv %s array of %s x%d", kv.Key, ggTypeName(v.AT), len(v.A)))
		case ggufTypeFloat32, ggufTypeFloat64:
			out = append(out, fmt.Sprintf("  kv %s %s %v", kv.Key, ggTypeName(v.T), v.F))
		default:
			out = append(out, fmt.Sprintf("  kv %s %s %d", kv.Key, ggTypeName(v.T), v.U))
		}
	}
	for _, t := range f.Tensors {
		out = append(out, fmt.Sprintf("  tensor %s kind=%d shape=%v bytes=%d", t.Name, t.Kind, t.Shape, len(t.Data)))
	}
	return out
}
