//go:build verif

package kvcache

// H-kvcache, direct driver for C06 (DESIGN.md section 5 "C06"): tape-drawn
// histories of cache operations against the real kvcache.Causal / SWA /
// WrapperCache over the SimBackend of zz_verif_backend_test.go, checked after
// every batch against a reference model (per sequence an ordered list of
// (position, payload)).
//
// The component has no concurrency, clock or I/O, so a run does not open a
// simulation bubble: RunOne draws from the tape directly and fills the Result by
// hand (HARNESS_GUIDE.md, "A harness without concurrency").

import (
	"errors"
	"fmt"
	"io"
	"log/slog"
	"math"
	"runtime/debug"
	"slices"
	"sort"
	"strings"
	"testing"

	"github.com/ollama/ollama/ml"
	"github.com/ollama/ollama/model/input"
	"github.com/ollama/ollama/verifsim"
)

func TestVerifKVCache(t *testing.T) {
	slog.SetDefault(slog.New(slog.NewTextHandler(io.Discard, nil)))
	verifsim.WorkerMain(t, verifsim.Harness{
		Name:       "kvcache",
		RunOne:     runKV,
		PanicProps: []string{"C06"},
		Real: []string{"kvcache/causal.go (Causal, SWA: StartForward, findStartLoc, updateSlidingWindow, buildMask, defrag, moveCells, Get, Put, CopyPrefix, CanResume, Remove, shift)",
			"kvcache/wrapper.go (WrapperCache as gemma2/gemma3 build it: SWA + Causal)", "kvcache/cache.go"},
		Stub: []string{"ml.Backend/Context/Tensor: SimBackend, pure-Go lazy graph with ggml view/permute/cpy semantics, byte strides, f16/f32 element sizes",
			"model: the driver plays the model's forward pass (SetLayer, Put, Get per layer) and the runner's cache protocol (CanResume before resuming, Remove(seq,0,MaxInt32) after a failed Remove)",
			"shift function: adds the offset to the position stored in the key (what RoPE re-rotation does)"},
		Rule: map[string]string{"*": "one evaluation = one tape-drawn history of cache operations (batches mixing sequences, CopyPrefix, Remove prefix/middle/suffix/all, reserve passes; capacity, batch, padding, window, PermutedV, mask dtype, graph size, shift support drawn per run) with the per-row history oracle after every batch; non-trivial = at least 2 stored batches and at least one non-store operation"},
		NonTrivial: func(prop string, r *verifsim.Result) bool {
			return r.Info["batches_ok"] >= 2 && r.Info["nonput_ops"] >= 1
		},
		Assumptions: []string{
			"the sliding window of position p is [p-windowSize, p], as kvcache's own mask and tests define it",
			"callers follow the runner's protocol: positions of a sequence are contiguous from 0, a sequence is resumed at an earlier position only after CanResume said yes, a failed Remove is followed by Remove(seq,0,MaxInt32), CopyPrefix has distinct source and destination",
			"rows for which the model calls SetCausal(Except) (gemma3 image tokens) may see later positions of their own sequence, everything else is checked for them too; the encoder cache is not driven",
			"backend tensors keep exact values (no f16 rounding); graphs execute in build order",
		},
	})
}

// ---- configuration ---------------------------------------------------------------

const (
	kvKindCausal = iota
	kvKindSWA
	kvKindWrapper
)

var kvKindNames = [...]string{"causal", "swa", "wrapper"}

const (
	kvShiftOK          = iota
	kvShiftUnsupported // nil shift function
	kvShiftFailing     // the shift function returns an error now and then
	kvShiftBackendFail // FromIntSlice (shift offsets upload) fails now and then
)

type kvCfg struct {
	kind      int
	window    int32
	nseq      int
	capacity  int
	maxBatch  int
	layers    int
	layerType []int // wrapper: 0 = SWA cache, 1 = causal cache
	heads     int
	kdim      int
	vdim      int
	dtype     ml.DType
	cc        ml.CacheConfig
	cfgVia    int // 0 backend CacheConfig, 1 SetConfig, 2 none (defaults)
	maxNodes  int
	shiftMode int
	maskFail  bool
	nops      int
	weights   [6]int // batch, copy, remove-suffix, remove-range, remove-all, reserve
	overBatch bool
	except    bool // some batches carry rows for which the model switches the causal mask off (gemma3 image tokens)
	// windowed caches: the caller knows that CanResume and Remove do not account for
	// entries evicted before a CopyPrefix / middle Remove (genuine defects, see
	// findings/) and works around it, so that half of the runs reach what lies beyond
	avoidEvicted bool
}

type kvEntry struct {
	tok int
	pos int32
	// windowed caches: the entry has been behind the retention window of its sequence
	// at some StartForward, so the cache was entitled to drop it:
	// 1 = at a StartForward that stored its batch, 2 = only at one that reported "full"
	gone int
}

type kvRow struct {
	seq int
	pos int32
	tok int
}

type kvSub struct {
	c        *Causal
	name     string // causal, swa, wrapper-swa, wrapper-causal
	windowed bool
}

type kvRun struct {
	tape *verifsim.Tape
	res  *verifsim.Result
	tier string
	cfg  kvCfg

	be    *kvBackend
	cache Cache
	wrap  *WrapperCache
	subs  []kvSub

	ref     [][]kvEntry
	lastOp  []string
	cause   []string // windowed: first operation that brought evicted entries back into the window of the next position
	nextTok int
	desc    []string
	hash    uint64
	ops     int
	stopped bool

	shiftCalls, shiftErrs, intErrs int
	wasFull                        bool
	mergedDefrag                   bool // a defrag combined two or more adjacent cells into one copy
}

func (r *kvRun) draw(n int) int { return r.tape.Draw(n) }

func (r *kvRun) probe(name string) { r.res.Probes[name]++ }
func (r *kvRun) fault(name string) { r.res.Faults[name]++ }
func (r *kvRun) info(name string)  { r.res.Info[name]++ }

func (r *kvRun) note(f string, a ...any) {
	if len(r.desc) < 200 {
		r.desc = append(r.desc, fmt.Sprintf(f, a...))
	}
}

func (r *kvRun) mix(vs ...int) {
	for _, v := range vs {
		r.hash ^= uint64(uint32(v))
		r.hash *= 1099511628211
	}
}

func (r *kvRun) violate(class, sig, f string, a ...any) {
	if r.stopped {
		return
	}
	r.stopped = true
	msg := fmt.Sprintf(f, a...) + "\nconfiguration: " + r.cfgString() + "\nhistory (most recent last):\n  " + strings.Join(tailStrings(r.desc, 25), "\n  ")
	r.res.Violations = append(r.res.Violations, verifsim.Violation{Property: "C06", Class: class, Signature: sig, Msg: msg, Step: r.ops, TapePos: r.tape.Used()})
}

func tailStrings(s []string, n int) []string {
	if len(s) > n {
		return s[len(s)-n:]
	}
	return s
}

func kvPanicClass(msg string) string {
	switch {
	case strings.Contains(msg, "index out of range"):
		return "index-range"
	case strings.Contains(msg, "slice bounds out of range"):
		return "slice-bounds"
	case strings.Contains(msg, "nil pointer dereference"), strings.Contains(msg, "nil map"):
		return "nil-deref"
	case strings.Contains(msg, "outside its buffer"), strings.Contains(msg, "view reaches"), strings.Contains(msg, "view offset"), strings.Contains(msg, "view stride"), strings.Contains(msg, "misaligned"):
		return "tensor-out-of-bounds"
	case strings.Contains(msg, "copy between tensors"):
		return "copy-size-mismatch"
	case strings.Contains(msg, "closed context"):
		return "closed-context"
	case strings.Contains(msg, "inconsistent batch sizes"):
		return "inconsistent-batch"
	case strings.Contains(msg, "divide by zero"):
		return "div-zero"
	case strings.Contains(msg, "makeslice"):
		return "alloc"
	}
	return "other"
}

// guard runs f (a call into the cache) and turns a panic into a violation.
func (r *kvRun) guard(op string, f func()) (panicked bool) {
	defer func() {
		if p := recover(); p != nil {
			panicked = true
			msg := fmt.Sprint(p)
			st := string(debug.Stack())
			if len(st) > 3000 {
				st = st[:3000]
			}
			r.violate("panic", "kv-panic:"+op+":"+kvPanicClass(msg), "panic in %s: %s\n%s", op, msg, st)
		}
	}()
	f()
	return false
}

func (r *kvRun) cfgString() string {
	c := r.cfg
	return fmt.Sprintf("kind=%s window=%d nseq=%d capacity=%d maxBatch=%d layers=%d types=%v heads=%d kdim=%d vdim=%d dtype=%d padding=%d maskpad=%d permutedV=%v maskdtype=%d cfgvia=%d maxGraphNodes=%d shift=%d cells=%v",
		kvKindNames[c.kind], c.window, c.nseq, c.capacity, c.maxBatch, c.layers, c.layerType, c.heads, c.kdim, c.vdim, c.dtype,
		c.cc.CachePadding, c.cc.MaskBatchPadding, c.cc.PermutedV, c.cc.MaskDType, c.cfgVia, c.maxNodes, c.shiftMode, r.cellCounts())
}

func (r *kvRun) cellCounts() []int {
	var n []int
	for _, s := range r.subs {
		n = append(n, len(s.c.cells))
	}
	return n
}

func (r *kvRun) drawCfg() {
	c := &r.cfg
	big := r.tier == "thorough"
	c.kind = r.draw(3)
	c.nseq = 1 + r.draw(4)
	c.capacity = 2 + r.draw(15)
	if big {
		c.nseq = 1 + r.draw(6)
		c.capacity = 2 + r.draw(47)
	}
	c.maxBatch = 1 + r.draw(min(c.capacity, 8))
	if big && r.draw(4) == 3 {
		c.maxBatch = 1 + r.draw(min(c.capacity, 24))
	}
	if c.kind != kvKindCausal {
		c.window = int32(1 + r.draw(c.capacity+2))
		if r.draw(2) == 0 {
			c.window = int32(1 + r.draw(min(c.capacity+2, 6)))
		}
	}
	c.layers = 1 + r.draw(3)
	if c.kind == kvKindWrapper && c.layers < 2 {
		c.layers = 2 // every model that wraps two caches has layers of both kinds
	}
	c.layerType = make([]int, c.layers)
	if c.kind == kvKindWrapper {
		for i := range c.layerType {
			c.layerType[i] = r.draw(2)
		}
		if c.layers >= 2 { // gemma interleaves both kinds
			c.layerType[0], c.layerType[c.layers-1] = 0, 1
		}
	}
	c.heads = 1 + r.draw(2)
	c.kdim = 2 + r.draw(3)
	c.vdim = 1 + r.draw(3)
	c.dtype = []ml.DType{ml.DTypeF16, ml.DTypeF32}[r.draw(2)]
	pads := []int{0, 1, 2, 4, 8, 3, 32}
	if big {
		pads = append(pads, 16, 64, 256)
	}
	c.cc.CachePadding = pads[r.draw(len(pads))]
	mpads := []int{0, 1, 2, 4, 8, 3}
	if big {
		mpads = append(mpads, 64)
	}
	c.cc.MaskBatchPadding = mpads[r.draw(len(mpads))]
	c.cc.PermutedV = r.draw(2) == 1
	c.cc.MaskDType = []ml.DType{ml.DTypeOther, ml.DTypeF32, ml.DTypeF16}[r.draw(3)]
	c.cfgVia = r.draw(3)
	if c.cfgVia == 2 {
		c.cc = ml.CacheConfig{}
	}
	// defrag flushes its graph every (maxNodes-2L)/(6L) moves: small graphs force flushes with pending moves
	target := []int{1000, 1, 2, 3, 1, 5}[r.draw(6)]
	c.maxNodes = 2*c.layers + 6*c.layers*target + r.draw(6*c.layers)
	c.shiftMode = []int{kvShiftOK, kvShiftOK, kvShiftOK, kvShiftUnsupported, kvShiftFailing, kvShiftBackendFail}[r.draw(6)]
	c.maskFail = r.draw(10) == 9
	c.nops = 8 + r.draw(40)
	if big {
		c.nops = 8 + r.draw(160)
	}
	c.weights = [6]int{4 + r.draw(8), r.draw(4), r.draw(4), r.draw(4), r.draw(3), r.draw(8) / 7}
	if c.nseq < 2 {
		c.weights[1] = 0
	}
	c.overBatch = r.draw(6) == 5
	c.avoidEvicted = c.kind != kvKindCausal && r.draw(2) == 1
	c.except = r.draw(4) == 3
}

func (r *kvRun) build() {
	c := &r.cfg
	r.be = &kvBackend{cc: c.cc, maxNodes: c.maxNodes}
	var backend ml.Backend = r.be
	if c.cfgVia == 0 {
		backend = kvBackendCC{r.be}
	}
	var shift shiftFn
	if c.shiftMode != kvShiftUnsupported {
		shift = r.shift
	}
	switch c.kind {
	case kvKindCausal:
		cc := NewCausalCache(shift)
		r.cache = cc
		r.subs = []kvSub{{cc, "causal", false}}
	case kvKindSWA:
		cc := NewSWACache(c.window, shift)
		r.cache = cc
		r.subs = []kvSub{{cc, "swa", true}}
	case kvKindWrapper:
		a, b := NewSWACache(c.window, shift), NewCausalCache(shift)
		r.wrap = NewWrapperCache(a, b)
		r.cache = r.wrap
		r.subs = []kvSub{{a, "wrapper-swa", true}, {b, "wrapper-causal", false}}
		r.probe("wrapper_used")
	}
	if c.cfgVia == 1 {
		r.cache.SetConfig(c.cc)
	}
	r.cache.Init(backend, c.dtype, c.nseq, c.capacity, c.maxBatch)
	r.ref = make([][]kvEntry, c.nseq)
	r.cause = make([]string, c.nseq)
	r.lastOp = make([]string, c.nseq)
	for i := range r.lastOp {
		r.lastOp[i] = "none"
	}
	r.nextTok = 1
}

// shift is the model's shift function: it adds the offset to the position
// stored in element 1 of every key vector.
func (r *kvRun) shift(ctx ml.Context, layer int, key, shift ml.Tensor) (ml.Tensor, error) {
	r.shiftCalls++
	if r.cfg.shiftMode == kvShiftFailing && r.draw(3) == 2 {
		r.shiftErrs++
		r.fault("shift_fn_error")
		return nil, errors.New("sim model: shift failed (injected)")
	}
	k, s := key.(*kvTensor), shift.(*kvTensor)
	if s.nelem() != k.ne[2] || k.ne[0] != r.cfg.kdim || k.ne[1] != r.cfg.heads {
		panic(kvBackendPanic(fmt.Sprintf("shift: key view %v does not match %d offsets", k.ne, s.nelem())))
	}
	return kvCustom(ctx, k, []*kvTensor{k, s}, func(out *kvTensor) {
		for j := 0; j < k.ne[2]; j++ {
			off := s.at(j, 0, 0, 0)
			for h := 0; h < k.ne[1]; h++ {
				for d := 0; d < k.ne[0]; d++ {
					v := k.at(d, h, j, 0)
					if d == 1 {
						v += off
					}
					out.buf.data[out.index(d, h, j, 0)] = v
				}
			}
		}
	}), nil
}

// ---- payloads --------------------------------------------------------------------

func kvKeyVal(tok int, pos int32, layer, h, d int) float32 {
	switch d {
	case 0:
		return float32(tok*8 + h*2)
	case 1:
		return float32(pos)
	case 2:
		return float32(1000 + layer)
	default:
		return float32(tok)
	}
}

func kvValVal(tok int, layer, h, d int) float32 {
	switch d {
	case 0:
		return -float32(tok*8 + h*2 + 1)
	case 1:
		return float32(2000 + layer)
	default:
		return float32(tok)
	}
}

// ---- operations ------------------------------------------------------------------

func (r *kvRun) liveSeqs(minLen int) []int {
	var out []int
	for s, e := range r.ref {
		if len(e) >= minLen {
			out = append(out, s)
		}
	}
	return out
}

func (r *kvRun) distinctLive() int {
	seen := map[int]bool{}
	for _, es := range r.ref {
		for _, e := range es {
			seen[e.tok] = true
		}
	}
	return len(seen)
}

func (r *kvRun) drawBatch() []kvRow {
	c := &r.cfg
	maxRows := c.maxBatch
	if c.overBatch && r.draw(4) == 3 {
		maxRows = 2*c.maxBatch + 1
	}
	n := 1 + r.draw(maxRows)
	m := 1 + r.draw(min(c.nseq, 3))
	seqs := make([]int, 0, m)
	for len(seqs) < m {
		s := r.draw(c.nseq)
		dup := false
		for _, x := range seqs {
			dup = dup || x == s
		}
		if !dup {
			seqs = append(seqs, s)
		} else {
			m--
		}
	}
	pick := make([]int, n)
	for i := range pick {
		pick[i] = seqs[r.draw(len(seqs))]
	}
	if r.draw(2) == 0 { // grouped by sequence, as the runner builds batches
		sort.SliceStable(pick, func(i, j int) bool { return pick[i] < pick[j] })
	}
	next := map[int]int32{}
	rows := make([]kvRow, n)
	for i, s := range pick {
		p, ok := next[s]
		if !ok {
			p = int32(len(r.ref[s]))
		}
		next[s] = p + 1
		rows[i] = kvRow{seq: s, pos: p, tok: r.nextTok}
		r.nextTok++
	}
	return rows
}

type kvLayerOut struct {
	layer   int
	sub     kvSub
	k, v, m *kvTensor
	exc     []int
}

// drawExcept picks, for some batches, a run of rows of one sequence for which
// the model will call SetCausal(Except): what gemma3 does for the tokens of an image.
func (r *kvRun) drawExcept(rows []kvRow) []int {
	if !r.cfg.except || r.draw(3) != 2 {
		return nil
	}
	start := r.draw(len(rows))
	n := 1 + r.draw(3)
	var exc []int
	for i := start; i < len(rows) && len(exc) < n; i++ {
		if rows[i].seq == rows[start].seq {
			exc = append(exc, i)
		}
	}
	return exc
}

// doBatch plays one forward pass. It returns false when nothing was stored.
func (r *kvRun) doBatch(rows []kvRow, why string, exc []int) bool {
	c := &r.cfg
	b := input.Batch{Positions: make([]int32, len(rows)), Sequences: make([]int, len(rows))}
	for i, row := range rows {
		b.Positions[i], b.Sequences[i] = row.pos, row.seq
		r.mix(1, row.seq, int(row.pos))
	}
	r.note("%s batch seqs=%v pos=%v", why, b.Sequences, b.Positions)
	setNil := false
	if exc != nil {
		r.note("  (non-causal rows %v)", exc)
		r.mix(7, exc[0], len(exc))
	} else if c.except {
		setNil = r.draw(4) == 3 // gemma3 calls SetCausal on every pass, with an empty list when there is no image
	}
	live := r.distinctLive()
	cellsBefore := make([]int, len(r.subs))
	for i, s := range r.subs {
		cellsBefore[i] = kvLiveCells(s.c)
	}
	r.be.ctxs = r.be.ctxs[:0]
	ctx := r.be.newContext(1 << 20) // the model's own graph is not limited by the small budget given to the cache
	defer ctx.Close()
	nctx := r.be.newCtx
	maskFailed := false
	if c.maskFail {
		r.be.failFloat = func() bool {
			if r.draw(6) == 5 {
				maskFailed = true
				return true
			}
			return false
		}
	}
	var err error
	if r.guard("StartForward", func() { err = r.cache.StartForward(ctx, b, false) }) {
		return false
	}
	r.be.failFloat = nil
	if r.be.newCtx > nctx {
		r.noteDefrag()
	}
	// windowed caches drop what is behind the window of the lowest position of each
	// sequence of the batch, also when they then find no room for the batch
	if c.kind != kvKindCausal {
		lowest := map[int]int32{}
		for _, row := range rows {
			if p, ok := lowest[row.seq]; !ok || row.pos < p {
				lowest[row.seq] = row.pos
			}
		}
		how := 1
		if err != nil {
			how = 2
		}
		for s, p := range lowest {
			for i := range r.ref[s] {
				if e := &r.ref[s][i]; e.pos < p-c.window && (e.gone == 0 || how == 1) {
					e.gone = how
				}
			}
		}
	}
	if err != nil {
		switch {
		case errors.Is(err, ErrKvCacheFull):
			r.probe("cache_full")
			r.fault("cache_full")
			r.wasFull = true
			r.note("  -> ErrKvCacheFull")
			for _, s := range r.subs {
				if !s.windowed && live+len(rows) <= len(s.c.cells) {
					r.info("full_although_room_" + s.name)
				}
			}
			// not part of C06 (the error is reported), but a lead for the runner, which
			// treats a failed forward pass as fatal: "full" although the caller stayed
			// within what it declared to Init (sequences, per-sequence capacity, batch size)
			within := len(rows) <= c.maxBatch
			per := map[int]int{}
			for _, row := range rows {
				per[row.seq]++
			}
			for s, n := range per {
				within = within && len(r.ref[s])+n <= c.capacity
			}
			for s := range r.ref {
				within = within && len(r.ref[s]) <= c.capacity
			}
			if within {
				r.info("full_within_declared_limits_" + kvKindNames[c.kind])
				r.note("  (the caller was within the limits given to Init)")
			}
		case maskFailed:
			r.fault("mask_upload_error")
			r.note("  -> %v; clearing the batch's sequences", err)
			// the batch's cells may have been claimed: the caller's only option is to drop the sequences
			for _, row := range rows {
				r.removeAll(row.seq, "mask-error")
			}
		default:
			r.violate("error", "kv-error:StartForward-unexpected", "StartForward returned an unexpected error: %v", err)
		}
		return false
	}
	if maskFailed {
		r.violate("error", "kv-error:mask-upload-error-swallowed", "FromFloatSlice failed while building the mask but StartForward returned nil")
		return false
	}
	// a full cache must be reported, not overwritten
	for _, s := range r.subs {
		if !s.windowed && live+len(rows) > len(s.c.cells) {
			r.violate("full", "kv-full:not-reported:"+s.name, "StartForward accepted %d rows although the %s cache has %d cells and %d live entries", len(rows), s.name, len(s.c.cells), live)
			return false
		}
	}
	// reference: store the rows
	for _, row := range rows {
		r.ref[row.seq] = append(r.ref[row.seq], kvEntry{tok: row.tok, pos: row.pos})
	}
	for i, s := range r.subs {
		if s.windowed && kvLiveCells(s.c) < cellsBefore[i]+len(rows) {
			r.probe("swa_evicted")
		}
	}
	// forward pass: every layer stores its keys/values and reads the history back
	var outs []kvLayerOut
	for layer := 0; layer < c.layers; layer++ {
		sub := r.subs[0]
		kd := make([]float32, 0, c.kdim*c.heads*len(rows))
		vd := make([]float32, 0, c.vdim*c.heads*len(rows))
		for _, row := range rows {
			for h := 0; h < c.heads; h++ {
				for d := 0; d < c.kdim; d++ {
					kd = append(kd, kvKeyVal(row.tok, row.pos, layer, h, d))
				}
			}
			for h := 0; h < c.heads; h++ {
				for d := 0; d < c.vdim; d++ {
					vd = append(vd, kvValVal(row.tok, layer, h, d))
				}
			}
		}
		kt, _ := ctx.FromFloatSlice(kd, c.kdim, c.heads, len(rows))
		vt, _ := ctx.FromFloatSlice(vd, c.vdim, c.heads, len(rows))
		var k, v, m ml.Tensor
		if r.guard("Put/Get", func() {
			r.cache.SetLayer(layer)
			if r.wrap != nil {
				r.wrap.SetLayerType(c.layerType[layer])
				sub = r.subs[c.layerType[layer]]
			}
			if exc != nil || setNil {
				sub.c.SetCausal(ctx, CausalOptions{Except: exc})
			}
			r.cache.Put(ctx, kt, vt)
			k, v, m = r.cache.Get(ctx)
			ctx.Forward(k, v, m)
		}) {
			return false
		}
		outs = append(outs, kvLayerOut{layer, sub, k.(*kvTensor), v.(*kvTensor), m.(*kvTensor), exc})
	}
	if r.guard("Compute", func() { ctx.Compute() }) {
		return false
	}
	r.info("batches_ok")
	r.res.Info["rows_checked"] += len(rows) * c.layers
	if c.cc.PermutedV {
		r.probe("permuted_v")
	}
	if c.cc.MaskDType == ml.DTypeF16 {
		r.probe("mask_f16")
	}
	if exc != nil {
		r.probe("except_rows")
	}
	for _, o := range outs {
		if r.guard("oracle-read", func() { r.checkLayer(rows, o) }) || r.stopped {
			return true
		}
	}
	return true
}

func kvLiveCells(c *Causal) int {
	n := 0
	for i := range c.cells {
		if len(c.cells[i].sequences) > 0 {
			n++
		}
	}
	return n
}

// noteDefrag classifies the contexts the cache opened during StartForward (only defrag does).
func (r *kvRun) noteDefrag() {
	r.probe("defrag_ran")
	copies, flushes, merged := 0, 0, false
	for _, x := range r.be.ctxs[1:] {
		copies += x.copies
		flushes += x.computes
		for _, s := range r.subs {
			for _, key := range s.c.keys {
				kt, _ := key.(*kvTensor)
				if kt == nil {
					continue
				}
				for _, g := range x.done {
					if g.buf == kt.buf && g.nelem() > r.cfg.kdim*r.cfg.heads {
						merged = true
					}
				}
			}
		}
	}
	if copies > 0 {
		r.probe("defrag_with_moves")
	}
	if flushes > 1 {
		r.probe("defrag_multi_flush")
	}
	if merged {
		r.probe("defrag_merged_move")
		r.mergedDefrag = true
	}
	r.note("  (defrag: %d copies, %d flushes, merged=%v)", copies, flushes, merged)
}

// checkLayer is the C06 oracle for one layer of one batch.
func (r *kvRun) checkLayer(rows []kvRow, o kvLayerOut) {
	c := &r.cfg
	cached := o.m.ne[0]
	okShape := o.k.ne[0] == c.kdim && o.k.ne[1] == c.heads && o.k.ne[2] == cached && o.m.ne[1] >= len(rows)
	if c.cc.PermutedV {
		okShape = okShape && o.v.ne[0] == cached && o.v.ne[1] == c.vdim && o.v.ne[2] == c.heads
	} else {
		okShape = okShape && o.v.ne[0] == c.vdim && o.v.ne[1] == c.heads && o.v.ne[2] == cached
	}
	if !okShape {
		r.violate("history", "kv-history:"+o.sub.name+":shape", "layer %d: Get returned K %v V %v mask %v for a batch of %d rows (kdim %d vdim %d heads %d permutedV %v)",
			o.layer, o.k.ne, o.v.ne, o.m.ne, len(rows), c.kdim, c.vdim, c.heads, c.cc.PermutedV)
		return
	}
	where := map[int][]int{} // tok -> sequences that hold it
	for s, es := range r.ref {
		for _, e := range es {
			where[e.tok] = append(where[e.tok], s)
		}
	}
	for i, row := range rows {
		lo := int32(math.MinInt32)
		if o.sub.windowed {
			lo = row.pos - c.window
		}
		want := map[int]kvEntry{}
		mine := map[int]kvEntry{}
		for _, e := range r.ref[row.seq] {
			mine[e.tok] = e
			if e.pos <= row.pos && e.pos >= lo {
				want[e.tok] = e
			}
		}
		seen := map[int]bool{}
		seenFuture := map[int]bool{}
		var vis []string
		fail := func(diff, f string, a ...any) {
			op := r.lastOp[row.seq]
			if diff == "missing-evicted" && r.cause[row.seq] != "" {
				op = r.cause[row.seq]
			}
			if r.mergedDefrag && diff != "mask-value" {
				if why := r.misplaced(o.sub.c); why != "" {
					// diagnosis only (the violation is what Get exposed): the cache's own
					// bookkeeping and the stored key disagree about a cell after a defrag
					// that merged adjacent moves
					diff, op = "misplaced-data", "after-merged-defrag"
					f += "\n  diagnosis: " + why + "; a defrag earlier in this history merged adjacent moves into one copy"
				}
			}
			r.violate("history", "kv-history:"+o.sub.name+":"+diff+":"+op,
				"%s cache, layer %d, batch row %d (seq %d pos %d): %s\n  expected history (tok@pos): %s\n  visible so far: %s",
				o.sub.name, o.layer, i, row.seq, row.pos, fmt.Sprintf(f, a...), kvFmtEntries(want), strings.Join(vis, " "))
		}
		for j := 0; j < cached; j++ {
			mv := o.m.at(j, i, 0, 0)
			if math.IsInf(float64(mv), -1) {
				continue
			}
			if mv != 0 {
				fail("mask-value", "mask value %v at history index %d (neither 0 nor -Inf)", mv, j)
				return
			}
			// decode the cell
			k0 := o.k.at(0, 0, j, 0)
			tok := int(k0) / 8
			pos := o.k.at(1, 0, j, 0)
			bad := ""
			for h := 0; h < c.heads && bad == ""; h++ {
				for d := 0; d < c.kdim; d++ {
					wantV := kvKeyVal(tok, int32(pos), o.layer, h, d)
					if got := o.k.at(d, h, j, 0); got != wantV {
						bad = fmt.Sprintf("K[d=%d,h=%d]=%v want %v", d, h, got, wantV)
						break
					}
				}
				for d := 0; d < c.vdim && bad == ""; d++ {
					var got float32
					if c.cc.PermutedV {
						got = o.v.at(j, d, h, 0)
					} else {
						got = o.v.at(d, h, j, 0)
					}
					if wantV := kvValVal(tok, o.layer, h, d); got != wantV {
						bad = fmt.Sprintf("V[d=%d,h=%d]=%v want %v (value of token %d)", d, h, got, wantV, tok)
					}
				}
			}
			if bad != "" || tok <= 0 || pos != float32(int32(pos)) {
				fail("wrong-data", "history index %d is visible but does not hold the key/value pair of one stored token: key says token %d at position %v; %s", j, tok, pos, bad)
				return
			}
			vis = append(vis, fmt.Sprintf("%d@%d", tok, int32(pos)))
			e, ok := want[tok]
			switch {
			case ok && e.pos == int32(pos) && !seen[tok]:
				seen[tok] = true
			case ok && e.pos == int32(pos):
				fail("extra", "token %d at position %d is visible twice", tok, e.pos)
				return
			default:
				if me, has := mine[tok]; has {
					switch {
					case me.pos == int32(pos) && me.pos > row.pos && me.pos >= lo && !seenFuture[tok] && slices.Contains(o.exc, i):
						// the model asked for a non-causal mask for this row: later
						// positions of its own sequence are what it wants to see
						seenFuture[tok] = true
						r.probe("except_future_visible")
						continue
					case me.pos != int32(pos):
						fail("wrong-position", "token %d is visible with position %d, the reference position is %d", tok, int32(pos), me.pos)
					case me.pos > row.pos:
						fail("future", "token %d at position %d is visible to a row at position %d", tok, me.pos, row.pos)
					default:
						fail("extra", "token %d at position %d is outside the window [%d,%d] of the row", tok, me.pos, lo, row.pos)
					}
				} else if len(where[tok]) > 0 {
					fail("other-seq", "token %d at position %d belongs to sequence(s) %v, not to sequence %d", tok, int32(pos), where[tok], row.seq)
				} else {
					fail("extra", "token %d at position %d is not part of any sequence any more (removed or overwritten range)", tok, int32(pos))
				}
				return
			}
		}
		if len(seen) != len(want) {
			var miss []kvEntry
			gone := true
			for tok, e := range want {
				if !seen[tok] {
					miss = append(miss, e)
					gone = gone && e.gone != 0
				}
			}
			sort.Slice(miss, func(a, b int) bool { return miss[a].pos < miss[b].pos })
			diff := "missing"
			if o.sub.windowed && gone {
				// every missing entry had legitimately left the retention window earlier
				// and is needed again: the resume-gating defect class, not lost data
				diff = "missing-evicted"
			}
			var ms []string
			for _, e := range miss {
				ms = append(ms, fmt.Sprintf("%d@%d", e.tok, e.pos))
			}
			fail(diff, "%d stored entries of the sequence are not visible: %s", len(miss), strings.Join(ms, " "))
			return
		}
	}
}

// misplaced looks for a live cell whose bookkeeping (position, owners) does not
// match the key stored in it (signature refinement only, never an oracle).
func (r *kvRun) misplaced(c *Causal) string {
	layers := make([]int, 0, len(c.keys))
	for l := range c.keys {
		layers = append(layers, l)
	}
	sort.Ints(layers)
	for _, l := range layers {
		kt, _ := c.keys[l].(*kvTensor)
		if kt == nil {
			continue
		}
		for i := range c.cells {
			if len(c.cells[i].sequences) == 0 {
				continue
			}
			tok, p := int(kt.at(0, 0, i, 0))/8, int32(kt.at(1, 0, i, 0))
			if p != c.cells[i].pos {
				return fmt.Sprintf("cell %d is recorded as position %d but holds the key of token %d at position %d", i, c.cells[i].pos, tok, p)
			}
			for _, s := range c.cells[i].sequences {
				found := false
				if s >= 0 && s < len(r.ref) {
					for _, e := range r.ref[s] {
						found = found || (e.tok == tok && e.pos == p)
					}
				}
				if !found {
					return fmt.Sprintf("cell %d is recorded as position %d of sequence %d but holds the key of token %d, which that sequence does not contain", i, p, s, tok)
				}
			}
		}
		break
	}
	return ""
}

func kvFmtEntries(m map[int]kvEntry) string {
	es := make([]kvEntry, 0, len(m))
	for _, e := range m {
		es = append(es, e)
	}
	sort.Slice(es, func(a, b int) bool { return es[a].pos < es[b].pos })
	var sb strings.Builder
	for _, e := range es {
		fmt.Fprintf(&sb, "%d@%d ", e.tok, e.pos)
	}
	return sb.String()
}

// needsEvicted reports whether the window of position p of sequence s contains
// an entry that a windowed cache was entitled to drop earlier.
func (r *kvRun) needsEvicted(s, p int) bool { return r.evictedInWindow(s, p) != 0 }

// evictedInWindow: 0 = the window of position p of sequence s holds no entry that
// a windowed cache was entitled to drop, 1 = it does, 2 = it does and at least
// one of them was dropped only by a StartForward that reported "full".
func (r *kvRun) evictedInWindow(s, p int) int {
	if r.cfg.kind == kvKindCausal {
		return 0
	}
	out := 0
	for _, e := range r.ref[s] {
		if e.gone != 0 && e.pos < int32(p) && e.pos >= int32(p)-r.cfg.window {
			out = max(out, e.gone)
		}
	}
	return out
}

// noteCause records the first operation after which the window of the next
// position of sequence s needs entries that a windowed cache has dropped. Either
// the caller asked CanResume and was told yes (copy / truncation), or the
// operation has no gate at all (Remove of a middle range).
func (r *kvRun) noteCause(s int, op string) {
	if len(r.ref[s]) == 0 {
		r.cause[s] = ""
	} else if r.cause[s] == "" {
		how := r.evictedInWindow(s, len(r.ref[s]))
		if how == 0 {
			return
		}
		switch op {
		case "remove-middle", "remove-prefix":
			r.cause[s] = "middle-remove"
		default:
			r.cause[s] = "canresume-yes"
		}
		name := "evicted_needed_again_by_" + strings.ReplaceAll(op, "-", "_")
		if how == 2 {
			name += "_after_full"
		}
		r.probe(name)
	}
}

func (r *kvRun) removeAll(s int, why string) {
	var err error
	if r.guard("Remove", func() { err = r.cache.Remove(s, 0, math.MaxInt32) }) {
		return
	}
	if err != nil {
		r.violate("error", "kv-error:remove-all-failed", "Remove(%d, 0, MaxInt32) failed: %v", s, err)
		return
	}
	r.ref[s] = nil
	r.lastOp[s] = why
	r.cause[s] = ""
}

// resume truncates sequence s to p entries the way the runner does it:
// CanResume first, everything dropped when the answer is no.
func (r *kvRun) resume(s, p int, op string) {
	if p > 0 && r.cfg.avoidEvicted && r.needsEvicted(s, p) {
		r.note("  (caller knows that part of the window of %d was evicted: restart at 0)", p)
		r.info("avoided_evicted_resume")
		p = 0
	}
	if p > 0 {
		ok := true
		if r.guard("CanResume", func() { ok = r.cache.CanResume(s, int32(p)) }) {
			return
		}
		if !ok {
			r.probe("canresume_false")
			conservative := true
			for _, e := range r.ref[s] {
				if e.gone != 0 && e.pos >= int32(p)-r.cfg.window {
					conservative = false
				}
			}
			if conservative {
				r.info("canresume_false_though_window_complete")
			}
			r.note("  CanResume(%d,%d)=false -> restart at 0", s, p)
			p = 0
		} else if r.cfg.kind != kvKindCausal {
			r.probe("canresume_true_windowed")
			r.note("  CanResume(%d,%d)=true", s, p)
		}
	}
	if p == len(r.ref[s]) && r.draw(2) == 1 {
		// nothing to remove: a caller may or may not issue the no-op Remove
		r.lastOp[s] = op
		r.noteCause(s, op)
		return
	}
	var err error
	if r.guard("Remove", func() { err = r.cache.Remove(s, int32(p), math.MaxInt32) }) {
		return
	}
	if err != nil {
		r.info("remove_suffix_error")
		r.note("  Remove(%d,%d,max) failed: %v", s, p, err)
		r.removeAll(s, op+"-failed")
		return
	}
	r.ref[s] = r.ref[s][:p:p]
	r.lastOp[s] = op
	r.noteCause(s, op)
}

func (r *kvRun) opCopy() {
	if r.cfg.nseq < 2 {
		return
	}
	src := r.liveSeqs(1)
	if len(src) == 0 || r.draw(8) == 7 {
		src = r.liveSeqs(0) // copying from an empty sequence empties the destination
	}
	s := src[r.draw(len(src))]
	d := r.draw(r.cfg.nseq - 1)
	if d >= s {
		d++
	}
	n := len(r.ref[s])
	l := r.draw(n + 2)
	r.mix(2, s, d, l)
	r.note("CopyPrefix(%d -> %d, len %d) (src has %d)", s, d, l, n)
	if r.guard("CopyPrefix", func() { r.cache.CopyPrefix(s, d, int32(l)) }) {
		return
	}
	r.info("nonput_ops")
	r.ref[d] = nil
	for _, e := range r.ref[s] {
		if e.pos < int32(l) {
			r.ref[d] = append(r.ref[d], e)
		}
	}
	if len(r.ref[d]) > 0 {
		r.probe("copy_prefix")
	}
	r.lastOp[d] = "copy"
	// the runner then loads the slot: keep everything or all but the last input
	p := len(r.ref[d])
	if p > 0 && r.draw(2) == 1 {
		p--
	}
	r.resume(d, p, "copy")
}

func (r *kvRun) opRemoveSuffix() {
	ss := r.liveSeqs(0)
	s := ss[r.draw(len(ss))]
	n := len(r.ref[s])
	p := r.draw(n + 1)
	r.mix(3, s, p)
	r.note("resume seq %d at %d (has %d)", s, p, n)
	r.info("nonput_ops")
	if p < n {
		r.probe("remove_suffix")
	}
	r.resume(s, p, "remove-suffix")
}

func (r *kvRun) opRemoveAll() {
	s := r.draw(r.cfg.nseq)
	r.mix(4, s)
	r.note("Remove(%d, 0, max)", s)
	r.info("nonput_ops")
	r.removeAll(s, "remove-all")
}

func (r *kvRun) shared(tok int, s int) bool {
	for o, es := range r.ref {
		if o == s {
			continue
		}
		for _, e := range es {
			if e.tok == tok {
				return true
			}
		}
	}
	return false
}

func (r *kvRun) opRemoveRange() {
	ss := r.liveSeqs(1)
	if len(ss) == 0 {
		// nothing stored anywhere: removing from an empty sequence must be harmless
		s, e := r.draw(r.cfg.nseq), 1+r.draw(3)
		r.note("Remove(%d, 0, %d) on an empty sequence", s, e)
		r.guard("Remove", func() { _ = r.cache.Remove(s, 0, int32(e)) })
		return
	}
	s := ss[r.draw(len(ss))]
	n := len(r.ref[s])
	b := r.draw(n)
	e := b + 1 + r.draw(n-b)
	kind := "remove-middle"
	if b == 0 {
		kind = "remove-prefix"
	}
	if e == n {
		kind = "remove-tail"
	}
	r.mix(5, s, b, e)
	r.note("Remove(%d, %d, %d) (has %d) [%s]", s, b, e, n, kind)
	r.info("nonput_ops")
	needShift := false // some entry behind the range is certainly still stored
	for _, x := range r.ref[s] {
		needShift = needShift || (x.pos >= int32(e) && x.gone == 0)
	}
	if e == n && b > 0 && r.cfg.kind != kvKindCausal {
		// removing up to the end is a resume at position b: the caller has to ask first
		ok := true
		if r.guard("CanResume", func() { ok = r.cache.CanResume(s, int32(b)) }) {
			return
		}
		if r.cfg.avoidEvicted && r.needsEvicted(s, b) {
			ok = false
		}
		if !ok {
			r.probe("canresume_false")
			r.note("  CanResume(%d,%d)=false -> dropping the sequence", s, b)
			r.removeAll(s, kind)
			return
		}
	}
	sharedTail := false
	for _, x := range r.ref[s] {
		if x.pos >= int32(e) && r.shared(x.tok, s) {
			sharedTail = true
		}
	}
	r.shiftCalls, r.shiftErrs, r.intErrs = 0, 0, 0
	if r.cfg.shiftMode == kvShiftBackendFail {
		r.be.failInt = func() bool {
			if r.draw(3) == 2 {
				r.intErrs++
				r.fault("shift_upload_error")
				return true
			}
			return false
		}
	}
	var err error
	if r.guard("Remove", func() { err = r.cache.Remove(s, int32(b), int32(e)) }) {
		return
	}
	r.be.failInt = nil
	if err == nil && r.shiftErrs+r.intErrs > 0 {
		r.violate("shift", "kv-shift:error-swallowed", "the shift of Remove(%d,%d,%d) failed (%d shift function errors, %d backend errors) but Remove returned nil", s, b, e, r.shiftErrs, r.intErrs)
		return
	}
	if err == nil && needShift && r.cfg.shiftMode == kvShiftUnsupported {
		r.violate("shift", "kv-shift:unsupported-not-reported", "Remove(%d,%d,%d) needs a position shift, the model has no shift function, but Remove returned nil", s, b, e)
		return
	}
	if err != nil {
		switch {
		case errors.Is(err, ErrNotSupported):
			r.probe("remove_no_shift_support")
		case r.shiftErrs+r.intErrs > 0:
			r.probe("shift_failed")
		case sharedTail:
			r.probe("remove_shared_cells_error")
		default:
			r.info("remove_unexpected_error")
		}
		r.note("  -> error %v; dropping the sequence", err)
		r.removeAll(s, kind+"-failed")
		return
	}
	var out []kvEntry
	for _, x := range r.ref[s] {
		switch {
		case x.pos < int32(b):
			out = append(out, x)
		case x.pos >= int32(e):
			x.pos -= int32(e - b)
			out = append(out, x)
		}
	}
	r.ref[s] = out
	r.lastOp[s] = kind
	r.probe(strings.ReplaceAll(kind, "-", "_"))
	if r.cfg.avoidEvicted && r.needsEvicted(s, len(out)) {
		r.note("  (caller knows that the shifted window now needs evicted entries: dropping the sequence)")
		r.info("avoided_evicted_shift")
		r.removeAll(s, kind)
		return
	}
	r.noteCause(s, kind)
	if needShift && r.shiftCalls > 0 {
		if b > 0 {
			r.probe("remove_middle_shifted")
		} else {
			r.probe("remove_prefix_shifted")
		}
	}
}

// opReserve plays a worst-case reservation pass: the graph is built but never
// computed, nothing may change.
func (r *kvRun) opReserve() {
	c := &r.cfg
	n := c.maxBatch
	b := input.Batch{Positions: make([]int32, n), Sequences: make([]int, n)}
	for i := range b.Positions {
		b.Positions[i] = int32(i)
	}
	r.mix(6)
	r.note("reserve pass (%d rows)", n)
	ctx := r.be.newContext(1 << 20) // the model's own graph is not limited by the small budget given to the cache
	defer ctx.Close()
	var err error
	r.guard("StartForward(reserve)", func() {
		err = r.cache.StartForward(ctx, b, true)
		if err != nil {
			return
		}
		for layer := 0; layer < c.layers; layer++ {
			kt, _ := ctx.FromFloatSlice(make([]float32, c.kdim*c.heads*n), c.kdim, c.heads, n)
			vt, _ := ctx.FromFloatSlice(make([]float32, c.vdim*c.heads*n), c.vdim, c.heads, n)
			r.cache.SetLayer(layer)
			if r.wrap != nil {
				r.wrap.SetLayerType(c.layerType[layer])
			}
			r.cache.Put(ctx, kt, vt)
			k, v, m := r.cache.Get(ctx)
			ctx.Forward(k, v, m)
		}
		_ = ctx.Reserve()
	})
	if err != nil {
		r.info("reserve_error")
	}
	r.probe("reserve_pass")
}

// ---- one run ---------------------------------------------------------------------

func runKV(t *testing.T, tape *verifsim.Tape, prop, tier string, keepLog bool) (res verifsim.Result) {
	res.Info = map[string]int{}
	res.Probes = map[string]int{}
	res.Faults = map[string]int{}
	r := &kvRun{tape: tape, res: &res, tier: tier, hash: 14695981039346656037}
	defer func() {
		if p := recover(); p != nil {
			res.HarnessErr = fmt.Sprintf("harness panic: %v\n%s", p, debug.Stack())
		}
		res.Steps = r.ops
		res.SchedHash = r.hash
		res.Strategy = kvKindNames[r.cfg.kind]
		res.TapeUsed = tape.Used()
		res.Tape = tape.Recorded()
		res.TapeOver = tape.Over
		res.Sample = append([]string{r.cfgString()}, r.desc...)
		if keepLog {
			res.Trace = res.Sample
		}
		if r.be != nil {
			res.Info["graph_overflow"] += r.be.graphOver
		}
		if r.cache != nil {
			r.cache.Close()
		}
	}()
	r.drawCfg()
	r.build()
	c := &r.cfg
	r.mix(c.kind, int(c.window), c.nseq, c.capacity, c.maxBatch, c.layers, c.cc.CachePadding, c.cc.MaskBatchPadding, c.shiftMode, c.maxNodes)
	total := 0
	for _, w := range c.weights {
		total += w
	}
	for r.ops = 0; r.ops < c.nops && !r.stopped; r.ops++ {
		x := r.draw(total)
		if r.wasFull && r.draw(2) == 1 {
			// a caller that was told "full" makes room
			r.wasFull = false
			if r.draw(2) == 0 {
				r.opRemoveAll()
			} else {
				r.opRemoveSuffix()
			}
			continue
		}
		op := 0
		for ; op < len(c.weights); op++ {
			if x < c.weights[op] {
				break
			}
			x -= c.weights[op]
		}
		switch op {
		case 0:
			rows := r.drawBatch()
			r.doBatch(rows, "", r.drawExcept(rows))
		case 1:
			r.opCopy()
		case 2:
			r.opRemoveSuffix()
		case 3:
			r.opRemoveRange()
		case 4:
			r.opRemoveAll()
		case 5:
			r.opReserve()
		}
	}
	// final sweep: every sequence that still has history is read back once
	for s := 0; s < c.nseq && !r.stopped; s++ {
		if len(r.ref[s]) == 0 {
			continue
		}
		row := kvRow{seq: s, pos: int32(len(r.ref[s])), tok: r.nextTok}
		r.nextTok++
		if !r.doBatch([]kvRow{row}, "sweep", nil) {
			r.info("sweep_skipped_full")
		}
		if !r.stopped {
			r.removeAll(s, "sweep")
		}
	}
	return res
}
