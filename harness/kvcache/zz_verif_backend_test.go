//go:build verif

package kvcache

// SimBackend for H-kvcache (C06): a pure-Go implementation of the subset of
// ml.Backend / ml.Context / ml.Tensor that package kvcache uses, faithful to
// the ggml semantics the cache code relies on:
//
//   - strides and view offsets are in BYTES of the tensor's dtype (F16 = 2,
//     F32/I32 = 4), exactly what Stride()/View() mean in ml/backend/ggml, so the
//     cache's own byte arithmetic (rowSize*loc, elemSize*loc, len(cells)*elemSize)
//     is exercised, not assumed;
//   - View / Permute alias the storage of their source (ggml_view_nd, ggml_permute);
//   - Copy is ggml_cpy: element-wise in logical (dim 0 fastest) order between two
//     arbitrarily strided tensors with the same number of elements;
//   - nothing executes when an op is created: ops become graph nodes, Forward adds
//     them (with their ancestors) to the context's graph, Compute executes the graph
//     in order, Close drops it. A copy that is never computed never happens.
//   - Empty returns poisoned (NaN) memory, Zeros zeroed memory;
//   - a view that reaches outside its buffer, a misaligned offset, a copy between
//     tensors of different element counts and any use of a closed context panic
//     (ggml asserts / use after free).
//
// Values are kept as one float32 per element whatever the dtype (no f16 rounding:
// the harness stores small integers only).

import (
	"errors"
	"fmt"
	"math"

	"github.com/ollama/ollama/ml"
)

type kvBackendPanic string

func (p kvBackendPanic) Error() string { return string(p) }

func kvElemSize(d ml.DType) int {
	switch d {
	case ml.DTypeF16:
		return 2
	default:
		return 4
	}
}

type kvBuf struct {
	data []float32
	es   int
}

type kvBackend struct {
	ml.Backend // not implemented: Config, Get (unused by kvcache)

	cc         ml.CacheConfig
	hasCC      bool // implements BackendCacheConfig semantics (see kvBackendCC)
	maxNodes   int
	newCtx     int // NewContext calls (defrag / shift open their own context)
	ctxs       []*kvCtx
	failFloat  func() bool // FromFloatSlice failure injection
	failInt    func() bool // FromIntSlice failure injection
	graphOver  int         // graphs that exceeded MaxGraphNodes (ggml would abort)
	copiesDone int
}

// kvBackendCC is the variant that also provides a CacheConfig, like the ggml backend.
type kvBackendCC struct{ *kvBackend }

func (b kvBackendCC) CacheConfig() ml.CacheConfig { return b.cc }

func (b *kvBackend) NewContext() ml.Context {
	b.newCtx++
	return b.newContext(b.maxNodes)
}

func (b *kvBackend) NewContextSize(n int) ml.Context {
	if n > b.maxNodes {
		panic(kvBackendPanic(fmt.Sprintf("requested number of graph nodes (%d) for new context exceeds maximum (%d)", n, b.maxNodes)))
	}
	return b.newContext(n)
}

func (b *kvBackend) newContext(n int) *kvCtx {
	c := &kvCtx{be: b, maxNodes: n}
	b.ctxs = append(b.ctxs, c)
	return c
}

type kvCtx struct {
	ml.Context // not implemented: Arange

	be       *kvBackend
	maxNodes int
	graph    []*kvTensor
	nodes    int
	leafs    int
	closed   bool
	computes int
	copies   int         // copy nodes executed by Compute
	maxCopy  int         // largest number of elements moved by one executed copy
	done     []*kvTensor // executed copy nodes
	created  int
}

func (c *kvCtx) live() {
	if c.closed {
		panic(kvBackendPanic("use of a closed context"))
	}
}

func (c *kvCtx) newTensor(dtype ml.DType, fill float32, shape ...int) *kvTensor {
	c.live()
	if len(shape) < 1 || len(shape) > 4 {
		panic(kvBackendPanic(fmt.Sprintf("unsupported number of dimensions %d", len(shape))))
	}
	t := &kvTensor{be: c.be, dtype: dtype, kind: "leaf"}
	es := kvElemSize(dtype)
	n := 1
	for i := 0; i < 4; i++ {
		t.ne[i] = 1
		if i < len(shape) {
			if shape[i] < 0 {
				panic(kvBackendPanic("negative dimension"))
			}
			t.ne[i] = shape[i]
		}
		if i == 0 {
			t.nb[0] = es
		} else {
			t.nb[i] = t.nb[i-1] * t.ne[i-1]
		}
		n *= t.ne[i]
	}
	t.buf = &kvBuf{data: make([]float32, n), es: es}
	if fill != 0 {
		for i := range t.buf.data {
			t.buf.data[i] = fill
		}
	}
	c.created++
	return t
}

func (c *kvCtx) Empty(dtype ml.DType, shape ...int) ml.Tensor {
	return c.newTensor(dtype, float32(math.NaN()), shape...)
}

func (c *kvCtx) Zeros(dtype ml.DType, shape ...int) ml.Tensor {
	return c.newTensor(dtype, 0, shape...)
}

func (c *kvCtx) FromFloatSlice(s []float32, shape ...int) (ml.Tensor, error) {
	c.live()
	n := 1
	for _, d := range shape {
		n *= d
	}
	if len(shape) == 0 || n != len(s) {
		return nil, fmt.Errorf("invalid shape: %v", shape)
	}
	if c.be.failFloat != nil && c.be.failFloat() {
		return nil, errors.New("sim backend: FromFloatSlice failed (injected)")
	}
	t := c.newTensor(ml.DTypeF32, 0, shape...)
	copy(t.buf.data, s)
	return t, nil
}

func (c *kvCtx) FromIntSlice(s []int32, shape ...int) (ml.Tensor, error) {
	c.live()
	n := 1
	for _, d := range shape {
		n *= d
	}
	if len(shape) == 0 || n != len(s) {
		return nil, fmt.Errorf("invalid shape: %v", shape)
	}
	if c.be.failInt != nil && c.be.failInt() {
		return nil, errors.New("sim backend: FromIntSlice failed (injected)")
	}
	t := c.newTensor(ml.DTypeI32, 0, shape...)
	for i, v := range s {
		t.buf.data[i] = float32(v)
	}
	return t, nil
}

func (c *kvCtx) visit(t *kvTensor) {
	if t == nil || t.stamp == c {
		return
	}
	t.stamp = c
	for _, d := range t.deps {
		c.visit(d)
	}
	if t.kind == "leaf" {
		c.leafs++
		return
	}
	c.nodes++
	if t.exec != nil {
		c.graph = append(c.graph, t)
	}
}

func (c *kvCtx) Forward(ts ...ml.Tensor) ml.Context {
	c.live()
	for _, t := range ts {
		if t == nil {
			continue
		}
		c.visit(t.(*kvTensor))
	}
	if c.nodes > c.maxNodes || c.leafs > c.maxNodes {
		c.be.graphOver++
	}
	return c
}

// Compute executes every node of the graph in the order it was built (the whole
// graph, every time, like ggml_backend_sched_graph_compute).
func (c *kvCtx) Compute(...ml.Tensor) {
	c.live()
	c.computes++
	for _, t := range c.graph {
		t.exec()
		if t.kind == "cpy" {
			c.copies++
			c.done = append(c.done, t)
			c.be.copiesDone++
			if n := t.nelem(); n > c.maxCopy {
				c.maxCopy = n
			}
		}
	}
}

func (c *kvCtx) Reserve() error       { c.live(); return nil }
func (c *kvCtx) MaxGraphNodes() int   { return c.maxNodes }
func (c *kvCtx) Close()               { c.closed = true; c.graph = nil }
func (c *kvCtx) Input() ml.Context    { return c }
func (c *kvCtx) Layer(int) ml.Context { return c }

type kvTensor struct {
	ml.Tensor // everything the cache does not use panics with a nil dereference

	be    *kvBackend
	dtype ml.DType
	buf   *kvBuf
	off   int // byte offset into buf
	ne    [4]int
	nb    [4]int // byte strides
	kind  string // leaf, view, permute, cpy, custom
	deps  []*kvTensor
	exec  func()
	stamp *kvCtx
}

func (t *kvTensor) Dim(n int) int    { return t.ne[n] }
func (t *kvTensor) Stride(n int) int { return t.nb[n] }
func (t *kvTensor) DType() ml.DType  { return t.dtype }

// Shape has ggml_n_dims entries: trailing dimensions of size 1 are dropped.
func (t *kvTensor) Shape() []int {
	n := 1
	for i := 3; i >= 1; i-- {
		if t.ne[i] > 1 {
			n = i + 1
			break
		}
	}
	return append([]int(nil), t.ne[:n]...)
}

func (t *kvTensor) nelem() int { return t.ne[0] * t.ne[1] * t.ne[2] * t.ne[3] }

func (t *kvTensor) index(i0, i1, i2, i3 int) int {
	b := t.off + i0*t.nb[0] + i1*t.nb[1] + i2*t.nb[2] + i3*t.nb[3]
	if b%t.buf.es != 0 {
		panic(kvBackendPanic(fmt.Sprintf("misaligned tensor access (byte offset %d, element size %d)", b, t.buf.es)))
	}
	i := b / t.buf.es
	if b < 0 || i >= len(t.buf.data) {
		panic(kvBackendPanic(fmt.Sprintf("tensor access outside its buffer (element %d of %d)", i, len(t.buf.data))))
	}
	return i
}

func (t *kvTensor) at(i0, i1, i2, i3 int) float32 { return t.buf.data[t.index(i0, i1, i2, i3)] }

// nth returns the storage index of the n-th element in logical order.
func (t *kvTensor) nth(n int) int {
	i0 := n % t.ne[0]
	n /= t.ne[0]
	i1 := n % t.ne[1]
	n /= t.ne[1]
	i2 := n % t.ne[2]
	n /= t.ne[2]
	return t.index(i0, i1, i2, n)
}

func (t *kvTensor) Floats() []float32 {
	out := make([]float32, t.nelem())
	for i := range out {
		out[i] = t.buf.data[t.nth(i)]
	}
	return out
}

// checkExtent panics when the tensor reaches outside its buffer
// (ggml_backend_view_init / tensor_alloc assert).
func (t *kvTensor) checkExtent() {
	if t.nelem() == 0 {
		return
	}
	if t.off < 0 || t.off%t.buf.es != 0 {
		panic(kvBackendPanic(fmt.Sprintf("view offset %d invalid for element size %d", t.off, t.buf.es)))
	}
	last := t.off
	for i := 0; i < 4; i++ {
		if t.nb[i] < 0 || t.nb[i]%t.buf.es != 0 {
			panic(kvBackendPanic(fmt.Sprintf("view stride %d invalid for element size %d", t.nb[i], t.buf.es)))
		}
		last += (t.ne[i] - 1) * t.nb[i]
	}
	if last/t.buf.es >= len(t.buf.data) {
		panic(kvBackendPanic(fmt.Sprintf("view reaches element %d of a buffer of %d elements", last/t.buf.es, len(t.buf.data))))
	}
}

// View follows ml/backend/ggml: shape is ne0[, nb1, ne1[, nb2, ne2[, nb3, ne3]]],
// offset and strides in bytes, relative to the receiver's data.
func (t *kvTensor) View(ctx ml.Context, offset int, shape ...int) ml.Tensor {
	ctx.(*kvCtx).live()
	v := &kvTensor{be: t.be, dtype: t.dtype, buf: t.buf, off: t.off + offset, kind: "view", deps: []*kvTensor{t}}
	v.ne = [4]int{1, 1, 1, 1}
	es := t.buf.es
	switch len(shape) {
	case 1:
		v.ne[0] = shape[0]
		v.nb[0] = es
		v.nb[1] = es * v.ne[0]
		v.nb[2], v.nb[3] = v.nb[1], v.nb[1]
	case 3:
		v.ne[0], v.ne[1] = shape[0], shape[2]
		v.nb[0], v.nb[1] = es, shape[1]
		v.nb[2] = v.nb[1] * v.ne[1]
		v.nb[3] = v.nb[2]
	case 5:
		v.ne[0], v.ne[1], v.ne[2] = shape[0], shape[2], shape[4]
		v.nb[0], v.nb[1], v.nb[2] = es, shape[1], shape[3]
		v.nb[3] = v.nb[2] * v.ne[2]
	case 7:
		v.ne[0], v.ne[1], v.ne[2], v.ne[3] = shape[0], shape[2], shape[4], shape[6]
		v.nb[0], v.nb[1], v.nb[2], v.nb[3] = es, shape[1], shape[3], shape[5]
	default:
		panic(kvBackendPanic("unsupported number of dimensions"))
	}
	for i := 0; i < 4; i++ {
		if v.ne[i] < 0 {
			panic(kvBackendPanic("negative view dimension"))
		}
	}
	v.checkExtent()
	return v
}

// Permute is ggml_permute: dimension i of the source becomes dimension axes[i].
func (t *kvTensor) Permute(ctx ml.Context, axes ...int) ml.Tensor {
	ctx.(*kvCtx).live()
	if len(axes) != 4 {
		panic(kvBackendPanic("expected 4 dimensions"))
	}
	v := &kvTensor{be: t.be, dtype: t.dtype, buf: t.buf, off: t.off, kind: "permute", deps: []*kvTensor{t}}
	var seen [4]bool
	for i, a := range axes {
		if a < 0 || a > 3 || seen[a] {
			panic(kvBackendPanic("invalid permutation"))
		}
		seen[a] = true
		v.ne[a] = t.ne[i]
		v.nb[a] = t.nb[i]
	}
	return v
}

// Copy is ggml_cpy(t, t2): the result is a view of t2.
func (t *kvTensor) Copy(ctx ml.Context, t2 ml.Tensor) ml.Tensor {
	ctx.(*kvCtx).live()
	dst := t2.(*kvTensor)
	if t.nelem() != dst.nelem() {
		panic(kvBackendPanic(fmt.Sprintf("copy between tensors of %d and %d elements", t.nelem(), dst.nelem())))
	}
	r := &kvTensor{be: t.be, dtype: dst.dtype, buf: dst.buf, off: dst.off, ne: dst.ne, nb: dst.nb, kind: "cpy", deps: []*kvTensor{t, dst}}
	src := t
	r.exec = func() {
		n := src.nelem()
		if src.buf == dst.buf {
			// same storage: read everything first (no cache operation relies on
			// overlapping copy order; keep the result order-independent)
			tmp := make([]float32, n)
			for i := 0; i < n; i++ {
				tmp[i] = src.buf.data[src.nth(i)]
			}
			for i := 0; i < n; i++ {
				dst.buf.data[dst.nth(i)] = tmp[i]
			}
			return
		}
		for i := 0; i < n; i++ {
			dst.buf.data[dst.nth(i)] = src.buf.data[src.nth(i)]
		}
	}
	return r
}

// kvCustom builds a lazily evaluated node with a fresh contiguous result of the
// same shape as like (used by the harness' shift function).
func kvCustom(ctx ml.Context, like *kvTensor, deps []*kvTensor, f func(out *kvTensor)) *kvTensor {
	c := ctx.(*kvCtx)
	out := c.newTensor(like.dtype, float32(math.NaN()), like.ne[0], like.ne[1], like.ne[2], like.ne[3])
	out.kind = "custom"
	out.deps = deps
	out.exec = func() { f(out) }
	return out
}
