//go:build verif

package server

// C17 — streaming == non-streaming == OpenAI-compatible (DESIGN.md section 5, C17).
//
// A case is (request shape, model output O, runner failure point). simLlama's
// Completion delivers O in a tape-chosen fragmentation (always at UTF-8
// boundaries: the real llmServer.Completion decodes every chunk from JSON, so a
// chunk is always whole UTF-8 — that is what C14 is about) with latency, and can
// fail before the first fragment, after a fixed prefix of O, or after the last
// fragment but before the done message. The same case is issued through up to
// six "ways": native stream / non-stream on a raw recorder, the same through
// api.Client over an in-process RoundTripper (client-side decoding runs for
// real), /v1 stream (SSE) and /v1 non-stream; every call draws its own
// fragmentation, so stream-vs-non-stream and the metamorphic re-chunking
// relation are both covered by comparing every pair of results.

import (
	"bytes"
	"context"
	"encoding/json"
	"errors"
	"fmt"
	"strconv"
	"strings"
	"testing"
	"time"
	"unicode/utf8"

	"github.com/ollama/ollama/api"
	"github.com/ollama/ollama/llm"
	"github.com/ollama/ollama/openai"
	"github.com/ollama/ollama/verifsim"
)

const (
	wayNN = iota // native non-stream, raw recorder
	wayCN        // native non-stream, api.Client
	wayNS        // native stream, raw recorder
	wayCS        // native stream, api.Client
	wayON        // /v1 non-stream
	wayOS        // /v1 stream (SSE)
	numWays
)

var wayNames = [...]string{"native-nonstream", "native-nonstream(client)", "native-stream", "native-stream(client)", "openai-nonstream", "openai-stream"}

func wayOpenAI(w int) bool { return w == wayON || w == wayOS }
func wayStream(w int) bool { return w == wayNS || w == wayCS || w == wayOS }
func wayClient(w int) bool { return w == wayCN || w == wayCS }
func wayClass(w int) string {
	s := "native"
	if wayOpenAI(w) {
		s = "openai"
	}
	if wayStream(w) {
		return s + "-stream"
	}
	return s + "-nonstream"
}

const (
	failNone = iota
	failBeforeFirst
	failBetween
	failAfterLast
	failSilentEnd // the runner's stream ends without a done message and without an error (llm/server.go token-repeat abort)
	failAfterDone // the runner goes away right after its final message: the follow-up Tokenize call of generate fails
)

var failNames = [...]string{"no-failure", "fail-before-first-fragment", "fail-between-fragments", "fail-after-last-fragment", "silent-end", "fail-after-done-message"}

// failClass is the part of a failure point that goes into signatures.
func failClass(f int) string {
	switch f {
	case failNone:
		return "no-failure"
	case failSilentEnd:
		return "silent-end"
	}
	return "runner-error"
}

type c17Plan struct {
	frags    []string
	fail     int
	prompt   string
	format   string
	stops    []string
	called   int
	fragDsc  string
	doneSent bool
}

type c17Res struct {
	way        int
	status     int
	ok         bool // ended with a final message and no error
	content    string
	tools      []string
	doneReason string
	promptEval int
	evalCount  int
	haveCounts bool
	context    []int
	finals     int
	errs       int
	after      int // messages after the first terminator
	errMsg     string
	plan       *c17Plan
	malformed  string
	abandoned  bool // cancelled, and the handler had not returned 3 simulated seconds later
	cancelled  bool // the client cancelled before the answer was complete: nothing is stated but "what arrived is a prefix"
	noReason   bool // the model output ends with the reason that has no name: a complete answer carries no reason
}

type c17Case struct {
	id       int
	chat     bool
	fam      *apiFamily
	model    string
	raw      bool
	system   string
	format   string
	stops    []string
	tools    bool
	user     string
	suffix   string
	out      string
	outKind  string
	done     llm.DoneReason
	pe, ec   int
	fail     int
	failPref int // bytes of O delivered before a failBetween failure
	ways     []int
	cur      *c17Plan
	results  []*c17Res
	finished bool
	usage    bool

	seenClass map[string]bool
	shared    map[bool]*c17Plan
}

type c17World struct {
	*apiWorld
	cases    []*c17Case
	setupErr string
	ready    bool
	premise  int
}

func (c *c17Case) marker() string { return "zqcase" + strconv.Itoa(c.id) + "qz" }

func (c *c17Case) shape() string {
	s := "generate"
	if c.chat {
		s = "chat"
	}
	if c.tools {
		s += "+tools"
	}
	return s
}

func (c *c17Case) String() string {
	return fmt.Sprintf("case %d: %s model=%s raw=%v system=%q suffix=%q format=%q stop=%v output(%s)=%q done=%s failure=%s@%d ways=%v",
		c.id, c.shape(), c.model, c.raw, c.system, c.suffix, c.format, c.stops, c.outKind, c.out, c.done, failNames[c.fail], c.failPref, c.wayList())
}

func (c *c17Case) wayList() []string {
	var l []string
	for _, w := range c.ways {
		l = append(l, wayNames[w])
	}
	return l
}

// ---- model output generator ----------------------------------------------------------------

var c17Words = []string{"hello", "wonderful", "world", "of", "tokens", "the", "answer", "is", "42", "{", "}", "[", "]", "\"quoted\"", "\n", "a:b", "x,y"}
var c17MB = []string{"héllo", "wörld", "✓", "日本語", "🙂", "naïve", "Ünï", "→", "κόσμε", "é"}

func c17Text(multibyte bool, maxWords int) string {
	n := 1 + verifsim.Draw("words", maxWords)
	var sb strings.Builder
	for i := 0; i < n; i++ {
		if i > 0 {
			sb.WriteString(" ")
		}
		if multibyte && verifsim.Draw("mb", 2) == 0 {
			sb.WriteString(c17MB[verifsim.Draw("mbw", len(c17MB))])
		} else {
			sb.WriteString(c17Words[verifsim.Draw("w", 9)]) // plain words only
		}
	}
	return sb.String()
}

func c17Args() string {
	switch verifsim.Draw("args", 7) {
	case 0:
		return `{}`
	case 1:
		return `{"city":"Paris"}`
	case 2:
		return `{"city":"Zürich","days":3,"units":["c","f"]}`
	case 3:
		return `{"q":"日本語 🙂","opts":{"deep":{"n":1.5,"ok":true}},"none":null}`
	case 4:
		return `{"text":"a \"quoted\" {brace} and a \\ backslash","n":-12}`
	case 5:
		return `{"text":"caf\u00e9 \ud83d\ude42 tab\there","path":"C:\\dir\\file","url":"https:\/\/x.y\/z"}`
	default:
		return `{"a":1,"b":[1,2,{"c":"d"}]}`
	}
}

var c17Funcs = []string{"get_weather", "search", "calc", "lookup_user"}

// c17Call renders one tool call the way the family's template renders them.
func c17Call(f *apiFamily) string {
	name := c17Funcs[verifsim.Draw("fn", len(c17Funcs))]
	args := c17Args()
	nameKey, argKey := "name", "arguments"
	if f.tmpl == apiTmplToolsB {
		nameKey, argKey = "tool_name", "parameters"
	}
	switch verifsim.Draw("callfmt", 3) {
	case 0:
		return fmt.Sprintf(`{"%s":"%s","%s":%s}`, nameKey, name, argKey, args)
	case 1:
		return fmt.Sprintf(`{"%s": "%s", "%s": %s}`, nameKey, name, argKey, args)
	default:
		return fmt.Sprintf(`{"%s":%s,"%s":"%s"}`, argKey, args, nameKey, name)
	}
}

func (cw *c17World) drawOutput(c *c17Case) {
	kinds := []string{"text", "text", "multibyte", "multibyte", "json-not-a-call", "json-not-a-call", "empty"}
	if c.tools {
		kinds = []string{"text", "multibyte", "one-call", "two-calls", "call-array", "text+call", "call+text", "wrapped-calls", "json-not-a-call", "unterminated-call", "three-calls", "empty", "one-call", "two-calls", "fenced-calls", "scalar+call"}
	}
	c.outKind = kinds[verifsim.Draw("outkind", len(kinds))]
	if verifsim.Draw("long-output", 40) == 0 {
		// a long answer (larger than any 64 KiB line buffer): in non-streaming mode it is one line
		c.outKind = "long-text"
	}
	f := c.fam
	seps := []string{"", "\n", " ", ", ", "\n\n"}
	sep := func() string { return seps[verifsim.Draw("sep", len(seps))] }
	switch c.outKind {
	case "text":
		c.out = c17Text(false, 12)
		if verifsim.Draw("punct", 3) == 0 {
			c.out += " " + c17Words[9+verifsim.Draw("pw", len(c17Words)-9)] + " " + c17Text(false, 3)
		}
	case "multibyte":
		c.out = c17Text(true, 10)
	case "long-text":
		unit := c17Text(verifsim.Draw("long-mb", 2) == 0, 12) + " "
		c.out = strings.Repeat(unit, (66000+verifsim.Draw("long-extra", 70000))/len(unit)+1)
	case "empty":
		c.out = ""
	case "json-not-a-call":
		c.out = []string{`{"answer": 42}`, `{"name": 7, "arguments": "x"}`, `[1, 2, 3]`, `{"result":{"ok":true},"list":[{"a":1}]}`, `"just a string"`, `null`,
			`{"name":"get_weather","arguments":"{\"city\":\"Paris\"}"}`, `{"name":"get_weather","arguments":null}`, `{"name":"get_weather","arguments":["Paris"]}`, `{"name":"get_weather"}`}[verifsim.Draw("nj", 10)]
	case "one-call":
		c.out = c17Call(f)
	case "two-calls":
		c.out = c17Call(f) + sep() + c17Call(f)
	case "three-calls":
		c.out = c17Call(f) + sep() + c17Call(f) + sep() + c17Call(f)
	case "call-array":
		c.out = "[" + c17Call(f) + "," + c17Call(f) + "]"
		if verifsim.Draw("arr1", 2) == 0 {
			c.out = "[" + c17Call(f) + "]"
		}
	case "text+call":
		c.out = c17Text(verifsim.Draw("tmb", 2) == 0, 5) + sep() + c17Call(f)
	case "call+text":
		c.out = c17Call(f) + sep() + c17Text(verifsim.Draw("tmb", 2) == 0, 5)
	case "wrapped-calls":
		c.out = `{"tool_calls":[` + c17Call(f) + `,` + c17Call(f) + `]}`
	case "fenced-calls":
		c.out = "```json\n" + c17Call(f) + "\n" + c17Call(f) + "\n```"
	case "scalar+call":
		c.out = []string{"42 ", "true\n", "\"ok\" ", "null", "-1.5e3,"}[verifsim.Draw("scalar", 5)] + c17Call(f)
	case "unterminated-call":
		s := c17Call(f)
		rs := []rune(s)
		c.out = string(rs[:1+verifsim.Draw("cut", len(rs)-1)])
	}
}

// fragment splits s (or its first upto bytes) at rune boundaries in a tape-chosen way.
func c17Fragment(s string) ([]string, string) {
	if s == "" {
		return nil, "empty"
	}
	rs := []rune(s)
	mode := verifsim.Draw("fragmode", 6)
	if len(rs) > 2000 {
		// a very long output is delivered in at most seven pieces (never rune by rune: the
		// run would need more simulated time and steps than its budget)
		np := 1 + verifsim.Draw("long-pieces", 7)
		var out []string
		for i, k := 0, 0; k < np; k++ {
			n := (len(rs) - i) / (np - k)
			if k < np-1 && n > 1 {
				n = 1 + verifsim.Draw("long-cut", 2*n-1)
				if i+n > len(rs)-(np-k-1) {
					n = len(rs) - (np - k - 1) - i
				}
			} else if k == np-1 {
				n = len(rs) - i
			}
			out = append(out, string(rs[i:i+n]))
			i += n
		}
		return out, "long-output-pieces(" + strconv.Itoa(len(out)) + ")"
	}
	switch mode {
	case 0:
		return []string{s}, "whole"
	case 1:
		out := make([]string, 0, len(rs))
		for _, r := range rs {
			out = append(out, string(r))
		}
		return out, "per-rune"
	case 2:
		// token-like: 1..6 runes per fragment
		var out []string
		for i := 0; i < len(rs); {
			n := 1 + verifsim.Draw("tok", 6)
			if i+n > len(rs) {
				n = len(rs) - i
			}
			out = append(out, string(rs[i:i+n]))
			i += n
		}
		return out, "token-like"
	case 3:
		// two pieces at a random cut
		if len(rs) < 2 {
			return []string{s}, "whole"
		}
		k := 1 + verifsim.Draw("cut2", len(rs)-1)
		return []string{string(rs[:k]), string(rs[k:])}, "two-pieces@" + strconv.Itoa(k)
	default:
		// few large pieces
		var out []string
		for i := 0; i < len(rs); {
			n := 1 + verifsim.Draw("big", len(rs))
			if i+n > len(rs) {
				n = len(rs) - i
			}
			out = append(out, string(rs[i:i+n]))
			i += n
		}
		return out, "large-pieces(" + strconv.Itoa(len(out)) + ")"
	}
}

// ---- the scripted runner ---------------------------------------------------------------------

func (cw *c17World) completion(ctx context.Context, req llm.CompletionRequest, fn func(llm.CompletionResponse)) error {
	verifsim.Yield("sim:completion")
	var c *c17Case
	for _, x := range cw.cases {
		if strings.Contains(req.Prompt, x.marker()) {
			c = x
		}
	}
	if c == nil || c.cur == nil {
		return errors.New("sim: completion for an unknown case")
	}
	p := c.cur
	p.called++
	p.prompt = req.Prompt
	p.format = string(req.Format)
	if req.Options != nil {
		p.stops = append([]string(nil), req.Options.Stop...)
	}
	if p.fail == failBeforeFirst {
		verifsim.Fault("runner_fail_before_first")
		verifsim.Probe("c17_fail_before_first")
		return errors.New("sim: runner failed before the first fragment")
	}
	for i, f := range p.frags {
		verifsim.Sleep(time.Duration(verifsim.Draw("lat", 40)) * time.Millisecond)
		if err := ctx.Err(); err != nil {
			return err
		}
		if len(f) > 1 && !utf8.ValidString(f) {
			panic("harness: invalid fragment")
		}
		if i > 0 {
			prev, _ := utf8.DecodeLastRuneInString(p.frags[i-1])
			next, _ := utf8.DecodeRuneInString(f)
			if utf8.RuneLen(prev) > 1 || utf8.RuneLen(next) > 1 {
				verifsim.Probe("c17_multibyte_split")
			}
		}
		fn(llm.CompletionResponse{Content: f})
	}
	switch p.fail {
	case failBetween:
		verifsim.Fault("runner_fail_between")
		verifsim.Probe("c17_fail_between")
		return errors.New("sim: runner failed between fragments")
	case failAfterLast:
		verifsim.Fault("runner_fail_after_last")
		verifsim.Probe("c17_fail_after_last")
		return errors.New("sim: runner failed after the last fragment")
	case failSilentEnd:
		verifsim.Fault("runner_silent_end")
		return nil
	}
	verifsim.Sleep(time.Duration(verifsim.Draw("lat-done", 20)) * time.Millisecond)
	if p.fail == failAfterDone {
		// from now on the runner does not answer any more
		p.doneSent = true
		verifsim.Fault("runner_fail_after_done")
	}
	fn(llm.CompletionResponse{Done: true, DoneReason: c.done, PromptEvalCount: c.pe, EvalCount: c.ec,
		PromptEvalDuration: 3 * time.Millisecond, EvalDuration: 5 * time.Millisecond})
	return nil
}

// tokenizeErr makes the Tokenize call that follows the final message of a failAfterDone case fail.
func (cw *c17World) tokenizeErr(content string) error {
	for _, x := range cw.cases {
		if x.fail == failAfterDone && x.cur != nil && x.cur.doneSent && strings.Contains(content, x.marker()) {
			verifsim.Probe("c17_fail_after_done")
			return errors.New("sim: runner went away after its final message")
		}
	}
	return nil
}

// ---- issuing one case one way ------------------------------------------------------------------

func c17Tools() api.Tools {
	var ts api.Tools
	for _, n := range c17Funcs[:2] {
		var t api.Tool
		t.Type = "function"
		t.Function.Name = n
		t.Function.Description = "tool " + n
		t.Function.Parameters.Type = "object"
		t.Function.Parameters.Required = []string{"city"}
		ts = append(ts, t)
	}
	return ts
}

func (cw *c17World) issue(c *c17Case, way int) *c17Res {
	out := c.out
	fail := c.fail
	if fail == failBetween {
		out = c.out[:c.failPref]
	}
	// The first call of each (API, stream flag) shares its fragmentation with the first
	// call of the other API with the same flag, so that a difference between the two APIs
	// is never a difference of fragmentation; every further call draws its own.
	var frags []string
	var dsc string
	key := wayClass(way)
	if c.seenClass == nil {
		c.seenClass = map[string]bool{}
		c.shared = map[bool]*c17Plan{}
	}
	if sh := c.shared[wayStream(way)]; !c.seenClass[key] && sh != nil {
		frags, dsc = sh.frags, sh.fragDsc
	} else {
		frags, dsc = c17Fragment(out)
	}
	p := &c17Plan{frags: frags, fail: fail, fragDsc: dsc}
	if !c.seenClass[key] && c.shared[wayStream(way)] == nil {
		c.shared[wayStream(way)] = p
	}
	c.seenClass[key] = true
	c.cur = p
	r := &c17Res{way: way, plan: p, noReason: c.done == llm.DoneReasonConnectionClosed}
	ctx := context.Background()
	cancelArm := false
	if c.fail == failNone && verifsim.Draw("client-cancel", 12) == 0 {
		cancelArm = true
		// the client goes away at a tape-chosen moment
		cctx, cancel := context.WithCancel(ctx)
		ctx = cctx
		defer cancel()
		delay := time.Duration(verifsim.Draw("cancel-after", 40*(len(frags)+2))) * time.Millisecond
		verifsim.Go("cancel", func() {
			verifsim.Sleep(delay)
			if c.cur == p {
				verifsim.Fault("client_cancel")
				r.cancelled = true
			}
			cancel()
		})
	}
	stream := wayStream(way)
	opts := map[string]any{}
	if len(c.stops) > 0 {
		opts["stop"] = c.stops
	}
	var msgs []api.Message
	if c.chat {
		if c.system != "" {
			msgs = append(msgs, api.Message{Role: "system", Content: c.system})
		}
		msgs = append(msgs, api.Message{Role: "user", Content: c.user})
	}
	var tools api.Tools
	if c.tools {
		tools = c17Tools()
	}
	if cancelArm {
		// A request cancelled while it waits in the scheduler's queue is dropped without
		// a reply and its handler never returns (the C02 carve-out "a cancelled request
		// receives at most one reply"); a client that went away does not wait for it.
		finished := false
		verifsim.Go("call", func() {
			cw.perform(c, way, r, ctx, stream, opts, msgs, tools)
			finished = true
		})
		for waited := 0; !finished; {
			verifsim.Sleep(20 * time.Millisecond)
			if r.cancelled {
				if waited++; waited > 150 {
					r.abandoned = true
					verifsim.Probe("c17_cancelled_call_never_returned")
					break
				}
			}
		}
	} else {
		cw.perform(c, way, r, ctx, stream, opts, msgs, tools)
	}
	r.ok = r.finals >= 1 && r.errs == 0 && !r.abandoned
	if c.cur == p {
		c.cur = nil
	}
	if r.cancelled && r.ok {
		r.cancelled = false // the answer was complete before the cancellation took effect
	}
	return r
}

// perform sends the request of case c one way and parses the answer into r.
func (cw *c17World) perform(c *c17Case, way int, r *c17Res, ctx context.Context, stream bool, opts map[string]any, msgs []api.Message, tools api.Tools) {
	switch {
	case !wayOpenAI(way) && c.chat:
		req := api.ChatRequest{Model: c.model, Messages: msgs, Options: opts, Tools: tools}
		if c.format != "" {
			req.Format = json.RawMessage(c.format)
		}
		if !stream || verifsim.Draw("explicit-stream", 2) == 0 {
			req.Stream = &stream
		}
		if wayClient(way) {
			verifsim.Probe("c17_client_decoded_" + map[bool]string{true: "stream", false: "nonstream"}[stream])
			err := cw.client().Chat(ctx, &req, func(cr api.ChatResponse) error {
				r.addChat(cr)
				return nil
			})
			r.status = 200
			if err != nil {
				r.clientErr(err)
			}
		} else {
			mw := cw.apiJSON(ctx, "POST", "/api/chat", req)
			r.parseNative(mw, true)
		}
	case !wayOpenAI(way) && !c.chat:
		req := api.GenerateRequest{Model: c.model, Prompt: c.user, Suffix: c.suffix, System: c.system, Raw: c.raw, Options: opts}
		if c.format != "" {
			req.Format = json.RawMessage(c.format)
		}
		if !stream || verifsim.Draw("explicit-stream", 2) == 0 {
			req.Stream = &stream
		}
		if wayClient(way) {
			verifsim.Probe("c17_client_decoded_" + map[bool]string{true: "stream", false: "nonstream"}[stream])
			err := cw.client().Generate(ctx, &req, func(gr api.GenerateResponse) error {
				r.addGenerate(gr)
				return nil
			})
			r.status = 200
			if err != nil {
				r.clientErr(err)
			}
		} else {
			mw := cw.apiJSON(ctx, "POST", "/api/generate", req)
			r.parseNative(mw, false)
		}
	case c.chat:
		req := openai.ChatCompletionRequest{Model: c.model, Stream: stream, Tools: tools}
		for _, m := range msgs {
			req.Messages = append(req.Messages, openai.Message{Role: m.Role, Content: m.Content})
		}
		if len(c.stops) > 0 {
			req.Stop = c.stops
		}
		if c.format != "" {
			req.ResponseFormat = &openai.ResponseFormat{Type: "json_object"}
		}
		if stream && c.usage {
			req.StreamOptions = &openai.StreamOptions{IncludeUsage: true}
		}
		mw := cw.apiJSON(ctx, "POST", "/v1/chat/completions", req)
		r.parseOpenAI(mw, true, stream)
	default:
		req := openai.CompletionRequest{Model: c.model, Prompt: c.user, Suffix: c.suffix, Stream: stream}
		if len(c.stops) > 0 {
			req.Stop = c.stops
		}
		if stream && c.usage {
			req.StreamOptions = &openai.StreamOptions{IncludeUsage: true}
		}
		mw := cw.apiJSON(ctx, "POST", "/v1/completions", req)
		r.parseOpenAI(mw, false, stream)
	}
}

func toolString(name string, args any) string {
	b, err := json.Marshal(args)
	if err != nil {
		return name + "(?)"
	}
	return name + string(b)
}

func (r *c17Res) term() {
	// called for every message seen after the first terminator
	if r.finals+r.errs > 0 {
		r.after++
	}
}

func (r *c17Res) addChat(cr api.ChatResponse) {
	r.term()
	r.content += cr.Message.Content
	for _, tc := range cr.Message.ToolCalls {
		r.tools = append(r.tools, toolString(tc.Function.Name, tc.Function.Arguments))
	}
	if cr.Done {
		r.finals++
		r.doneReason = cr.DoneReason
		r.promptEval, r.evalCount, r.haveCounts = cr.PromptEvalCount, cr.EvalCount, true
	}
}

func (r *c17Res) addGenerate(gr api.GenerateResponse) {
	r.term()
	r.content += gr.Response
	if gr.Done {
		r.finals++
		r.doneReason = gr.DoneReason
		r.promptEval, r.evalCount, r.haveCounts = gr.PromptEvalCount, gr.EvalCount, true
		r.context = gr.Context
	}
}

func (r *c17Res) clientErr(err error) {
	r.errs++
	r.errMsg = err.Error()
	var se api.StatusError
	if errors.As(err, &se) {
		r.status = se.StatusCode
	}
}

// parseNative reads an NDJSON (or single JSON) body of /api/generate or /api/chat.
func (r *c17Res) parseNative(mw *memWriter, chat bool) {
	r.status = mw.code
	for _, line := range bytes.Split(mw.body.Bytes(), []byte("\n")) {
		if len(bytes.TrimSpace(line)) == 0 {
			continue
		}
		var probe map[string]json.RawMessage
		if err := json.Unmarshal(line, &probe); err != nil {
			r.malformed = "line is not a JSON object: " + firstN(string(line), 120)
			continue
		}
		if e, ok := probe["error"]; ok {
			r.term()
			r.errs++
			_ = json.Unmarshal(e, &r.errMsg)
			continue
		}
		if chat {
			var cr api.ChatResponse
			if err := json.Unmarshal(line, &cr); err != nil {
				r.malformed = "bad chat response: " + err.Error()
				continue
			}
			r.addChat(cr)
		} else {
			var gr api.GenerateResponse
			if err := json.Unmarshal(line, &gr); err != nil {
				r.malformed = "bad generate response: " + err.Error()
				continue
			}
			r.addGenerate(gr)
		}
	}
	if mw.code != 200 && r.errs == 0 {
		r.errs++ // a non-200 status is an error answer whatever the body says
		r.errMsg = "status " + strconv.Itoa(mw.code)
	}
}

type c17OAChoice struct {
	Text    *string `json:"text"`
	Message *struct {
		Content   any               `json:"content"`
		ToolCalls []openai.ToolCall `json:"tool_calls"`
	} `json:"message"`
	Delta *struct {
		Content   any               `json:"content"`
		ToolCalls []openai.ToolCall `json:"tool_calls"`
	} `json:"delta"`
	FinishReason *string `json:"finish_reason"`
}

type c17OAMsg struct {
	Error   json.RawMessage `json:"error"`
	Choices []c17OAChoice   `json:"choices"`
	Usage   *openai.Usage   `json:"usage"`
}

func (r *c17Res) addOpenAI(data []byte, stream bool) {
	var m c17OAMsg
	if err := json.Unmarshal(data, &m); err != nil {
		r.malformed = "bad /v1 payload: " + firstN(string(data), 120)
		return
	}
	if len(m.Error) > 0 && string(m.Error) != "null" {
		r.term()
		r.errs++
		var e struct {
			Message string `json:"message"`
		}
		_ = json.Unmarshal(m.Error, &e)
		r.errMsg = e.Message
		return
	}
	if stream {
		r.term()
	}
	addTools := func(tcs []openai.ToolCall) {
		for _, tc := range tcs {
			var args any
			if err := json.Unmarshal([]byte(tc.Function.Arguments), &args); err != nil {
				args = "unparsable:" + tc.Function.Arguments
			}
			r.tools = append(r.tools, toolString(tc.Function.Name, args))
		}
	}
	for _, ch := range m.Choices {
		switch {
		case ch.Text != nil:
			r.content += *ch.Text
		case ch.Message != nil:
			if s, ok := ch.Message.Content.(string); ok {
				r.content += s
			}
			addTools(ch.Message.ToolCalls)
		case ch.Delta != nil:
			if s, ok := ch.Delta.Content.(string); ok {
				r.content += s
			}
			addTools(ch.Delta.ToolCalls)
		}
		if ch.FinishReason != nil {
			r.doneReason = *ch.FinishReason
		}
	}
	if m.Usage != nil && (m.Usage.TotalTokens != 0 || !stream) {
		r.promptEval, r.evalCount, r.haveCounts = m.Usage.PromptTokens, m.Usage.CompletionTokens, true
	}
	if !stream && (r.doneReason != "" || r.noReason && len(m.Choices) > 0) {
		r.finals++ // a non-streamed completion is final when it says why it finished
	}
}

// parseOpenAI reads an SSE stream or a single JSON body of a /v1 endpoint.
func (r *c17Res) parseOpenAI(mw *memWriter, chat bool, stream bool) {
	r.status = mw.code
	body := mw.body.Bytes()
	if !stream || !bytes.HasPrefix(bytes.TrimSpace(body), []byte("data:")) {
		if len(bytes.TrimSpace(body)) > 0 {
			r.addOpenAI(body, false)
			if stream && r.errs == 0 {
				// a 200 JSON body where an event stream was asked for is not a terminated stream
				r.finals = 0
				r.malformed = "stream request answered with a plain JSON body"
			}
		}
	} else {
		for _, ev := range bytes.Split(body, []byte("\n\n")) {
			ev = bytes.TrimSpace(ev)
			if len(ev) == 0 {
				continue
			}
			data, ok := bytes.CutPrefix(ev, []byte("data:"))
			if !ok {
				r.malformed = "SSE event without data: prefix: " + firstN(string(ev), 120)
				continue
			}
			data = bytes.TrimSpace(data)
			if string(data) == "[DONE]" {
				r.term()
				r.finals++
				continue
			}
			r.addOpenAI(data, true)
		}
	}
	if mw.code != 200 && r.errs == 0 {
		r.errs++
		r.errMsg = "status " + strconv.Itoa(mw.code)
	}
}

// ---- the case task ---------------------------------------------------------------------------------

func (cw *c17World) runCase(c *c17Case) {
	for _, way := range c.ways {
		verifsim.Sleep(time.Duration(verifsim.Draw("think", 30)) * time.Millisecond)
		r := cw.issue(c, way)
		c.results = append(c.results, r)
	}
	c.finished = true
}

func (cw *c17World) drawCase(id int) *c17Case {
	d := verifsim.Draw
	c := &c17Case{id: id}
	c.chat = d("chat", 3) != 0
	switch d("fam", 5) {
	case 0:
		c.fam = cw.fams[2] // plain
	case 1:
		c.fam = cw.fams[1]
	case 2:
		c.fam = cw.fams[3] // insert-capable completion template
		c.chat = false
		if d("suffix", 3) != 0 {
			c.suffix = " return result" + []string{"", " // fin", "\n}"}[d("sfx", 3)]
		}
	default:
		c.fam = cw.fams[0]
	}
	c.model = c.fam.names[0]
	if c.chat && c.fam.tmpl != apiTmplPlain {
		c.tools = d("tools", 4) != 0
	}
	if !c.chat && c.suffix == "" {
		c.raw = d("raw", 4) == 0
	}
	if !c.raw && c.suffix == "" && d("system", 3) == 0 {
		c.system = []string{"You are terse.", "Réponds en français."}[d("sys", 2)]
	}
	if d("format", 5) == 0 {
		c.format = `"json"`
	}
	switch d("stop", 4) {
	case 0:
		c.stops = []string{"</s>"}
	case 1:
		c.stops = []string{"\n\n", "END"}
	}
	c.user = "Please answer " + c.marker() + " " + c17Text(d("umb", 3) == 0, 4)
	cw.drawOutput(c)
	c.done = llm.DoneReasonStop
	switch d("length", 8) {
	case 0, 1:
		c.done = llm.DoneReasonLength
	case 2:
		// the runner's third reason ("connection closed"): the native final message then
		// carries no done_reason and the OpenAI one a null finish_reason
		c.done = llm.DoneReasonConnectionClosed
		verifsim.Probe("done_reason_closed")
	}
	c.pe = 1 + d("pe", 40)
	c.ec = len([]rune(c.out))/3 + 1
	c.usage = d("usage", 4) != 0
	switch d("fail", 8) {
	case 0:
		c.fail = failBeforeFirst
	case 1:
		if len(c.out) > 1 {
			c.fail = failBetween
			rs := []rune(c.out)
			c.failPref = len(string(rs[:1+d("failpref", len(rs)-1)]))
		}
	case 2:
		c.fail = failAfterLast
	case 4:
		if d("after-done", 2) == 0 {
			c.fail = failAfterDone
		}
	case 3:
		// llm/server.go: when the model repeats one token more than 30 times the real
		// Completion returns ctx.Err(), i.e. nil, without a done message
		if d("silent", 2) == 0 {
			c.fail = failSilentEnd
		}
	}
	// ways: one of each base kind where the endpoint can express the request, then extras
	pick := func(a, b int) int {
		if d("client", 2) == 0 {
			return a
		}
		return b
	}
	c.ways = []int{pick(wayNN, wayCN), pick(wayNS, wayCS)}
	// /v1/completions has no raw, system or format field: the "same request" only exists without them
	oa := c.chat || (!c.raw && c.system == "" && c.format == "")
	if oa {
		c.ways = append(c.ways, wayON, wayOS)
	}
	for n := d("extra", 3); n > 0; n-- {
		w := d("extraway", numWays)
		if wayOpenAI(w) && !oa {
			w = wayNS
		}
		c.ways = append(c.ways, w)
	}
	// tape-chosen order
	for i := len(c.ways) - 1; i > 0; i-- {
		j := d("order", i+1)
		c.ways[i], c.ways[j] = c.ways[j], c.ways[i]
	}
	return c
}

// ---- oracles -----------------------------------------------------------------------------------------

func (cw *c17World) violate(c *c17Case, class, sig, f string, a ...any) {
	verifsim.Violate("C17", class, sig, fmt.Sprintf(f, a...)+"\n"+c.String())
}

func diffKind(a, b string) string {
	switch {
	case strings.HasPrefix(a, b):
		return "second-shorter"
	case strings.HasPrefix(b, a):
		return "second-longer"
	}
	return "different"
}

func listDiff(a, b []string) string {
	isSub := func(x, y []string) bool { // x is a subsequence of y
		i := 0
		for _, v := range y {
			if i < len(x) && x[i] == v {
				i++
			}
		}
		return i == len(x)
	}
	switch {
	case len(b) < len(a) && isSub(b, a):
		return "second-fewer"
	case len(b) > len(a) && isSub(a, b):
		return "second-more"
	}
	return "different"
}

// mappedReason translates a native done reason to what the OpenAI layer documents for it.
func mappedReason(native string, tools int) string {
	if tools > 0 {
		return "tool_calls"
	}
	return native
}

func (cw *c17World) check(c *c17Case) {
	shape := c.shape()
	// calls the client abandoned take no part in the equalities; what they received
	// before must still be a prefix of the model output (no tools: the text is O)
	all := c.results
	c.results = nil
	for _, r := range all {
		if !r.cancelled {
			c.results = append(c.results, r)
			continue
		}
		verifsim.Probe("c17_client_cancel_midstream")
		if !c.tools && !strings.HasPrefix(c.out, r.content) {
			cw.violate(c, "stream", "cancelled-prefix:"+shape+":"+wayClass(r.way), "%s: the client cancelled mid-answer; what it had received, %q, is not a prefix of the model output %q", wayNames[r.way], r.content, c.out)
		}
	}
	defer func() { c.results = all }()
	// the premise: every way presented the same prompt/format/stop to the runner
	var ref *c17Plan
	for _, r := range c.results {
		if r.plan.called == 0 {
			continue
		}
		if ref == nil {
			ref = r.plan
			continue
		}
		if r.plan.prompt != ref.prompt || r.plan.format != ref.format || strings.Join(r.plan.stops, "\x00") != strings.Join(ref.stops, "\x00") {
			cw.premise++
			cw.note("case %d: %s reached the runner with a different request than the first way (prompt %q vs %q, format %q vs %q, stop %v vs %v): comparison skipped",
				c.id, wayNames[r.way], r.plan.prompt, ref.prompt, r.plan.format, ref.format, r.plan.stops, ref.stops)
			return
		}
	}
	// 1. exactly one final message or one error per stream
	for _, r := range c.results {
		if r.malformed != "" {
			cw.violate(c, "stream", "malformed:"+wayClass(r.way)+":"+shape, "%s (%s): %s", wayNames[r.way], r.plan.fragDsc, r.malformed)
		}
		kind := ""
		switch {
		case r.finals == 0 && r.errs == 0:
			kind = "neither-final-nor-error"
		case r.finals >= 1 && r.errs >= 1:
			kind = "final-and-error"
		case r.finals > 1:
			kind = "several-finals"
		case r.errs > 1:
			kind = "several-errors"
		case r.after > 0:
			kind = "messages-after-terminator"
		}
		if kind != "" {
			where := wayClass(r.way)
			if c.fail == failSilentEnd && kind == "neither-final-nor-error" {
				where = "any" // one root cause (the handlers trust a nil return of Completion), whatever the way
			}
			cw.violate(c, "stream", "terminator:"+where+":"+kind+":"+failClass(c.fail), "%s (fragmentation %s) ended with %d final message(s) and %d error(s), %d message(s) after the first of them; want exactly one final or exactly one error (status %d, error %q)",
				wayNames[r.way], r.plan.fragDsc, r.finals, r.errs, r.after, r.status, r.errMsg)
		}
	}
	// 2. equalities. Within one API every result is compared with that API's reference
	// (its first non-streamed result): another non-streamed result differs from it only by
	// fragmentation (re-chunking relation), a streamed one is the stream-vs-non-stream
	// relation. Across APIs only results obtained with the same fragmentation are compared.
	// The OpenAI layer sits on the native handlers, so its internal relations are checked
	// only when the native ones hold (otherwise they are consequences).
	if c.fail == failSilentEnd {
		return // nothing ended properly: every further difference is a consequence
	}
	before := len(cw.sim.Violations())
	cw.compareWithin(c, false)
	nativeHeld := len(cw.sim.Violations()) == before
	for _, a := range c.results {
		for _, b := range c.results {
			if wayOpenAI(a.way) || !wayOpenAI(b.way) || wayStream(a.way) != wayStream(b.way) || !sameFrags(a.plan, b.plan) {
				continue
			}
			cw.comparePair(c, a, b, "openai-vs-native", "openai-"+map[bool]string{true: "stream", false: "nonstream"}[wayStream(b.way)])
		}
	}
	if nativeHeld {
		cw.compareWithin(c, true)
	}
	// 3. against the model output itself, where the statement fixes the answer: without
	// tools the text of a successful response is O; the token counts are the runner's
	for _, r := range c.results {
		if r.ok && !c.tools && r.content != c.out {
			cw.violate(c, "stream", "content-vs-output:"+shape+":"+wayClass(r.way)+":"+diffKind(c.out, r.content), "%s (fragmentation %s): the response text %q is not the model output %q", wayNames[r.way], r.plan.fragDsc, r.content, c.out)
		}
		if r.ok && (r.haveCounts && (r.promptEval != c.pe || r.evalCount != c.ec)) {
			cw.violate(c, "stream", "counts-vs-output:"+shape+":"+wayClass(r.way), "%s: token counts %d/%d are not the runner's %d/%d", wayNames[r.way], r.promptEval, r.evalCount, c.pe, c.ec)
		}
	}
}

// fragList prints runner chunks for messages, joining runs of one-character chunks.
func fragList(fr []string) string {
	var out []string
	for i := 0; i < len(fr); i++ {
		if len([]rune(fr[i])) == 1 {
			j := i
			var sb strings.Builder
			for j < len(fr) && len([]rune(fr[j])) == 1 {
				sb.WriteString(fr[j])
				j++
			}
			if j-i > 3 {
				out = append(out, fmt.Sprintf("%q(one character per chunk)", sb.String()))
				i = j - 1
				continue
			}
		}
		out = append(out, fmt.Sprintf("%q", fr[i]))
	}
	s := "[" + strings.Join(out, " | ") + "]"
	if len(s) > 700 {
		s = s[:700] + "...]"
	}
	return s
}

func sameFrags(a, b *c17Plan) bool {
	if len(a.frags) != len(b.frags) {
		return false
	}
	for i := range a.frags {
		if a.frags[i] != b.frags[i] {
			return false
		}
	}
	return true
}

// compareWithin compares every result of one API with that API's reference result.
func (cw *c17World) compareWithin(c *c17Case, oa bool) {
	var ref *c17Res
	for _, r := range c.results {
		if wayOpenAI(r.way) == oa && !wayStream(r.way) {
			ref = r
			break
		}
	}
	if ref == nil {
		return
	}
	apiName := map[bool]string{true: "openai", false: "native"}[oa]
	for _, r := range c.results {
		if r == ref || wayOpenAI(r.way) != oa {
			continue
		}
		if wayStream(r.way) {
			cw.comparePair(c, ref, r, "stream-vs-nonstream", apiName)
		} else {
			cw.comparePair(c, ref, r, "rechunk", apiName+"-nonstream")
		}
	}
	// two streams that both agree with the reference agree with each other; when there is
	// no usable reference outcome (all failed) nothing else is stated
}

// comparePair states the equalities of the property between two results of one case.
func (cw *c17World) comparePair(c *c17Case, a, b *c17Res, rel, where string) {
	shape := c.shape()
	sig := func(field string) string { return rel + ":" + field + ":" + shape + ":" + where }
	what := fmt.Sprintf("%s (fragmentation %s) vs %s (fragmentation %s, runner chunks %s)", wayNames[a.way], a.plan.fragDsc, wayNames[b.way], b.plan.fragDsc, fragList(b.plan.frags))
	cw.compared(rel)
	if a.ok != b.ok {
		cw.violate(c, "stream", sig("outcome"), "%s: one ended with a final message, the other with an error (%d finals/%d errors %q vs %d finals/%d errors %q)", what, a.finals, a.errs, a.errMsg, b.finals, b.errs, b.errMsg)
		return
	}
	if !a.ok {
		return
	}
	if a.content != b.content {
		cw.violate(c, "stream", sig("content")+":"+diffKind(a.content, b.content), "%s: content differs: %q vs %q", what, a.content, b.content)
	}
	if strings.Join(a.tools, "\x00") != strings.Join(b.tools, "\x00") {
		cw.violate(c, "stream", sig("tool_calls")+":"+listDiff(a.tools, b.tools), "%s: tool calls differ: %v vs %v", what, a.tools, b.tools)
	}
	ra, rb := a.doneReason, b.doneReason
	if wayOpenAI(a.way) != wayOpenAI(b.way) {
		if wayOpenAI(a.way) {
			rb = mappedReason(rb, len(b.tools))
		} else {
			ra = mappedReason(ra, len(a.tools))
		}
	}
	// The runner's nameless reason (llm.DoneReasonConnectionClosed) is a legal value of the
	// interface, but no real runner ever delivers it to the server (the runner's handler
	// returns without a final message once its client has gone): with it no way of asking
	// states a reason, and how "tool_calls" is substituted for nothing is not compared.
	if ra != rb && c.done != llm.DoneReasonConnectionClosed {
		cw.violate(c, "stream", sig("done_reason"), "%s: done/finish reason differs: %q vs %q", what, a.doneReason, b.doneReason)
	}
	if a.haveCounts && b.haveCounts && (a.promptEval != b.promptEval || a.evalCount != b.evalCount) {
		cw.violate(c, "stream", sig("token_counts"), "%s: token counts differ: prompt %d eval %d vs prompt %d eval %d", what, a.promptEval, a.evalCount, b.promptEval, b.evalCount)
	}
	if !wayOpenAI(a.way) && !wayOpenAI(b.way) && !c.chat && fmt.Sprint(a.context) != fmt.Sprint(b.context) {
		cw.violate(c, "stream", sig("context"), "%s: returned context differs: %v vs %v", what, a.context, b.context)
	}
}

func (cw *c17World) compared(rel string) {
	switch rel {
	case "rechunk":
		verifsim.Probe("c17_metamorphic_compared")
	case "stream-vs-nonstream":
		verifsim.Probe("c17_stream_nonstream_compared")
	default:
		verifsim.Probe("c17_openai_native_compared")
	}
}

// ---- the run ---------------------------------------------------------------------------------------------

func runC17(t *testing.T, tape *verifsim.Tape, prop, tier string, keepLog bool) verifsim.Result {
	return verifsim.Run(t, tape, keepLog, func(sim *verifsim.Sim, res *verifsim.Result) {
		d := verifsim.Draw
		gpu := apiGPU{kind: []int{0, 0, 1, 3}[d("gpukind", 4)], gb: 48}
		w := newAPIWorld(t, sim, prop, gpu, []int{0, 0, 2, 1}[d("maxrunners", 4)], []int{0, 1, 4}[d("parallel", 3)], 512)
		cw := &c17World{apiWorld: w}
		w.script = cw.completion
		w.tokenizeErr = cw.tokenizeErr
		w.addFamily("ta", 1, false, apiTmplToolsA, "toola")
		w.addFamily("tb", 2, false, apiTmplToolsB, "toolb")
		w.addFamily("pl", 1, false, apiTmplPlain, "plain")
		w.addFamily("in", 2, false, apiTmplInsert, "coder")
		maxCases := 2
		if tier == "thorough" {
			maxCases = 4
		}
		n := 1 + d("cases", maxCases)
		for i := 0; i < n; i++ {
			cw.cases = append(cw.cases, cw.drawCase(i))
		}
		for _, c := range cw.cases {
			w.note("%s", c)
		}
		sim.Go("setup", func() {
			cw.setupErr = w.setup(map[string]string{"tb": "Model system prompt."})
			cw.ready = true
			if cw.setupErr != "" {
				return
			}
			for _, c := range cw.cases {
				cc := c
				verifsim.Go("case"+strconv.Itoa(c.id), func() { cw.runCase(cc) })
			}
		})
		alldone := func() bool {
			if !cw.ready {
				return false
			}
			if cw.setupErr != "" {
				return true
			}
			for _, c := range cw.cases {
				if !c.finished {
					return false
				}
			}
			return true
		}
		states := map[uint64]bool{}
		sim.OnStep = func() {
			if len(states) < 2048 {
				var x uint64
				for _, c := range cw.cases {
					x = x*31 + uint64(len(c.results))*2
					if c.cur != nil {
						x++
					}
				}
				states[w.abstractState(x)] = true
			}
		}
		stop := sim.RunUntil(alldone, 30*time.Minute, 400000)
		sim.OnStep = nil
		for h := range states {
			res.States = append(res.States, h)
		}
		res.Info["stop_"+stop.String()]++
		if cw.setupErr != "" {
			res.HarnessErr = "setup failed: " + cw.setupErr
		}
		if stop == verifsim.CondTrue && cw.setupErr == "" {
			for _, c := range cw.cases {
				cw.check(c)
				res.Info["cases"]++
				res.Info["calls"] += len(c.results)
				res.Info["fail_"+failNames[c.fail]]++
				res.Info["out_"+c.outKind]++
				if c.tools {
					res.Info["cases_with_tools"]++
				}
				if c.suffix != "" {
					res.Info["cases_with_suffix"]++
					for _, r := range c.results {
						if r.ok {
							res.Info["results_ok_with_suffix"]++
						}
					}
				}
				full := map[int]bool{}
				for _, r := range c.results {
					full[r.way/2*2] = true
					if r.ok {
						res.Info["results_ok"]++
					} else {
						res.Info["results_error"]++
					}
					if r.ok && c.tools && wayStream(r.way) && len(r.plan.frags) > 1 {
						verifsim.Probe("c17_tools_stream_buffered")
					}
					if len(r.tools) > 0 {
						res.Info["results_with_tool_calls"]++
					}
				}
				if len(full) == 3 {
					verifsim.Probe("c17_quad_compared")
				}
			}
		} else if stop == verifsim.Idle || stop == verifsim.SimBudget {
			// a request that never returns: the handler is stuck
			if len(sim.Violations()) == 0 && cw.setupErr == "" {
				_, detail := sim.BlockedSummary()
				for _, c := range cw.cases {
					if !c.finished {
						cw.violate(c, "stream", "no-response:"+c.shape()+":"+failClass(c.fail), "a request of this case never returned (%s)\n%s", stop, detail)
						break
					}
				}
			}
		}
		if gp := w.ginPanics(); len(gp) > 0 {
			res.Info["recovered_panics"] += len(gp)
		}
		res.Info["premise_mismatch"] += cw.premise
		res.Info["runners_started"] += len(w.srvs)
		res.Sample = w.desc
		w.teardown()
	})
}

func TestVerifAPI(t *testing.T) {
	verifQuietLogs()
	verifsim.WorkerMain(t, verifsim.Harness{
		Name: "api",
		RunOne: func(t *testing.T, tape *verifsim.Tape, prop, tier string, keepLog bool) verifsim.Result {
			if prop == "C01" || prop == "C02" {
				// C01 seen from the HTTP layer: the concurrent request mix of the C15 harness
				// (normal build), with the runner stub watching for Close during a completion
				// of a request that has not ended
				return runC15(t, tape, prop, tier, keepLog)
			}
			return orderKnownLast(runC17(t, tape, prop, tier, keepLog), prop)
		},
		Real: []string{"server/routes.go (GenerateRoutes, GenerateHandler, ChatHandler, streamResponse; instrumented, unmodified logic)", "server/sched.go (real Scheduler)",
			"server/create.go, images.go, layer.go, manifest.go, model.go (parseToolCalls), prompt.go (chatPrompt)", "openai/openai.go (middlewares, ChatWriter/CompleteWriter SSE)",
			"api/client.go (Client.Chat / Client.Generate stream decoding over an in-process RoundTripper)", "template, gin router and middlewares, real model store on tmpfs populated through POST /api/blobs + /api/create"},
		Stub: []string{"llm.LlamaServer (simLlama: scripted Completion delivering the drawn model output in tape-chosen UTF-8-aligned fragments with latency and failure points)",
			"GPU discovery (simInventory)", "TCP/HTTP transport (requests enter at router.ServeHTTP; responses are recorded in memory)", "registry network (unreachable)"},
		Rule: map[string]string{"C02": "HTTP-level stage: the same simulated server lifetimes as the C01 stage (3-10 concurrent clients, tape-drawn request mix through the real router, one request in five is abandoned by its client after 0-3 s, no unlimited keep-alive); a run that ends with clients waiting for requests nobody cancelled while nothing is runnable and no timer is pending has lost a reply; after the last response and fifteen more simulated minutes every started runner must have been closed and GET /api/ps must be empty", "C01": "HTTP-level stage: one evaluation = one simulated server lifetime in which 3-10 concurrent clients issue a tape-drawn mix of generate, chat, embed, ps, tags, show, create, copy, delete, blob upload, pull and unload (keep_alive 0) requests through the real router; the simulated runner reports a violation when Close starts while a Completion of a request whose context is still live is running on it, or when it is closed twice",
			"*": "one evaluation = one simulated server lifetime: models created through the API, then 1-4 cases run concurrently; a case = (request shape, model output, runner failure point) issued 2-7 times over native stream / native non-stream (raw and through api.Client), /v1 stream and /v1 non-stream, each call with its own tape-drawn fragmentation, all results compared pairwise; non-trivial = at least one case completed with >= 2 calls that reached the runner; distinct = different hash of the whole (task, label, simulated time) decision sequence"},
		NonTrivial: func(prop string, r *verifsim.Result) bool { return r.MaxRunnable >= 2 && r.Info["calls"] >= 2 },
		Assumptions: []string{"instrumentation (yields at synchronisation points, mutex type swap, select/map-range determinisation) preserves single-threaded semantics",
			"testing/synctest fake clock and quiescence detection",
			"runner chunks are whole UTF-8 strings (llm/server.go decodes each chunk from JSON; splitting inside a character is C14's concern)",
			"the final runner message carries no content (as produced by both runners)",
			"tool-call index numbers and generated ids are not part of 'the same tool calls'; OpenAI finish_reason 'tool_calls' corresponds to a native response with tool calls"},
	})
}
