//go:build verif

package server

// H-api, shared part: the whole gin router (GenerateRoutes) over the real
// Scheduler (simLlama behind newServerFn, simulated GPUs) and a real model
// store under a per-run scratch OLLAMA_MODELS, driven in-process through
// router.ServeHTTP with in-memory response writers (no sockets). The store is
// populated through the API itself (POST /api/blobs/:digest + POST /api/create).
// Used by C17 (zz_verif_apic17_test.go) and C15 (zz_verif_apirace_test.go).
// DESIGN.md section 5 (C15, C17), 3.8, C.7.

import (
	"bytes"
	"context"
	"crypto/sha256"
	"encoding/json"
	"errors"
	"fmt"
	"io"
	"net/http"
	"net/url"
	"os"
	"path/filepath"
	"strconv"
	"strings"
	"sync"
	"testing"
	"time"

	"github.com/gin-gonic/gin"

	"github.com/ollama/ollama/api"
	"github.com/ollama/ollama/discover"
	"github.com/ollama/ollama/format"
	"github.com/ollama/ollama/fs/ggml"
	"github.com/ollama/ollama/llm"
	"github.com/ollama/ollama/verifsim"
	"github.com/ollama/ollama/verifsim/vfs"
)

// ---- templates ---------------------------------------------------------------------------

// Tool-capable template, tool calls rendered as {"name": ..., "arguments": ...} (mistral style).
const apiTmplToolsA = `{{- range $index, $_ := .Messages }}
{{- if eq .Role "user" }}
{{- if and (eq (len (slice $.Messages $index)) 1) $.Tools }}[AVAILABLE_TOOLS] {{ $.Tools }}[/AVAILABLE_TOOLS]
{{- end }}[INST] {{ if and (eq (len (slice $.Messages $index)) 1) $.System }}{{ $.System }}

{{ end }}{{ .Content }}[/INST]
{{- else if eq .Role "assistant" }}
{{- if .Content }} {{ .Content }}</s>
{{- else if .ToolCalls }}[TOOL_CALLS] [
{{- range .ToolCalls }}{"name": "{{ .Function.Name }}", "arguments": {{ .Function.Arguments }}}
{{- end }}]</s>
{{- end }}
{{- else if eq .Role "tool" }}[TOOL_RESULTS] {"content": {{ .Content }}}[/TOOL_RESULTS]
{{- end }}
{{- end }}`

// Tool-capable template, tool calls rendered as {"tool_name": ..., "parameters": ...} (command-r style).
const apiTmplToolsB = `{{- if or .Tools .System }}<|SYS|>{{ if .System }}{{ .System }}{{ end }}
{{- if .Tools }}
Tools:{{ range .Tools }} {{ .Function.Name }}{{ end }}
{{- end }}<|END|>
{{- end }}
{{- range .Messages }}
{{- if eq .Role "system" }}
{{- continue }}
{{- end }}<|TURN|>
{{- if eq .Role "user" }}<|USER|>{{ .Content }}
{{- else if eq .Role "assistant" }}<|BOT|>
{{- if .Content }}{{ .Content }}
{{- else if .ToolCalls }}
Action: [
{{- range .ToolCalls }}
    {"tool_name": "{{ .Function.Name }}", "parameters": {{ .Function.Arguments }}}
{{- end }}
]
{{- end }}
{{- else if eq .Role "tool" }}<|RESULT|>{{ .Content }}
{{- end }}<|END|>
{{- end }}<|TURN|><|BOT|>`

// Plain chat template without tool support.
const apiTmplPlain = `{{- if .System }}<<SYS>>{{ .System }}<</SYS>>
{{ end }}{{- range .Messages }}{{ .Role }}: {{ .Content }}
{{ end }}assistant:`

// Completion template with fill-in-the-middle support (insert capability).
const apiTmplInsert = `{{- if .Suffix }}<PRE> {{ .Prompt }} <SUF>{{ .Suffix }} <MID>
{{- else }}{{ if .System }}{{ .System }}

{{ end }}{{ .Prompt }}
{{- end }}`

// ---- in-memory HTTP ------------------------------------------------------------------------

// memWriter is the in-memory http.ResponseWriter the router writes to. gin's
// Context.Stream needs http.Flusher and http.CloseNotifier.
type memWriter struct {
	hdr     http.Header
	code    int
	wrote   bool
	body    bytes.Buffer
	writes  int
	flushes int
	cn      chan bool
}

func newMemWriter() *memWriter {
	return &memWriter{hdr: http.Header{}, code: 200, cn: make(chan bool, 1)}
}

func (m *memWriter) Header() http.Header { return m.hdr }
func (m *memWriter) WriteHeader(c int) {
	if !m.wrote {
		m.code, m.wrote = c, true
	}
}

func (m *memWriter) Write(p []byte) (int, error) {
	if !m.wrote {
		m.WriteHeader(200)
	}
	m.writes++
	return m.body.Write(p)
}
func (m *memWriter) Flush() { m.flushes++ }

// gone signals the close notification (the client went away).
func (m *memWriter) gone() {
	select {
	case m.cn <- true:
	default:
	}
}

func (m *memWriter) CloseNotify() <-chan bool { return m.cn }

// apiDo issues one request against the router on the calling task.
func (w *apiWorld) apiDo(ctx context.Context, method, path string, body []byte) *memWriter {
	mw := newMemWriter()
	var rd io.Reader
	if body != nil {
		rd = bytes.NewReader(body)
	}
	// net/http cancels a request's context when its handler returns; the scheduler's
	// "request finished" event hangs off that
	if ctx.Done() != nil {
		// a client that can go away: the connection's close notification follows it
		stop := context.AfterFunc(ctx, mw.gone)
		defer stop()
	}
	ctx, cancel := context.WithCancel(ctx)
	defer cancel()
	req, err := http.NewRequestWithContext(ctx, method, "http://sim.local"+path, rd)
	if err != nil {
		panic(err)
	}
	req.RequestURI = path
	req.RemoteAddr = "127.0.0.1:40000"
	if body != nil {
		req.Header.Set("Content-Type", "application/json")
	}
	verifsim.Yield("client:" + method + " " + pathKind(path))
	w.h.ServeHTTP(mw, req)
	return mw
}

func (w *apiWorld) apiJSON(ctx context.Context, method, path string, v any) *memWriter {
	b, err := json.Marshal(v)
	if err != nil {
		panic(err)
	}
	return w.apiDo(ctx, method, path, b)
}

// pathKind keeps yield labels free of digests.
func pathKind(p string) string {
	if strings.HasPrefix(p, "/api/blobs/") {
		return "/api/blobs/:digest"
	}
	return p
}

// memTransport lets api.Client talk to the router in-process: the handler runs
// on the calling task, the client then decodes the recorded body for real.
type memTransport struct{ w *apiWorld }

func (t memTransport) RoundTrip(req *http.Request) (*http.Response, error) {
	mw := newMemWriter()
	if req.Context().Done() != nil {
		stop := context.AfterFunc(req.Context(), mw.gone)
		defer stop()
	}
	sctx, cancel := context.WithCancel(req.Context())
	defer cancel() // as net/http does when the handler returns
	sreq := req.Clone(sctx)
	sreq.RequestURI = req.URL.RequestURI()
	sreq.RemoteAddr = "127.0.0.1:40001"
	if sreq.Body == nil {
		sreq.Body = http.NoBody
	}
	verifsim.Yield("client:rt " + req.Method + " " + pathKind(req.URL.Path))
	t.w.h.ServeHTTP(mw, sreq)
	return &http.Response{
		StatusCode: mw.code, Status: strconv.Itoa(mw.code) + " " + http.StatusText(mw.code),
		Proto: "HTTP/1.1", ProtoMajor: 1, ProtoMinor: 1,
		Header: mw.hdr, Body: io.NopCloser(bytes.NewReader(mw.body.Bytes())), ContentLength: int64(mw.body.Len()), Request: req,
	}, nil
}

func (w *apiWorld) client() *api.Client {
	u, _ := url.Parse("http://sim.local")
	return api.NewClient(u, &http.Client{Transport: memTransport{w}})
}

// simNet replaces http.DefaultTransport for the run. Every host is unreachable (a
// create FROM a model deleted meanwhile would otherwise try the real registry) except a
// tiny simulated registry "registry.sim" and its CDN "cdn.sim", which publish the run's
// remote models (C15: concurrent pulls share blobDownloadManager entries). The protocol
// is the one server/download.go speaks: manifest GET, blob HEAD for the size, blob GET
// answered 307 to the CDN, ranged GETs there.
type simNet struct {
	manifests map[string][]byte // "library/<name>" -> manifest JSON
	blobs     map[string][]byte // digest -> content
	failRate  int               // 1/n of CDN chunk requests answer 503 (0 = never)
}

func simResp(req *http.Request, code int, hdr map[string]string, body []byte) *http.Response {
	h := http.Header{}
	for k, v := range hdr {
		h.Set(k, v)
	}
	if req.Method == http.MethodHead {
		body = nil
	}
	return &http.Response{StatusCode: code, Status: strconv.Itoa(code) + " " + http.StatusText(code), Proto: "HTTP/1.1", ProtoMajor: 1, ProtoMinor: 1,
		Header: h, Body: io.NopCloser(bytes.NewReader(body)), ContentLength: int64(len(body)), Request: req}
}

func (n *simNet) RoundTrip(req *http.Request) (*http.Response, error) {
	verifsim.Yield("sim:net")
	if err := req.Context().Err(); err != nil {
		return nil, err
	}
	path := req.URL.Path
	switch req.URL.Host {
	case "registry.sim":
		if !strings.HasPrefix(path, "/v2/") {
			break
		}
		rest := strings.TrimPrefix(path, "/v2/")
		if i := strings.Index(rest, "/manifests/"); i > 0 {
			if m, ok := n.manifests[rest[:i]]; ok {
				verifsim.Probe("registry_manifest_served")
				return simResp(req, 200, map[string]string{"Content-Type": "application/vnd.docker.distribution.manifest.v2+json"}, m), nil
			}
			return simResp(req, 404, nil, []byte(`{"errors":[{"code":"MANIFEST_UNKNOWN","message":"manifest unknown"}]}`)), nil
		}
		if i := strings.Index(rest, "/blobs/"); i > 0 {
			d := rest[i+len("/blobs/"):]
			b, ok := n.blobs[d]
			if !ok {
				return simResp(req, 404, nil, []byte(`{"errors":[{"code":"BLOB_UNKNOWN","message":"blob unknown"}]}`)), nil
			}
			if req.Method == http.MethodHead {
				r := simResp(req, 200, map[string]string{"Content-Length": strconv.Itoa(len(b))}, nil)
				r.ContentLength = int64(len(b))
				return r, nil
			}
			return simResp(req, http.StatusTemporaryRedirect, map[string]string{"Location": "http://cdn.sim/blobs/" + d}, nil), nil
		}
	case "cdn.sim":
		d := strings.TrimPrefix(path, "/blobs/")
		b, ok := n.blobs[d]
		if !ok {
			return simResp(req, 404, nil, nil), nil
		}
		if n.failRate > 0 && verifsim.Draw("cdn-fail", n.failRate) == 0 {
			verifsim.Fault("cdn_503")
			return simResp(req, 503, nil, []byte("busy")), nil
		}
		lo, hi := 0, len(b)-1
		if rg := req.Header.Get("Range"); strings.HasPrefix(rg, "bytes=") {
			parts := strings.SplitN(strings.TrimPrefix(rg, "bytes="), "-", 2)
			if v, err := strconv.Atoi(parts[0]); err == nil {
				lo = v
			}
			if len(parts) == 2 && parts[1] != "" {
				if v, err := strconv.Atoi(parts[1]); err == nil && v < hi {
					hi = v
				}
			}
		}
		if lo > hi+1 || lo > len(b) {
			return simResp(req, http.StatusRequestedRangeNotSatisfiable, nil, nil), nil
		}
		verifsim.Probe("cdn_chunk_served")
		return simResp(req, http.StatusPartialContent, map[string]string{"Content-Range": fmt.Sprintf("bytes %d-%d/%d", lo, hi, len(b))}, b[lo:hi+1]), nil
	}
	verifsim.Probe("net_unreachable")
	return nil, errors.New("sim: network is unreachable")
}

// addRemote publishes a model on the simulated registry; it is not in the local store
// until some client pulls it. Controller only, before any task runs.
func (w *apiWorld) addRemote(tag string, blocks int, tmpl string, name string) *apiFamily {
	f := w.addFamily(tag, blocks, false, tmpl, "registry.sim/library/"+name, name+"-copy", name+"2")
	f.remote = true
	cfg := []byte(`{"model_format":"gguf","model_family":"llama","model_families":["llama"],"model_type":"1B","file_type":"F32","architecture":"amd64","os":"linux","rootfs":{"type":"layers","diff_ids":["` + f.digest + `"]}}`)
	tb := []byte(tmpl)
	dg := func(b []byte) string { return fmt.Sprintf("sha256:%x", sha256.Sum256(b)) }
	layer := func(mt string, b []byte) string {
		return fmt.Sprintf(`{"mediaType":%q,"digest":%q,"size":%d}`, mt, dg(b), len(b))
	}
	man := `{"schemaVersion":2,"mediaType":"application/vnd.docker.distribution.manifest.v2+json","config":` + layer("application/vnd.docker.container.image.v1+json", cfg) +
		`,"layers":[` + layer("application/vnd.ollama.image.model", f.gguf) + `,` + layer("application/vnd.ollama.image.template", tb) + `]}`
	w.net.manifests["library/"+name] = []byte(man)
	w.net.blobs[f.digest] = f.gguf
	w.net.blobs[dg(cfg)] = cfg
	w.net.blobs[dg(tb)] = tb
	return f
}

// ---- world ---------------------------------------------------------------------------------

type apiFamily struct {
	tag       string
	embedding bool
	tmpl      string
	gguf      []byte
	digest    string // sha256:<hex>
	blobPath  string
	names     []string // names that may ever refer to this family's model layer
	remote    bool     // published on the simulated registry only; reaches the store by a pull
}

type apiWorld struct {
	simLlamaWorld
	t    *testing.T
	sim  *verifsim.Sim
	prop string
	dir  string

	s      *Scheduler
	srv    *Server
	h      http.Handler
	inv    *simInventory
	net    *simNet
	ginErr bytes.Buffer
	fams   []*apiFamily

	loadFail int // 1/n of loads fail (0 = never)
	script   func(ctx context.Context, req llm.CompletionRequest, fn func(llm.CompletionResponse)) error
	onNew    func(s *simLlama)

	seq       int // logical clock of runner create/close events and ps request boundaries
	createdSq []int
	closedSq  []int

	ctx      context.Context
	cancel   context.CancelFunc
	oldTrans http.RoundTripper
	desc     []string
	quiet    bool
}

// note records a line of the human-readable case description. Under -race it is
// silent unless the run keeps its log (fmt's sync.Pool would add happens-before
// edges between the goroutines of the code under test that call into the stub).
//
//go:norace
func (w *apiWorld) note(f string, a ...any) {
	if w.quiet {
		return
	}
	if len(w.desc) < 120 {
		w.desc = append(w.desc, fmt.Sprintf(f, a...))
	}
}

var apiGGUFCache = map[string][]byte{}

// apiGGUF returns the bytes of a tiny real GGUF, distinct per tag (the
// scheduler keys runners by blob path, i.e. by content digest).
func apiGGUF(tag string, blocks int, embedding bool) []byte {
	key := tag + "/" + strconv.Itoa(blocks) + "/" + strconv.FormatBool(embedding)
	if b, ok := apiGGUFCache[key]; ok {
		return b
	}
	p := filepath.Join(verifScratch(), "api-gguf", key+".gguf")
	if err := verifWriteGGUF(p, tag, blocks, embedding); err != nil {
		panic(err)
	}
	b, err := os.ReadFile(p)
	if err != nil {
		panic(err)
	}
	os.Remove(p)
	apiGGUFCache[key] = b
	return b
}

type apiGPU struct {
	kind int // 0 metal, 1 cuda, 2 cuda x2, 3 cpu
	gb   int
}

// newAPIWorld builds scheduler, router and an empty store. Controller only.
func newAPIWorld(t *testing.T, sim *verifsim.Sim, prop string, gpu apiGPU, maxRunners, numParallel, maxQueue int) *apiWorld {
	w := &apiWorld{t: t, sim: sim, prop: prop}
	w.srvs = make([]*simLlama, 0, 512) // no growth (runtime.growslice is race-instrumented whatever the caller)
	w.createdSq = make([]int, 0, 512)
	w.closedSq = make([]int, 0, 512)
	w.quiet = verifsim.RaceBuild && !sim.KeepLog
	w.now = sim.Now
	w.dir = filepath.Join(verifScratch(), "api-store")
	os.RemoveAll(w.dir)
	if err := os.MkdirAll(w.dir, 0o755); err != nil {
		panic(err)
	}
	os.Setenv("OLLAMA_MODELS", w.dir)
	if verifsim.RaceBuild {
		// H-apirace is built with the vfs seam: file-system calls below the store are pre-emption points
		vfs.Ctl = &vfs.Control{Roots: []string{w.dir}, CrashAt: -1}
	}
	apiSetenvOrUnset("OLLAMA_MAX_LOADED_MODELS", maxRunners)
	apiSetenvOrUnset("OLLAMA_NUM_PARALLEL", numParallel)
	os.Setenv("OLLAMA_MAX_QUEUE", strconv.Itoa(maxQueue))
	os.Unsetenv("OLLAMA_KEEP_ALIVE")
	os.Unsetenv("OLLAMA_SCHED_SPREAD")
	os.Unsetenv("OLLAMA_GPU_OVERHEAD")
	os.Unsetenv("OLLAMA_NOPRUNE")
	os.Unsetenv("OLLAMA_ORIGINS")

	// package-level state a fresh process would start with
	intermediateBlobs = make(map[string]string)
	// transfers that were in flight when an earlier run ended must not be found by this one
	// (their channels belong to another bubble)
	blobDownloadManager = sync.Map{}
	blobUploadManager = sync.Map{}

	gin.SetMode(gin.TestMode)
	gin.DefaultWriter = io.Discard
	gin.DefaultErrorWriter = &w.ginErr

	w.oldTrans = http.DefaultTransport
	w.net = &simNet{manifests: map[string][]byte{}, blobs: map[string][]byte{}}
	http.DefaultTransport = w.net

	inv := &simInventory{w: &w.simLlamaWorld}
	mk := func(lib, id string, gb int) *simGPU {
		g := &simGPU{total: uint64(gb) * format.GigaByte}
		g.info = discover.GpuInfo{Library: lib, ID: id}
		g.info.MinimumMemory = 300 * format.MegaByte
		return g
	}
	switch gpu.kind {
	case 0:
		inv.gpus = []*simGPU{mk("metal", "0", gpu.gb)}
	case 1:
		inv.gpus = []*simGPU{mk("cuda", "GPU-0", gpu.gb)}
	case 2:
		inv.gpus = []*simGPU{mk("cuda", "GPU-0", gpu.gb), mk("cuda", "GPU-1", gpu.gb)}
	}
	inv.cpu = discover.GpuInfo{Library: "cpu", ID: "0"}
	inv.cpu.TotalMemory = uint64(gpu.gb) * 2 * format.GigaByte
	inv.cpu.FreeMemory = inv.cpu.TotalMemory
	w.inv = inv

	w.ctx, w.cancel = context.WithCancel(context.Background())
	s := InitScheduler(w.ctx)
	w.s = s
	s.getGpuFn = w.gpuList
	s.getCpuFn = func() discover.GpuInfoList { return w.inv.cpuList() }
	verifGetGPUInfo = w.gpuList
	s.newServerFn = w.newServer
	w.onClose = w.closed
	w.onClosed = w.closedDone
	s.Run(w.ctx)
	w.srv = &Server{sched: s}
	h, err := w.srv.GenerateRoutes(nil)
	if err != nil {
		panic(err)
	}
	w.h = h
	if verifKeepRouterPool != nil {
		verifKeepRouterPool(h)
	}
	return w
}

// verifKeepRouterPool is set by the race build (zz_verif_racepool_test.go).
var verifKeepRouterPool func(h http.Handler)

//go:norace
func (w *apiWorld) gpuList() discover.GpuInfoList {
	if len(w.inv.gpus) == 0 {
		l := w.inv.cpuList()
		var used uint64
		for _, s := range w.live() {
			used += s.estimate.TotalSize
		}
		if used > l[0].TotalMemory {
			used = l[0].TotalMemory
		}
		l[0].FreeMemory = l[0].TotalMemory - used
		return l
	}
	return w.inv.list()
}

//go:norace
func (w *apiWorld) newServer(gpus discover.GpuInfoList, model string, f *ggml.GGML, adapters []string, projectors []string, opts api.Options, numParallel int) (llm.LlamaServer, error) {
	verifsim.Yield("sim:new-server")
	srv := &simLlama{w: &w.simLlamaWorld, id: len(w.srvs), model: model, opts: opts, numParallel: numParallel, adapters: adapters, projectors: projectors,
		gpus: append(discover.GpuInfoList{}, gpus...), createdAt: w.now()}
	srv.estimate = llm.EstimateGPULayers(gpus, f, projectors, opts, numParallel)
	srv.loadOK = w.fair || w.loadFail == 0 || verifsim.Draw("load-fail", w.loadFail) != 0
	srv.loadDur = time.Duration(1+verifsim.Draw("load-dur", 800)) * time.Millisecond
	srv.script = w.script
	w.seq++
	w.srvs = append(w.srvs, srv)
	w.createdSq = append(w.createdSq, w.seq)
	w.closedSq = append(w.closedSq, 0)
	if w.onNew != nil {
		w.onNew(srv)
	}
	w.note("t=%v newServer #%d %s loadOK=%v dur=%v", w.now(), srv.id, w.famOfPath(model), srv.loadOK, srv.loadDur)
	return srv, nil
}

// closedDone: Close() of an instance is about to return, the runner is torn down.
//
//go:norace
func (w *apiWorld) closedDone(s *simLlama) {
	w.seq++
	if s.id < len(w.closedSq) && w.closedSq[s.id] == 0 {
		w.closedSq[s.id] = w.seq
	}
}

//go:norace
func (w *apiWorld) closed(s *simLlama) {
	w.note("t=%v close #%d %s", w.now(), s.id, w.famOfPath(s.model))
	for _, g := range w.inv.gpus {
		if g.info.Library == "cuda" {
			if m := s.EstimatedVRAMByGPU(g.info.ID); m > 0 && !w.fair {
				g.lagged += m
				lag := time.Duration(50+verifsim.Draw("vram-lag", 3000)) * time.Millisecond
				l := &vramLag{g: g, m: m, d: lag}
				verifsim.Go("vram-lag", l.run)
			}
		}
	}
}

//go:norace
func (w *apiWorld) famOfPath(p string) string {
	for _, f := range w.fams {
		if f.blobPath == p {
			return f.tag
		}
	}
	return filepath.Base(p)
}

//go:norace
func (w *apiWorld) famOfName(name string) *apiFamily {
	for _, f := range w.fams {
		for _, n := range f.names {
			// names are canonicalised case-insensitively against existing ones
			if strings.EqualFold(n, name) || strings.EqualFold(n+":latest", name) {
				return f
			}
		}
	}
	return nil
}

// addFamily registers a model family (one GGUF) of the run. Controller or task.
func (w *apiWorld) addFamily(tag string, blocks int, embedding bool, tmpl string, names ...string) *apiFamily {
	f := &apiFamily{tag: tag, embedding: embedding, tmpl: tmpl, names: names}
	f.gguf = apiGGUF(tag, blocks, embedding)
	f.digest = fmt.Sprintf("sha256:%x", sha256.Sum256(f.gguf))
	f.blobPath = filepath.Join(w.dir, "blobs", strings.Replace(f.digest, ":", "-", 1))
	w.fams = append(w.fams, f)
	return f
}

// uploadBlob and createModel populate the store through the API. Task only.
func (w *apiWorld) uploadBlob(f *apiFamily) int {
	r := w.apiDo(context.Background(), "POST", "/api/blobs/"+f.digest, f.gguf)
	return r.code
}

func (w *apiWorld) createModel(f *apiFamily, name, system string, params map[string]any) (int, string) {
	stream := false
	req := api.CreateRequest{Model: name, Files: map[string]string{"model.gguf": f.digest}, Template: f.tmpl, System: system, Parameters: params, Stream: &stream}
	r := w.apiJSON(context.Background(), "POST", "/api/create", req)
	return r.code, r.body.String()
}

// setup uploads every family's blob and creates its first name; returns an error text or "".
func (w *apiWorld) setup(systems map[string]string) string {
	for _, f := range w.fams {
		if f.remote {
			continue
		}
		if c := w.uploadBlob(f); c != http.StatusCreated && c != http.StatusOK {
			return fmt.Sprintf("blob upload for %s: status %d", f.tag, c)
		}
		if c, body := w.createModel(f, f.names[0], systems[f.tag], nil); c != http.StatusOK {
			return fmt.Sprintf("create %s: status %d %s", f.names[0], c, body)
		}
	}
	return ""
}

// teardown stops the scheduler loops, lets goroutines exit and removes the store. Controller only.
func (w *apiWorld) teardown() {
	w.fair = true
	w.cancel()
	w.sim.OnStep = nil
	w.sim.RunUntil(nil, 2*time.Second, 3000)
	http.DefaultTransport = w.oldTrans
	vfs.Ctl = nil
	gin.DefaultErrorWriter = os.Stderr
	os.RemoveAll(w.dir)
}

// ---- recovered panics (gin.Recovery output) -------------------------------------------------

type ginPanic struct {
	msg  string
	fn   string
	text string
}

// ginPanics parses what gin's Recovery middleware wrote to DefaultErrorWriter.
func (w *apiWorld) ginPanics() []ginPanic {
	out := w.ginErr.String()
	if out == "" {
		return nil
	}
	var res []ginPanic
	for _, blk := range strings.Split(out, "[Recovery]") {
		i := strings.Index(blk, "panic recovered:")
		if i < 0 {
			continue
		}
		rest := blk[i+len("panic recovered:"):]
		lines := strings.Split(rest, "\n")
		gp := ginPanic{text: strings.TrimSpace(firstN(rest, 3000))}
		// the panic value: first non-empty line that is not part of the request dump
		for _, l := range lines {
			l = strings.TrimSpace(l)
			if l == "" || strings.HasPrefix(l, "POST ") || strings.HasPrefix(l, "GET ") || strings.HasPrefix(l, "DELETE ") || strings.HasPrefix(l, "HEAD ") ||
				strings.HasPrefix(l, "Host:") || strings.HasPrefix(l, "Content-Type:") || strings.HasPrefix(l, "User-Agent:") || strings.HasPrefix(l, "Accept") || strings.HasPrefix(l, "\x1b") {
				continue
			}
			if strings.HasPrefix(l, "/") && strings.Contains(l, ".go:") {
				break
			}
			gp.msg = l
			break
		}
		// gin's stack: "<file>:<line> (0x...)\n\t<func>: <source>"
		gp.fn = "?"
		for k := 0; k+1 < len(lines); k++ {
			l := lines[k]
			if !strings.HasPrefix(l, "/") || !strings.Contains(l, ".go:") {
				continue
			}
			file := l[:strings.Index(l, ".go:")+3]
			if strings.Contains(file, "zz_verif") || strings.Contains(file, "/verifsim/") || strings.Contains(file, "/detsim/") || strings.Contains(file, "/pkg/mod/") ||
				strings.Contains(file, "/src/runtime/") || strings.Contains(file, "/src/net/") || strings.Contains(file, "/src/") && !strings.Contains(file, "/server/") {
				continue
			}
			fl := strings.TrimSpace(lines[k+1])
			if j := strings.Index(fl, ":"); j > 0 {
				fl = fl[:j]
			}
			gp.fn = stripClosure(fl)
			break
		}
		res = append(res, gp)
	}
	return res
}

func stripClosure(f string) string {
	for {
		i := strings.LastIndexByte(f, '.')
		if i < 0 {
			return f
		}
		suf := f[i+1:]
		if strings.HasPrefix(suf, "func") || strings.HasPrefix(suf, "gowrap") || isDigitsStr(suf) {
			f = f[:i]
			continue
		}
		return f
	}
}

func isDigitsStr(s string) bool {
	if s == "" {
		return false
	}
	for _, c := range s {
		if c < '0' || c > '9' {
			return false
		}
	}
	return true
}

func firstN(s string, n int) string {
	if len(s) > n {
		return s[:n] + "..."
	}
	return s
}

// ---- known findings first/last ---------------------------------------------------------------

var apiKnown map[string]bool
var apiReplayWant string

// orderKnownLast moves violations whose signature is an open known finding
// behind the others, so that a run that reaches a known finding and something
// new is reported for the new thing (the worker looks at the first relevant
// violation of a run only).
func orderKnownLast(r verifsim.Result, prop string) verifsim.Result {
	if apiKnown == nil {
		apiKnown = map[string]bool{}
		if b, err := os.ReadFile(os.Getenv("VERIF_KNOWN")); err == nil {
			var ks []verifsim.KnownFinding
			if json.Unmarshal(b, &ks) == nil {
				for _, k := range ks {
					if k.Status == "open" {
						apiKnown[k.Property+"\x00"+k.Signature] = true
					}
				}
			}
		}
	}
	if len(r.Violations) < 2 {
		return r
	}
	// bin/check --replay <file>: the question is whether the violation the file expects
	// is still there, whatever else the run shows and whatever is a known finding today
	if rp := os.Getenv("VERIF_REPLAY"); rp != "" {
		if apiReplayWant == "" {
			apiReplayWant = "?"
			if b, err := os.ReadFile(rp); err == nil {
				var rf verifsim.ReplayFile
				if json.Unmarshal(b, &rf) == nil && rf.Expect.Signature != "" {
					apiReplayWant = rf.Expect.Signature
				}
			}
		}
		for i, v := range r.Violations {
			if v.Signature == apiReplayWant {
				vs := append([]verifsim.Violation{v}, r.Violations[:i]...)
				r.Violations = append(vs, r.Violations[i+1:]...)
				return r
			}
		}
	}
	var first, last []verifsim.Violation
	for _, v := range r.Violations {
		if apiKnown[v.Property+"\x00"+v.Signature] || apiKnown[prop+"\x00"+v.Signature] {
			last = append(last, v)
		} else {
			first = append(first, v)
		}
	}
	r.Violations = append(first, last...)
	return r
}

func apiSetenvOrUnset(k string, v int) {
	if v == 0 {
		os.Unsetenv(k)
	} else {
		os.Setenv(k, strconv.Itoa(v))
	}
}

// vramLag gives back, after a delay, the memory of a closed runner on a cuda device.
type vramLag struct {
	g *simGPU
	m uint64
	d time.Duration
}

//go:norace
func (l *vramLag) run() {
	verifsim.Sleep(l.d)
	l.g.lagged -= l.m
}

// abstractState hashes the harness-visible state of the run (which runners exist,
// are loaded or shut down, plus a harness-supplied progress word) for the evidence
// file's distinct_states. Harness state only: under -race the controller must not
// read scheduler state.
//
//go:norace
func (w *apiWorld) abstractState(extra uint64) uint64 {
	h := uint64(14695981039346656037)
	for _, s := range w.srvs {
		v := uint64(1)
		if s.closed > 0 {
			v = 2
		}
		if s.running {
			v |= 4
		}
		for i := 0; i < len(w.fams); i++ {
			if w.fams[i].blobPath == s.model {
				v |= uint64(i+1) << 4
			}
		}
		h = (h ^ v) * 1099511628211
	}
	return (h ^ extra) * 1099511628211
}
