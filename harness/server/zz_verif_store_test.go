//go:build verif

package server

// H-store: shared world of the store harnesses (C03, C04, C12, C10-api): the real
// router and store code of package server on a simulated disk (verifsim/vfs)
// and a simulated network (zz_verif_simnet_test.go). DESIGN.md 3.6, 3.7, 5.

import (
	"bytes"
	"context"
	"crypto/ed25519"
	"crypto/rand"
	"crypto/sha256"
	"encoding/json"
	"encoding/pem"
	"fmt"
	"io"
	"net/http"
	"os"
	"path/filepath"
	"sort"
	"strconv"
	"strings"
	"sync"
	"testing"
	"time"

	"github.com/gin-gonic/gin"
	"golang.org/x/crypto/ssh"

	"github.com/ollama/ollama/verifsim"
	"github.com/ollama/ollama/verifsim/vfs"
)

type storeWorld struct {
	t      *testing.T
	prop   string
	sim    *verifsim.Sim
	dir    string // $OLLAMA_MODELS of this run
	router http.Handler
	reg    *simRegistry
	ctl    *vfs.Control
	desc   []string
	ginErr *bytes.Buffer
	nrun   int

	concurrentPulls bool
	staleDigests    map[string]bool
}

var (
	storeRunSeq  int
	storeKeyOnce sync.Once
	origTransp   = http.DefaultTransport
)

func (w *storeWorld) note(f string, a ...any) {
	if len(w.desc) < 120 {
		w.desc = append(w.desc, fmt.Sprintf("t=%v ", w.sim.Now())+fmt.Sprintf(f, a...))
	}
}

func (w *storeWorld) violate(prop, class, sig, f string, a ...any) {
	verifsim.Violate(prop, class, sig, fmt.Sprintf(f, a...))
}

// storeEnsureKey writes the ed25519 key that auth.Sign needs, once per worker process.
func storeEnsureKey() {
	storeKeyOnce.Do(func() {
		home, err := os.UserHomeDir()
		if err != nil {
			panic(err)
		}
		p := filepath.Join(home, ".ollama", "id_ed25519")
		if _, err := os.Stat(p); err == nil {
			return
		}
		_, priv, err := ed25519.GenerateKey(rand.Reader)
		if err != nil {
			panic(err)
		}
		blk, err := ssh.MarshalPrivateKey(priv, "")
		if err != nil {
			panic(err)
		}
		os.MkdirAll(filepath.Dir(p), 0o755)
		if err := os.WriteFile(p, pem.EncodeToMemory(blk), 0o600); err != nil {
			panic(err)
		}
	})
}

// newStoreWorld sets up one run: fresh models directory, package-level state
// of a fresh process, simulated network and disk installed.
func newStoreWorld(t *testing.T, sim *verifsim.Sim, prop string) *storeWorld {
	storeEnsureKey()
	storeRunSeq++
	w := &storeWorld{t: t, prop: prop, sim: sim, staleDigests: map[string]bool{}}
	w.dir = filepath.Join(verifScratch(), "store", "run"+strconv.Itoa(storeRunSeq), "models")
	os.RemoveAll(filepath.Dir(w.dir))
	if err := os.MkdirAll(w.dir, 0o755); err != nil {
		panic(err)
	}
	os.Setenv("OLLAMA_MODELS", w.dir)
	os.Unsetenv("OLLAMA_NOPRUNE")
	w.reg = newSimRegistry(sim.Now)
	http.DefaultTransport = w.reg
	w.ctl = &vfs.Control{Roots: []string{w.dir}, CrashAt: -1, LogCap: 300}
	vfs.Ctl = w.ctl
	gin.SetMode(gin.TestMode)
	gin.DefaultWriter = io.Discard
	w.freshProcess()
	return w
}

// freshProcess resets what a newly started server process starts with.
func (w *storeWorld) freshProcess() {
	blobDownloadManager = sync.Map{}
	blobUploadManager = sync.Map{}
	intermediateBlobs = make(map[string]string)
	// gin's recovery middleware captures DefaultErrorWriter when the router is
	// built: one buffer per process incarnation, so that goroutines of a dead
	// incarnation unwinding through gin never show up in the live one
	w.ginErr = &bytes.Buffer{}
	gin.DefaultErrorWriter = w.ginErr
	s := &Server{}
	h, err := s.GenerateRoutes(nil)
	if err != nil {
		panic(err)
	}
	w.router = h
}

func (w *storeWorld) close() {
	vfs.Ctl = nil
	http.DefaultTransport = origTransp
	os.RemoveAll(filepath.Dir(w.dir))
}

// ---- in-memory HTTP client side ------------------------------------------------------

type simRecorder struct {
	hdr  http.Header
	code int
	body bytes.Buffer
	gone chan bool
}

func newSimRecorder() *simRecorder {
	return &simRecorder{hdr: http.Header{}, gone: make(chan bool, 1)}
}

func (r *simRecorder) Header() http.Header { return r.hdr }
func (r *simRecorder) WriteHeader(c int) {
	if r.code == 0 {
		r.code = c
	}
}
func (r *simRecorder) Write(p []byte) (int, error) {
	if r.code == 0 {
		r.code = 200
	}
	verifsim.Yield("sim:resp-write")
	return r.body.Write(p)
}
func (r *simRecorder) Flush()                   {}
func (r *simRecorder) CloseNotify() <-chan bool { return r.gone }

type apiResult struct {
	code  int
	lines []map[string]any
	raw   string
}

func (a apiResult) errorMsg() string {
	for _, l := range a.lines {
		if e, ok := l["error"].(string); ok {
			return e
		}
	}
	return ""
}

// ok: the request reported success (2xx and no error object in the stream).
func (a apiResult) ok() bool { return a.code >= 200 && a.code < 300 && a.errorMsg() == "" }

func (a apiResult) lastStatus() string {
	for i := len(a.lines) - 1; i >= 0; i-- {
		if s, ok := a.lines[i]["status"].(string); ok {
			return s
		}
	}
	return ""
}

// call issues one API request through the real router. It must run in a task.
func (w *storeWorld) call(ctx context.Context, method, path string, body any) apiResult {
	var rd io.Reader
	switch b := body.(type) {
	case nil:
	case []byte:
		rd = bytes.NewReader(b)
	default:
		j, err := json.Marshal(b)
		if err != nil {
			panic(err)
		}
		rd = bytes.NewReader(j)
	}
	req, err := http.NewRequestWithContext(ctx, method, "http://127.0.0.1:11434"+path, rd)
	if err != nil {
		panic(err)
	}
	if rd != nil {
		req.Header.Set("Content-Type", "application/json")
	}
	rec := newSimRecorder()
	stop := context.AfterFunc(ctx, func() {
		select {
		case rec.gone <- true:
		default:
		}
	})
	w.router.ServeHTTP(rec, req)
	stop()
	res := apiResult{code: rec.code, raw: rec.body.String()}
	if res.code == 0 {
		res.code = 200
	}
	for _, ln := range strings.Split(res.raw, "\n") {
		ln = strings.TrimSpace(ln)
		if ln == "" {
			continue
		}
		var m map[string]any
		if json.Unmarshal([]byte(ln), &m) == nil {
			res.lines = append(res.lines, m)
		}
	}
	return res
}

// ---- store audit ----------------------------------------------------------------------

type auditedManifest struct {
	name   string // host/ns/model/tag as on disk
	path   string
	raw    []byte
	man    Manifest
	digest string // sha256 of raw
}

type storeSnapshot struct {
	manifests map[string]*auditedManifest // by name
	unread    []string                    // manifest files that do not parse
	blobs     map[string]string           // file name under blobs/ -> sha256 hex of content ("" for debris not hashed)
	sizes     map[string]int64
}

func fileSHA(p string) (string, int64, error) {
	f, err := os.Open(p)
	if err != nil {
		return "", 0, err
	}
	defer f.Close()
	h := sha256.New()
	n, err := io.Copy(h, f)
	if err != nil {
		return "", 0, err
	}
	return fmt.Sprintf("%x", h.Sum(nil)), n, nil
}

// snapshot reads the whole store with plain os calls (no yields, no faults).
func (w *storeWorld) snapshot() *storeSnapshot {
	s := &storeSnapshot{manifests: map[string]*auditedManifest{}, blobs: map[string]string{}, sizes: map[string]int64{}}
	mroot := filepath.Join(w.dir, "manifests")
	filepath.Walk(mroot, func(p string, fi os.FileInfo, err error) error {
		if err != nil || fi.IsDir() {
			return nil
		}
		rel, _ := filepath.Rel(mroot, p)
		raw, err := os.ReadFile(p)
		if err != nil {
			s.unread = append(s.unread, rel)
			return nil
		}
		am := &auditedManifest{name: rel, path: p, raw: raw, digest: fmt.Sprintf("%x", sha256.Sum256(raw))}
		if err := json.Unmarshal(raw, &am.man); err != nil {
			s.unread = append(s.unread, rel)
			return nil
		}
		if strings.Count(rel, string(filepath.Separator)) != 3 {
			// not at the depth at which names resolve
			return nil
		}
		s.manifests[rel] = am
		return nil
	})
	ents, _ := os.ReadDir(filepath.Join(w.dir, "blobs"))
	for _, e := range ents {
		if e.IsDir() {
			continue
		}
		sum, n, err := fileSHA(filepath.Join(w.dir, "blobs", e.Name()))
		if err != nil {
			continue
		}
		s.blobs[e.Name()] = sum
		s.sizes[e.Name()] = n
	}
	return s
}

type auditProblem struct {
	name   string
	kind   string // layer-missing | layer-corrupt | layer-size
	detail string
	digest string
}

// audit: every name that resolves to a readable manifest has all its layers
// and its config present and intact (content matches digest; size matches
// when checkSize).
func (s *storeSnapshot) audit(checkSize bool) []auditProblem {
	var out []auditProblem
	names := make([]string, 0, len(s.manifests))
	for n := range s.manifests {
		names = append(names, n)
	}
	sort.Strings(names)
	for _, n := range names {
		am := s.manifests[n]
		layers := append([]Layer{}, am.man.Layers...)
		if am.man.Config.Digest != "" {
			layers = append(layers, am.man.Config)
		}
		for _, l := range layers {
			// a manifest may spell a digest sha256:<hex> or sha256-<hex> (both are accepted
			// wherever a digest is expected)
			l.Digest = strings.Replace(l.Digest, "sha256-", "sha256:", 1)
			fn := strings.Replace(l.Digest, ":", "-", 1)
			sum, ok := s.blobs[fn]
			switch {
			case !ok:
				out = append(out, auditProblem{n, "layer-missing", fmt.Sprintf("%s names layer %s which is not in the blob store", n, shortDigest(l.Digest)), l.Digest})
			case "sha256:"+sum != l.Digest:
				out = append(out, auditProblem{n, "layer-corrupt", fmt.Sprintf("%s names layer %s but the blob file has content sha256:%s (%d bytes)", n, shortDigest(l.Digest), sum[:12], s.sizes[fn]), l.Digest})
			case checkSize && s.sizes[fn] != l.Size:
				out = append(out, auditProblem{n, "layer-size", fmt.Sprintf("%s names layer %s with size %d but the blob file has %d bytes", n, shortDigest(l.Digest), l.Size, s.sizes[fn]), l.Digest})
			}
		}
	}
	return out
}

func shortDigest(d string) string {
	if len(d) > 19 {
		return d[:19]
	}
	return d
}

// referenced returns the set of blob file names referenced by some readable manifest.
func (s *storeSnapshot) referenced() map[string]bool {
	ref := map[string]bool{}
	for _, am := range s.manifests {
		for _, l := range append(append([]Layer{}, am.man.Layers...), am.man.Config) {
			if l.Digest != "" {
				ref[strings.Replace(l.Digest, ":", "-", 1)] = true
			}
		}
	}
	return ref
}

// onlyReferenced returns the snapshot without blob files that no readable manifest references.
func (s *storeSnapshot) onlyReferenced() *storeSnapshot {
	ref := s.referenced()
	out := &storeSnapshot{manifests: s.manifests, unread: s.unread, blobs: map[string]string{}, sizes: map[string]int64{}}
	for f, sum := range s.blobs {
		if ref[f] {
			out.blobs[f] = sum
			out.sizes[f] = s.sizes[f]
		}
	}
	return out
}

// restart runs the repository's own start-up sequence (sliced out of Serve by
// the instrumenter) in a fresh "process". Must run in a task.
func (w *storeWorld) restart() error {
	w.freshProcess()
	return verifServeStartup()
}

// layerKey is the comparable identity of a manifest's content.
func manifestKey(m *Manifest) string {
	var sb strings.Builder
	fmt.Fprintf(&sb, "v%d|%s|cfg=%s/%s/%d", m.SchemaVersion, m.MediaType, m.Config.MediaType, m.Config.Digest, m.Config.Size)
	for _, l := range m.Layers {
		from := l.From
		if filepath.IsAbs(from) {
			// an absolute path below this run's models directory
			from = "$MODELS/blobs/" + filepath.Base(from)
		}
		fmt.Fprintf(&sb, "|%s/%s/%d/%s", l.MediaType, l.Digest, l.Size, from)
	}
	return sb.String()
}

func simDuration(n, unitMs int) time.Duration { return time.Duration(n*unitMs) * time.Millisecond }
