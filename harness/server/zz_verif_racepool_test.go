//go:build verif && race

package server

// Race build only (C15): the gin router's pool of request contexts is the one
// sync.Pool that keeps objects in this build (cmd/verifctl/racepool.go), so
// that a *gin.Context really is handed from one request to the next and a use
// of it after its handler has returned can be seen by the race detector.

import (
	"net/http"
	"reflect"
	"sync"

	"github.com/gin-gonic/gin"
)

func init() {
	verifKeepRouterPool = func(h http.Handler) {
		e, ok := h.(*gin.Engine)
		if !ok {
			sync.VerifKeepReset(nil)
			return
		}
		f := reflect.ValueOf(e).Elem().FieldByName("pool")
		if !f.IsValid() || f.Type() != reflect.TypeOf(sync.Pool{}) {
			sync.VerifKeepReset(nil)
			return
		}
		sync.VerifKeepReset((*sync.Pool)(f.Addr().UnsafePointer()))
	}
}
