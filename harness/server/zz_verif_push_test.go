//go:build verif

package server

// C09, legacy push implementation (PushModel / uploadBlob / blobUpload): the
// manifest is sent only after every layer has been accepted by the registry;
// a success return implies the manifest was accepted. The simulated registry
// is the monitor. DESIGN.md section 5 (C09), legacy part.

import (
	"context"
	"encoding/json"
	"fmt"
	"strconv"
	"strings"
	"testing"
	"time"

	"github.com/ollama/ollama/verifsim"
)

const (
	fUploadReject  = "net_upload_part_rejected"
	fUploadNoLoc   = "net_upload_location_lost"
	fCommitReject  = "net_upload_commit_rejected"
	fManifestRejct = "net_manifest_put_rejected"
)

var pushFaults = []string{fConnError, f5xx, f429, fUploadReject, fUploadNoLoc, fCommitReject, fManifestRejct, fTokenError, f401Malformed}

func drawPushPlan() *faultPlan {
	p := &faultPlan{enabled: map[string]bool{}}
	if verifsim.Draw("net-faultfree", 4) == 0 {
		return p
	}
	p.rate = []int{2, 3, 5, 8}[verifsim.Draw("net-rate", 4)]
	p.budget = 1 + verifsim.Draw("net-budget", 10)
	n := 0
	for _, k := range pushFaults {
		if verifsim.Draw("net-kind", 3) == 0 {
			p.enabled[k] = true
			n++
		}
	}
	if n == 0 {
		p.enabled[pushFaults[verifsim.Draw("net-kind1", len(pushFaults))]] = true
	}
	return p
}

type pushAttempt struct {
	name string
	done bool
	res  apiResult
}

func runPush(t *testing.T, tape *verifsim.Tape, prop, tier string, keepLog bool) verifsim.Result {
	return verifsim.Run(t, tape, keepLog, func(sim *verifsim.Sim, res *verifsim.Result) {
		d := verifsim.Draw
		w := newStoreWorld(t, sim, prop)
		defer w.close()
		w.reg.plan = &faultPlan{}
		w.reg.needAuth = d("auth", 2) == 0
		minUploadPartSize = []int64{64, 200, 1 << 10, 16 << 10}[d("upload-part", 4)]
		maxUploadPartSize = minUploadPartSize * 4
		nmodels := 1 + d("models", 3)
		ctx := context.Background()
		var names []string

		// A blob is visible in a repository only once it was uploaded or mounted there
		// (two runs in three): pushing a model that shares layers with one pushed earlier
		// then goes through the cross-repository mount.
		w.reg.perRepo = d("per-repo", 3) != 0
		// local models to push (they share the GGUF layer with probability 1/2); later
		// models may be created FROM an earlier one (their layers then name it as origin)
		setup := false
		sim.Go("setup", func() {
			for i := 0; i < nmodels; i++ {
				name := simRegHost + "/lib/p" + strconv.Itoa(i)
				g := 20
				if d("own-gguf", 2) == 0 {
					g = 20 + i
				}
				op := storeOp{kind: "create", name: name, gguf: g, extra: d("variant", 6)}
				if i > 0 && d("from-earlier", 2) == 0 {
					op = storeOp{kind: "create-from", name: name, from: names[d("from-which", len(names))], extra: d("variant", 6)}
				}
				r := w.doOp(ctx, op)
				if !r.ok() {
					res.HarnessErr = "push setup: " + op.String() + " failed: " + r.errorMsg()
				}
				names = append(names, name)
			}
			// some blobs already exist at the registry (HEAD says present / mount succeeds)
			if d("preexisting", 3) == 0 {
				dig := w.reg.addBlob(ggufBytes(20))
				w.reg.grant("lib/other", dig)
				if d("preexisting-everywhere", 2) == 0 {
					for i := 0; i < nmodels; i++ {
						w.reg.grant("lib/p"+strconv.Itoa(i), dig)
					}
				}
			}
			setup = true
		})
		if stop := sim.RunUntil(func() bool { return setup }, time.Hour, 100000); stop != verifsim.CondTrue || res.HarnessErr != "" {
			res.Info["setup_"+stop.String()]++
			return
		}
		w.reg.plan = drawPushPlan()
		w.note("config: models=%d upload part=%dB auth=%v net: %s", nmodels, minUploadPartSize, w.reg.needAuth, w.reg.plan)

		// the monitor: when a manifest PUT arrives every layer it names must have been accepted
		accepted := map[string][]byte{}
		w.reg.onPutMan = func(name string, body []byte) {
			verifsim.Probe("manifest_put")
			var m Manifest
			if err := json.Unmarshal(body, &m); err != nil {
				w.violate("C09", "push-order", "legacy-push:manifest-unparseable", "the manifest sent for %s does not parse: %v", name, err)
				return
			}
			for _, l := range append(append([]Layer{}, m.Layers...), m.Config) {
				if l.Digest == "" {
					continue
				}
				data, ok := w.reg.blobs[l.Digest]
				repo := name[:strings.LastIndex(name, ":")]
				switch {
				case !ok || !w.reg.committed[l.Digest]:
					w.violate("C09", "push-order", "legacy-push:manifest-before-layer-accepted", "PushModel sent the manifest of %s while layer %s had not been accepted by the registry (no committed upload, not present before)", name, shortDigest(l.Digest))
					return
				case !w.reg.has(repo, l.Digest):
					// The layer was accepted by the registry, but into another repository
					// (uploads are de-duplicated by digest across concurrent pushes). The
					// statement says "accepted by the registry": counted, not a violation.
					verifsim.Probe("layer_accepted_only_in_another_repository")
				case sha256Digest(data) != l.Digest:
					w.violate("C09", "push-order", "legacy-push:layer-content", "the registry holds %s with content that does not match", shortDigest(l.Digest))
					return
				}
			}
			accepted[name] = body
		}

		nph := 1 + d("phases", 3)
		for ph := 0; ph < nph && len(sim.Violations()) == 0; ph++ {
			var atts []*pushAttempt
			n := 1 + d("concurrent", 2)
			for k := 0; k < n; k++ {
				a := &pushAttempt{name: names[d("push-which", len(names))]}
				atts = append(atts, a)
				actx, cancel := context.WithCancel(ctx)
				think := time.Duration(d("think", 1500)) * time.Millisecond
				stream := d("stream", 2) == 0
				sim.Go("pusher"+strconv.Itoa(ph)+"."+strconv.Itoa(k), func() {
					verifsim.Sleep(think)
					body := map[string]any{"model": a.name}
					if !stream {
						body["stream"] = false
					}
					a.res = w.call(actx, "POST", "/api/push", body)
					key := "lib/" + a.name[len(simRegHost)+5:] + ":latest"
					ok := a.res.ok() && a.res.lastStatus() == "success"
					w.note("push %s -> %d %s %s", a.name, a.res.code, a.res.lastStatus(), firstN(a.res.errorMsg(), 120))
					if ok {
						verifsim.Probe("push_success")
						if accepted[key] == nil {
							w.violate("C09", "push-order", "legacy-push:success-without-manifest", "pushing %s reported success but the registry never accepted a manifest for it", a.name)
						}
					} else {
						verifsim.Probe("push_failed")
					}
					w.checkGinPanics("C09")
					a.done = true
				})
				if d("cancel?", 5) == 0 {
					after := think + time.Duration(d("cancel-after", 8000))*time.Millisecond
					sim.Go("canceller"+strconv.Itoa(ph)+"."+strconv.Itoa(k), func() {
						verifsim.Sleep(after)
						if !a.done {
							verifsim.Fault("client_interrupt")
						}
						cancel()
					})
				}
			}
			stop := sim.RunUntil(func() bool {
				for _, a := range atts {
					if !a.done {
						return false
					}
				}
				return true
			}, 4*time.Hour, 150000)
			res.Info["phase_stop_"+stop.String()]++
			if stop != verifsim.CondTrue {
				break
			}
			sim.RunUntil(nil, time.Duration(d("gap", 60000))*time.Millisecond, 20000)
		}
		res.Info["net_requests"] += w.reg.nreq
		res.Sample = append(w.desc, w.reg.log...)
		if len(res.Sample) > 120 {
			res.Sample = res.Sample[:120]
		}
		sim.RunUntil(nil, 2*time.Second, 3000)
	})
}

var _ = fmt.Sprintf
