//go:build verif

package server

// C12: if the server process dies at any point during a pull, create, copy or
// delete, then after restart every name that still resolves to a readable
// manifest has all its layers intact, models not involved are unchanged, and
// repeating the operation succeeds (or reports that it already took effect)
// and leaves the store as an uninterrupted run would have.
// Crash points are enumerated per generated case (verifsim.Enumerate): every
// mutating file-system call of the operation (the process dies immediately
// before it takes effect) and, for data writes, a torn variant (a prefix of
// the buffer reaches the file). DESIGN.md section 5 (C12), 3.7.

import (
	"context"
	"fmt"
	"os"
	"sort"
	"strings"
	"testing"
	"time"

	"github.com/ollama/ollama/types/model"
	"github.com/ollama/ollama/verifsim"
)

type crashRef struct {
	points   int
	opOK     bool
	opCode   int
	final    *storeSnapshot
	finalOK  bool
	describe []string
}

func snapshotDiff(a, b *storeSnapshot) (kind, detail string) {
	names := map[string]bool{}
	for n := range a.manifests {
		names[n] = true
	}
	for n := range b.manifests {
		names[n] = true
	}
	var ns []string
	for n := range names {
		ns = append(ns, n)
	}
	sort.Strings(ns)
	for _, n := range ns {
		x, y := a.manifests[n], b.manifests[n]
		switch {
		case x == nil:
			return "extra-model", fmt.Sprintf("model %s exists, but not after the uninterrupted run", n)
		case y == nil:
			return "missing-model", fmt.Sprintf("model %s exists after the uninterrupted run, but not here", n)
		case manifestKey(&x.man) != manifestKey(&y.man):
			return "manifest-differs", fmt.Sprintf("manifest of %s differs from the uninterrupted run\n  here:          %s\n  uninterrupted: %s", n, manifestKey(&y.man), manifestKey(&x.man))
		}
	}
	if len(a.unread) != len(b.unread) {
		return "unreadable-manifest", fmt.Sprintf("unreadable manifest files: %v here, %v after the uninterrupted run", b.unread, a.unread)
	}
	files := map[string]bool{}
	for f := range a.blobs {
		files[f] = true
	}
	for f := range b.blobs {
		files[f] = true
	}
	var fs []string
	for f := range files {
		fs = append(fs, f)
	}
	sort.Strings(fs)
	for _, f := range fs {
		x, okx := a.blobs[f]
		y, oky := b.blobs[f]
		switch {
		case !okx:
			return "extra-blob", fmt.Sprintf("blob store contains %s (%d bytes), which the uninterrupted run does not leave", f, b.sizes[f])
		case !oky:
			return "missing-blob", fmt.Sprintf("blob store lacks %s, which the uninterrupted run leaves", f)
		case x != y:
			return "blob-differs", fmt.Sprintf("blob %s has different content than after the uninterrupted run", f)
		}
	}
	return "", ""
}

// crashExec runs a function in a task and drives the simulation until it is
// done or the process died. It returns whether the process died.
func crashExec(sim *verifsim.Sim, name string, f func()) (stop verifsim.Stop) {
	done := false
	sim.Go(name, func() {
		f()
		done = true
	})
	return sim.RunUntil(func() bool { return done }, 12*time.Hour, 400000)
}

func crashOne(t *testing.T, tape *verifsim.Tape, tier string, keepLog bool, k int, ref *crashRef) verifsim.Result {
	const prop = "C12"
	return verifsim.Run(t, tape, keepLog, func(sim *verifsim.Sim, res *verifsim.Result) {
		d := verifsim.Draw
		w := newStoreWorld(t, sim, prop)
		defer w.close()
		w.reg.plan = &faultPlan{}
		w.publishGGUFModels()
		focusOpNames()
		minDownloadPartSize, maxDownloadPartSize = []int64{256, 1 << 10, 4 << 10}[d("partsize", 3)], 16<<10
		// OLLAMA_NOPRUNE is a supported configuration: start-up then keeps partial
		// downloads and the repeated pull resumes from the part files
		noPrune := d("noprune", 4) == 0
		if noPrune {
			os.Setenv("OLLAMA_NOPRUNE", "1")
			defer os.Unsetenv("OLLAMA_NOPRUNE")
			res.Info["cases_noprune"]++
		}
		ctx := context.Background()
		fail := func(stop verifsim.Stop, what string) {
			res.Info["inconclusive_"+what+"_"+stop.String()]++
		}

		// prior store state: a short fault-free history
		nprior := d("nprior", 6)
		var before *storeSnapshot
		var op storeOp
		stop := crashExec(sim, "prior", func() {
			snap := w.snapshot()
			for i := 0; i < nprior; i++ {
				o := drawStoreOp(existingNames(snap), true)
				r := w.doOp(ctx, o)
				w.note("prior: %s -> %d %s", o, r.code, firstN(r.errorMsg(), 80))
				verifsim.Sleep(time.Duration(1+d("settle", 500)) * time.Millisecond)
				snap = w.snapshot()
			}
			// the target operation
			for try := 0; ; try++ {
				op = drawStoreOp(existingNames(snap), false)
				if op.kind != "blob" && op.kind != "blob-mismatch" {
					break
				}
				if try > 8 { // an exhausted replay tape draws zeros for ever
					op = storeOp{kind: "create", name: "alpha", gguf: 0}
					break
				}
			}
			if op.kind == "pull" && d("tag-updated", 3) == 0 {
				// the tag was updated at the registry since it was pulled (or it is new): the
				// interrupted pull replaces a model. One case in two makes sure the previous
				// version is in the store; the new version replaces every layer, or keeps the weights.
				if d("tag-updated-pulled-before", 2) == 0 {
					r := w.doOp(ctx, op)
					w.note("prior: %s (the version that is about to be replaced) -> %d %s", op, r.code, firstN(r.errorMsg(), 80))
					verifsim.Sleep(time.Duration(1+d("settle", 500)) * time.Millisecond)
				}
				n := model.ParseName(op.name)
				key := strings.ToLower(n.Namespace + "/" + n.Model + ":" + n.Tag)
				oldGGUF := 10
				if strings.HasSuffix(key, ":v1") {
					oldGGUF = 11
				}
				layers := [][]byte{ggufBytes(12), []byte("{{ .Prompt }} new")}
				if d("tag-updated-keeps-weights", 2) == 0 {
					layers[0] = ggufBytes(oldGGUF)
				}
				w.publish(key, layers, []byte(`{"model_format":"gguf","model_family":"llama","n":"updated"}`))
				verifsim.Probe("pull_of_updated_tag")
			}
			verifsim.Sleep(3 * time.Second)
			before = w.snapshot()
		})
		if stop != verifsim.CondTrue {
			fail(stop, "prior")
			return
		}
		w.ctl.TornSel = d("torn", 1<<16)
		w.ctl.Points = 0
		w.ctl.CrashAt = k
		w.ginErr.Reset()
		var opRes apiResult
		stop = crashExec(sim, "target-op", func() {
			opRes = w.doOp(ctx, op)
			// helper goroutines (download workers, pruning) belong to the operation
			verifsim.Sleep(2 * time.Second)
		})
		res.Info["target_"+op.kind]++
		target := strings.ToLower(relOf(op.name))

		if k < 0 {
			// reference: uninterrupted
			if stop != verifsim.CondTrue {
				fail(stop, "reference")
				ref.points = 0
				return
			}
			ref.points = w.ctl.Points
			ref.opOK, ref.opCode = opRes.ok(), opRes.code
			w.ctl.CrashAt = -1
			w.note("target (uninterrupted): %s -> %d %s; %d crash points", op, opRes.code, firstN(opRes.errorMsg(), 100), ref.points)
			var rerr error
			stop = crashExec(sim, "restart", func() { rerr = w.restart() })
			if stop != verifsim.CondTrue || rerr != nil {
				if rerr != nil {
					w.violate(prop, "startup", "startup-failed:no-crash:"+op.kind, "start-up after an uninterrupted %q failed: %v", op, rerr)
				}
				ref.points = 0
				return
			}
			ref.final = w.snapshot()
			if noPrune {
				ref.final = ref.final.onlyReferenced()
			}
			ref.finalOK = true
			ref.describe = append([]string(nil), w.desc...)
			if ref.opOK {
				verifsim.Probe("ref_op_ok_" + op.kind)
			}
			res.Sample = append(w.desc, w.ctl.Log...)
			w.checkGinPanics(prop)
			sim.RunUntil(nil, time.Second, 2000)
			return
		}

		// ---- crash run ----
		if stop != verifsim.Crashed {
			// the crash point was not reached (k beyond this execution's points)
			res.Info["crash_point_not_reached"]++
			return
		}
		where := w.ctl.Crashed
		crashKind := "before-" + strings.SplitN(strings.TrimPrefix(where, "before "), " ", 2)[0]
		if strings.HasPrefix(where, "torn") {
			crashKind = "torn-write"
		}
		sim.Crash()
		sim.ResetCrash()
		w.ctl.CrashAt = -1
		w.ginErr.Reset()
		verifsim.Probe("crashed_in_" + op.kind)
		w.note("target %q: process died at point %d/%d: %s", op, k, ref.points, strings.Replace(where, w.dir, "", 1))
		res.Sample = append(append([]string{}, w.desc...), w.ctl.Log...)
		sig := func(kind string) string { return op.kind + ":" + crashKind + ":" + kind }

		var rerr error
		stop = crashExec(sim, "restart", func() { rerr = w.restart() })
		if stop != verifsim.CondTrue {
			fail(stop, "restart")
			return
		}
		if rerr != nil {
			w.violate(prop, "startup", sig("startup-failed"), "after the process died during %q (%s) the start-up sequence fails: %v", op, where, rerr)
			return
		}
		after := w.snapshot()
		// every name that still resolves to a readable manifest has all its layers present and intact
		for _, p := range after.audit(true) {
			w.violate(prop, "store-audit", sig(p.kind), "after the process died during %q (%s) and restart: %s", op, where, p.detail)
			return
		}
		// models not involved in the interrupted operation are unchanged
		var bn []string
		for n := range before.manifests {
			bn = append(bn, n)
		}
		sort.Strings(bn)
		for _, n := range bn {
			if strings.ToLower(n) == target {
				continue
			}
			a := after.manifests[n]
			switch {
			case a == nil:
				w.violate(prop, "store-audit", sig("other-model-lost"), "after the process died during %q (%s) and restart, model %s, which the operation did not involve, no longer resolves", op, where, n)
				return
			case a.digest != before.manifests[n].digest:
				w.violate(prop, "store-audit", sig("other-model-changed"), "after the process died during %q (%s) and restart, the manifest of %s, which the operation did not involve, has changed", op, where, n)
				return
			}
		}
		// repeating the interrupted operation succeeds (or reports that it already took effect) ...
		if !ref.opOK || !ref.finalOK {
			res.Info["redo_skipped_reference_op_failed"]++
			return
		}
		// "create X FROM X" reads what it writes and is not idempotent (a license given in the
		// request is appended to those of the base): when the process dies after the new
		// manifest is in place, repeating the request legitimately applies it to its own
		// result. The comparison with the uninterrupted run is meaningless there.
		selfFrom := op.kind == "create-from" && strings.EqualFold(relOf(op.from), relOf(op.name))
		var redo apiResult
		stop = crashExec(sim, "redo", func() {
			redo = w.doOp(ctx, op)
			verifsim.Sleep(2 * time.Second)
		})
		if stop != verifsim.CondTrue {
			fail(stop, "redo")
			return
		}
		w.note("redo %q -> %d %s", op, redo.code, firstN(redo.errorMsg(), 100))
		res.Sample = append(append([]string{}, w.desc...), w.ctl.Log...)
		alreadyDone := op.kind == "delete" && redo.code == 404
		if !redo.ok() && !alreadyDone {
			w.violate(prop, "redo", sig("redo-failed:"+errClass(redo.errorMsg())), "after the process died during %q (%s) and restart, repeating the operation fails: %d %s", op, where, redo.code, firstN(redo.errorMsg(), 300))
			return
		}
		verifsim.Probe("redo_ok")
		w.checkGinPanics(prop)
		// ... and leaves the store as an uninterrupted run would have (debris may stay until the next start-up prune)
		stop = crashExec(sim, "restart2", func() { rerr = w.restart() })
		if stop != verifsim.CondTrue {
			fail(stop, "restart2")
			return
		}
		if rerr != nil {
			w.violate(prop, "startup", sig("startup-failed-after-redo"), "start-up after the repeated %q fails: %v", op, rerr)
			return
		}
		final := w.snapshot()
		for _, p := range final.audit(true) {
			w.violate(prop, "store-audit", sig("after-redo-"+p.kind), "after the process died during %q (%s), restart and repeating the operation: %s", op, where, p.detail)
			return
		}
		if noPrune {
			// nothing removes debris or replaced layers in this configuration: only what
			// names resolve to can be compared ...
			full := final
			final = final.onlyReferenced()
			// ... except download bookkeeping: an uninterrupted run that succeeds leaves no
			// -partial data file and no -partial-N record behind, and records that survive a
			// successful repeat are trusted by every later pull of the same blob
			if pulled := op.kind == "pull" || op.kind == "create-from"; pulled && redo.ok() {
				var left []string
				for f := range full.blobs {
					if strings.Contains(f, "-partial") {
						base := f[:strings.Index(f, "-partial")]
						if _, done := full.blobs[base]; done {
							left = append(left, f)
						}
					}
				}
				sort.Strings(left)
				if len(left) > 0 {
					w.violate(prop, "redo", sig("redo-diverges:download-records-left-next-to-complete-blob"), "after the process died during %q (%s), restart (OLLAMA_NOPRUNE) and repeating the operation, the blob store holds download records of blobs that are complete: %v (an uninterrupted run leaves none; a later pull of such a blob resumes from them)", op, where, left)
					return
				}
			}
		}
		if selfFrom {
			res.Info["comparison_skipped_self_from"]++
		} else if kind, detail := snapshotDiff(ref.final, final); kind != "" {
			w.violate(prop, "redo", sig("redo-diverges:"+kind), "after the process died during %q (%s), restart, repeating the operation and another restart, the store is not what the uninterrupted run leaves: %s\nuninterrupted run: %v\nmodels after the uninterrupted run: %v\nmodels here: %v", op, where, detail, ref.describe, existingNames(ref.final), existingNames(final))
			return
		}
		verifsim.Probe("converged")
		sim.RunUntil(nil, time.Second, 2000)
	})
}

func runCrash(t *testing.T, tape *verifsim.Tape, prop, tier string, keepLog bool) verifsim.Result {
	ref := &crashRef{}
	max := 150
	if tier == "thorough" {
		max = 600
	}
	return verifsim.Enumerate(tape, max,
		func(tp *verifsim.Tape) (verifsim.Result, int) {
			r := crashOne(t, tp, tier, keepLog, -1, ref)
			return r, ref.points
		},
		func(tp *verifsim.Tape, k int) verifsim.Result {
			return crashOne(t, tp, tier, keepLog, k, ref)
		})
}
