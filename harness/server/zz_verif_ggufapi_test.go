//go:build verif

package server

// C10, API-level stage: a damaged model file that is uploaded and used to
// create a model, or that sits in the store when a model is shown or listed,
// gets an error response; no goroutine panics; the server keeps serving.
// The decoder itself (every truncation, every structural field) is the
// business of the gguf harness stage. DESIGN.md section 5 (C10).

import (
	"bytes"
	"context"
	"encoding/binary"
	"fmt"
	"os"
	"path/filepath"
	"strings"
	"testing"
	"time"

	"github.com/ollama/ollama/fs/ggml"
	"github.com/ollama/ollama/verifsim"
)

var ggufBoundary = []uint64{0, 1, 2, 1 << 31, 1<<32 - 1, 1 << 32, 1 << 63, 1<<64 - 1, 1<<64 - 2, 1 << 40, 0x7fffffff, 65535}

// damageGGUF returns a fault-derivative of a valid file and a description.
func damageGGUF(orig []byte) ([]byte, string) {
	d := verifsim.Draw
	b := append([]byte(nil), orig...)
	switch d("damage-kind", 10) {
	case 8:
		// a file that holds more than one GGUF (the shape of "model followed by projector"):
		// the valid file followed by itself, whole or cut short, once or twice
		n := 1 + d("concat-copies", 2)
		desc := fmt.Sprintf("the file followed by %d more copies of itself", n)
		for i := 0; i < n; i++ {
			b = append(b, orig...)
		}
		if d("concat-cut", 3) == 0 {
			k := d("concat-cut-at", len(orig))
			b = b[:len(b)-len(orig)+k]
			desc += fmt.Sprintf(", the last one truncated at %d/%d", k, len(orig))
		}
		return b, desc
	case 9:
		// the valid file followed by a few bytes that are not a GGUF
		junk := [][]byte{{0}, []byte("GGUF"), []byte("GGUF\x03\x00\x00\x00"), bytes.Repeat([]byte{0xff}, 40), []byte("\n")}[d("junk", 5)]
		return append(b, junk...), fmt.Sprintf("the file followed by %d stray bytes %q", len(junk), junk)
	case 7:
		// two tensors, each smaller than 2^63 bytes, whose sizes add up - together with
		// the position of the tensor data and the other tensors - to 2^64 plus a small
		// offset: arithmetic over the sum of the sizes wraps around to the start of the file
		f, _, err := ggml.Decode(bytes.NewReader(orig), 0)
		i1, i2 := bytes.Index(b, []byte("blk.0.attn.weight")), bytes.Index(b, []byte("output.weight"))
		if err == nil && i1 >= 0 && i2 >= 0 {
			tOff := f.Tensors().Offset
			others := uint64(32 * (len(f.Tensors().Items()) - 2))
			target := []uint64{0, 0, tOff, 32}[d("sum-target", 4)]
			s1 := uint64(1)<<63 - 32*uint64(1+d("sum-s1", 4))
			s2 := target - tOff - others - s1 // modulo 2^64
			if s2 < 1<<63 && s2%4 == 0 {
				o1, o2 := i1+len("blk.0.attn.weight"), i2+len("output.weight")
				if d("sum-swap", 2) == 0 {
					o1, o2 = o2, o1
				}
				binary.LittleEndian.PutUint64(b[o1+4:], s1/4)
				binary.LittleEndian.PutUint64(b[o2+4:], s2/4)
				return b, fmt.Sprintf("two tensor dimensions := %#x, %#x (sizes add up to 2^64+%d-%d)", s1/4, s2/4, target, tOff+others)
			}
		}
		fallthrough
	case 5, 6:
		// the dimension of a tensor (located through the tensor's name): name, n_dims u32, dim u64
		names := []string{"output.weight", "blk.0.attn.weight"}
		name := names[d("tensor-name", len(names))]
		if i := bytes.Index(b, []byte(name)); i >= 0 && i+len(name)+12 <= len(b) {
			off := i + len(name)
			vals := []uint64{1<<64 - 64, 1<<64 - 32, 1<<64 - 8, 1<<64 - 4, 1<<64 - 1, 1 << 63, 1<<63 - 8, 1 << 62, 1 << 61, 1<<61 - 4, 1 << 40, 0, 1<<32 + 1}
			// a dimension whose byte size (4 bytes per element) wraps around to minus the
			// position of the tensor's data, or to just before / after it
			if pos := uint64(len(b) - 32); name == "output.weight" {
				vals = append(vals, (-pos)/4, (-pos)/4+8, (-pos)/4-8, (-pos+32)/4, (-uint64(len(b)))/4)
			}
			v := vals[d("dim-value", len(vals))]
			if d("dim-or-ndims", 4) == 0 {
				binary.LittleEndian.PutUint32(b[off:], uint32(v))
				return b, fmt.Sprintf("n_dims of %s := %#x", name, uint32(v))
			}
			binary.LittleEndian.PutUint64(b[off+4:], v)
			return b, fmt.Sprintf("dim[0] of %s := %#x", name, v)
		}
		fallthrough
	case 0:
		k := d("truncate-at", len(b))
		if d("truncate-tiny", 4) == 0 {
			// shorter than the magic, the fixed header, or empty
			k = d("truncate-at", 25)
		}
		return b[:k], fmt.Sprintf("truncated at %d/%d", k, len(b))
	case 1:
		k := d("flip-at", len(b))
		b[k] ^= byte(1 + d("flip-bits", 255))
		return b, fmt.Sprintf("byte %d flipped", k)
	case 2:
		// a 32-bit little-endian field somewhere in the header region
		k := d("u32-at", min(len(b)-4, 400))
		v := ggufBoundary[d("boundary", len(ggufBoundary))]
		binary.LittleEndian.PutUint32(b[k:], uint32(v))
		return b, fmt.Sprintf("u32 at %d := %#x", k, uint32(v))
	case 3:
		k := d("u64-at", min(len(b)-8, 400))
		v := ggufBoundary[d("boundary", len(ggufBoundary))]
		binary.LittleEndian.PutUint64(b[k:], v)
		return b, fmt.Sprintf("u64 at %d := %#x", k, v)
	default:
		// structural fields of the fixed header: version, tensor count, kv count
		off := []int{4, 8, 16}[d("hdr-field", 3)]
		v := ggufBoundary[d("boundary", len(ggufBoundary))]
		if off == 4 {
			binary.LittleEndian.PutUint32(b[off:], uint32(v))
		} else {
			binary.LittleEndian.PutUint64(b[off:], v)
		}
		return b, fmt.Sprintf("header field at %d := %#x", off, v)
	}
}

func runGGUFAPI(t *testing.T, tape *verifsim.Tape, prop, tier string, keepLog bool) verifsim.Result {
	return verifsim.Run(t, tape, keepLog, func(sim *verifsim.Sim, res *verifsim.Result) {
		d := verifsim.Draw
		w := newStoreWorld(t, sim, prop)
		defer w.close()
		w.reg.plan = &faultPlan{}
		ctx := context.Background()
		done := false
		answered := func(what string, r apiResult) bool {
			if r.code < 200 || r.code > 599 {
				w.violate(prop, "api", "api-no-response:"+what, "%s got no HTTP response (status %d)", what, r.code)
				return false
			}
			return true
		}
		sim.Go("client", func() {
			defer func() { done = true }()
			// a healthy model first
			good := storeOp{kind: "create", name: "alpha", gguf: d("gguf", 4), extra: d("variant", 6)}
			if r := w.doOp(ctx, good); !r.ok() {
				res.HarnessErr = "setup create failed: " + r.errorMsg()
				return
			}
			rounds := 1 + d("rounds", 4)
			for i := 0; i < rounds && len(sim.Violations()) == 0; i++ {
				bad, how := damageGGUF(ggufBytes(d("gguf-bad", 4)))
				w.note("damaged file: %s", how)
				switch d("path", 3) {
				case 0, 1:
					// upload the damaged file and create a model from it
					dig := sha256Digest(bad)
					r := w.call(ctx, "POST", "/api/blobs/"+dig, bad)
					if !answered("POST /api/blobs", r) {
						return
					}
					req := map[string]any{"model": "damaged" + fmt.Sprint(i), "files": map[string]string{[]string{"model.gguf", "model.gguf", "model", "weights.bin"}[d("file-name", 4)]: dig}}
					if d("stream", 2) == 0 {
						req["stream"] = false
					}
					r = w.call(ctx, "POST", "/api/create", req)
					if !answered("POST /api/create", r) {
						return
					}
					w.note("create from damaged file -> %d %s", r.code, firstN(r.errorMsg(), 100))
					if r.ok() && r.lastStatus() == "success" {
						verifsim.Probe("create_accepted_damaged_file")
						// the file still decoded: the model must be usable by show
						sr := w.call(ctx, "POST", "/api/show", map[string]any{"model": "damaged" + fmt.Sprint(i), "verbose": true})
						if !answered("POST /api/show", sr) {
							return
						}
					} else {
						verifsim.Probe("create_rejected_damaged_file")
					}
				default:
					// damage the stored model file of the healthy model, then show and list it
					snap := w.snapshot()
					am := snap.manifests[relOf("alpha")]
					if am == nil {
						continue
					}
					for _, l := range am.man.Layers {
						if l.MediaType == "application/vnd.ollama.image.model" {
							p := filepath.Join(w.dir, "blobs", strings.Replace(l.Digest, ":", "-", 1))
							if err := os.WriteFile(p, bad, 0o644); err != nil {
								res.HarnessErr = err.Error()
								return
							}
							verifsim.Fault("stored_model_file_damaged")
						}
					}
					sr := w.call(ctx, "POST", "/api/show", map[string]any{"model": "alpha", "verbose": d("verbose", 2) == 0})
					if !answered("POST /api/show", sr) {
						return
					}
					w.note("show of damaged stored model -> %d %s", sr.code, firstN(sr.errorMsg(), 100))
					if sr.code == 200 {
						verifsim.Probe("show_ok_on_damaged")
					} else {
						verifsim.Probe("show_error_on_damaged")
					}
					// create FROM the damaged model decodes it in a goroutine outside gin's recovery
					cr := w.call(ctx, "POST", "/api/create", map[string]any{"model": "child" + fmt.Sprint(i), "from": "alpha", "system": "x"})
					if !answered("POST /api/create FROM", cr) {
						return
					}
					// restore the healthy file
					for _, l := range am.man.Layers {
						if l.MediaType == "application/vnd.ollama.image.model" {
							p := filepath.Join(w.dir, "blobs", strings.Replace(l.Digest, ":", "-", 1))
							os.WriteFile(p, ggufBytes(good.gguf), 0o644)
						}
					}
				}
				w.checkGinPanics(prop)
				verifsim.Sleep(time.Duration(1+d("settle", 300)) * time.Millisecond)
				// the server keeps serving
				if _, lr := w.listed(ctx); lr.code != 200 {
					w.violate(prop, "api", "api-stops-serving:tags", "after a damaged model file GET /api/tags answers %d %s", lr.code, firstN(lr.raw, 200))
					return
				}
				if r := w.doOp(ctx, storeOp{kind: "create", name: "beta", gguf: good.gguf}); !r.ok() {
					w.violate(prop, "api", "api-stops-serving:create", "after a damaged model file, creating a healthy model fails: %d %s", r.code, firstN(r.errorMsg(), 200))
					return
				}
				verifsim.Probe("keeps_serving")
			}
		})
		stop := sim.RunUntil(func() bool { return done }, time.Hour, 300000)
		res.Info["stop_"+stop.String()]++
		if stop == verifsim.StepBudget && len(sim.Violations()) == 0 && res.HarnessErr == "" {
			// bounded work: everything this run does with its few-hundred-byte files takes a few
			// thousand scheduling steps; 300 000 steps (and still going) is non-termination
			funcs, detail := sim.BlockedSummary()
			_ = funcs
			last := ""
			if n := len(w.desc); n > 0 {
				last = w.desc[n-1]
			}
			tail := sim.TraceTail(12)
			w.violate(prop, "api", "api-request-does-not-terminate", "a request that involves a damaged model file is still running after 300000 scheduling steps and %d file-system mutations (a healthy run of this workload takes a few thousand steps); last note: %s\nlast scheduling decisions: %v\n%s", w.ctl.Ops, last, tail, detail)
		}
		if stop == verifsim.Idle && len(sim.Violations()) == 0 && res.HarnessErr == "" {
			_, detail := sim.BlockedSummary()
			w.violate(prop, "api", "api-request-never-returns", "a request that involves a damaged model file never returned\n%s", detail)
		}
		res.Info["fs_mutations"] += w.ctl.Ops
		res.Sample = w.desc
		sim.RunUntil(nil, time.Second, 2000)
	})
}
