//go:build verif

package server

// C04: after any sequence of create, copy, pull, delete and prune operations
// every listed model is complete, operations on one model never damage
// another, start-up pruning leaves exactly the referenced blobs, and no two
// listed models differ only by letter case. DESIGN.md section 5 (C04).
// The operation generator is shared with the crash harness (C12).

import (
	"bytes"
	"context"
	"encoding/json"
	"fmt"
	"os"
	"path/filepath"
	"sort"
	"strconv"
	"strings"
	"testing"
	"time"

	"github.com/ollama/ollama/types/model"
	"github.com/ollama/ollama/verifsim"
)

var ggufCache = map[int][]byte{}

// ggufBytes returns a tiny but real GGUF whose bytes are unique per id.
func ggufBytes(id int) []byte {
	if b, ok := ggufCache[id]; ok {
		return b
	}
	p := filepath.Join(verifScratch(), "gguf-cache", "g"+strconv.Itoa(id))
	tag := "g" + strconv.Itoa(id)
	if id%4 == 3 {
		tag += "+chatml" // every fourth file carries a chat template the server recognises
	}
	if err := verifWriteGGUF(p, tag, 1+id%2, false); err != nil {
		panic(err)
	}
	b, err := os.ReadFile(p)
	if err != nil {
		panic(err)
	}
	ggufCache[id] = b
	return b
}

type storeOp struct {
	kind   string // blob create create-from copy delete pull restart
	name   string // destination / target
	from   string // source (create-from, copy)
	gguf   int    // content id (blob, create)
	extra  int    // variant selector (system/template/params overrides)
	stream bool

	dashDigest bool // create: name the uploaded file as sha256-<hex> instead of sha256:<hex>
}

func (o storeOp) String() string {
	switch o.kind {
	case "blob":
		return fmt.Sprintf("upload blob g%d", o.gguf)
	case "blob-mismatch":
		return fmt.Sprintf("upload the content of an existing blob (#%d) under another digest", o.extra)
	case "create":
		return fmt.Sprintf("create %s from file g%d (variant %d)", o.name, o.gguf, o.extra)
	case "create-from":
		return fmt.Sprintf("create %s FROM %s (variant %d)", o.name, o.from, o.extra)
	case "copy":
		return fmt.Sprintf("copy %s -> %s", o.from, o.name)
	case "delete":
		return "delete " + o.name
	case "pull":
		return "pull " + o.name
	case "restart":
		return "restart (start-up prune)"
	}
	return o.kind
}

var (
	opModels = []string{"alpha", "Alpha", "beta", "team/alpha", "Team/alpha", "TEAM/Beta", simRegHost + "/lib/m0", simRegHost + "/LIB/m0", simRegHost + "/lib/M0", simRegHost + "/lib/m1", "example.com/team/alpha", "EXAMPLE.com/team/Alpha"}
	opTags   = []string{"", ":latest", ":v1", ":V1", ":Latest"}
	opPulls  = []string{simRegHost + "/lib/m0", simRegHost + "/lib/m1", simRegHost + "/LIB/m0", simRegHost + "/lib/M0", simRegHost + "/lib/m0:v1", simRegHost + "/lib/m0:V1", simRegHost + "/Lib/M1:latest", simRegHost + "/lib/m2"}
)

// Every run concentrates on a few models and tags (drawn by focusOpNames), so that histories
// in which several tags of one model, case variants of one tag, etc. coexist are frequent.
var opFocusModels, opFocusTags []string

func focusOpNames() {
	opFocusModels, opFocusTags = nil, nil
	for i := 0; i < 3; i++ {
		opFocusModels = append(opFocusModels, opModels[verifsim.Draw("focus-model", len(opModels))])
		opFocusTags = append(opFocusTags, opTags[verifsim.Draw("focus-tag", len(opTags))])
	}
}

func drawOpName() string {
	if len(opFocusModels) > 0 && verifsim.Draw("op-focus", 4) != 0 {
		return opFocusModels[verifsim.Draw("op-model", len(opFocusModels))] + opFocusTags[verifsim.Draw("op-tag", len(opFocusTags))]
	}
	return opModels[verifsim.Draw("op-model", len(opModels))] + opTags[verifsim.Draw("op-tag", len(opTags))]
}

// flipTagCase changes the letter case of the tag of a name only.
func flipTagCase(n string) string {
	i := strings.LastIndex(n, ":")
	if i < 0 || i < strings.LastIndex(n, "/") {
		return n + ":LATEST"
	}
	tag := n[i+1:]
	if up := strings.ToUpper(tag); up != tag {
		return n[:i+1] + up
	}
	return n[:i+1] + strings.ToLower(tag)
}

// drawStoreOp draws one operation; existing = names currently known to exist (for sources / deletes).
func drawStoreOp(existing []string, allowRestart bool) storeOp {
	d := verifsim.Draw
	pickExisting := func() string {
		if len(existing) > 0 && d("op-existing", 5) != 0 {
			n := existing[d("op-existing-which", len(existing))]
			// sometimes address it in another letter case
			switch d("op-case", 6) {
			case 0:
				return strings.ToUpper(n[:1]) + n[1:]
			case 1:
				return strings.ToLower(n)
			case 2, 3:
				return flipTagCase(n)
			}
			return n
		}
		return drawOpName()
	}
	op := storeOp{stream: d("op-stream", 2) == 0}
	k := d("op-kind", 20)
	switch {
	case k < 2:
		op.kind, op.gguf = "blob", d("op-gguf", 4)
		if d("op-blob-mismatch", 3) == 0 {
			// a client that announces the wrong digest for content the store already has
			op.kind, op.extra = "blob-mismatch", d("op-blob-which", 64)
		}
	case k < 6:
		op.kind, op.name, op.gguf, op.extra = "create", drawOpName(), d("op-gguf", 4), d("op-variant", 10)
		op.dashDigest = d("op-dash-digest", 4) == 0
		if d("op-dst-existing", 4) == 0 {
			op.name = pickExisting()
		}
	case k < 9:
		op.kind, op.name, op.from, op.extra = "create-from", drawOpName(), pickExisting(), d("op-variant", 10)
	case k < 12:
		op.kind, op.name, op.from = "copy", drawOpName(), pickExisting()
		if d("op-dst-existing", 4) == 0 {
			op.name = pickExisting()
		}
	case k < 15:
		op.kind, op.name = "delete", pickExisting()
	case k < 18:
		op.kind, op.name = "pull", opPulls[d("op-pull", len(opPulls))]
	default:
		if allowRestart {
			op.kind = "restart"
		} else {
			op.kind, op.name = "delete", pickExisting()
		}
	}
	return op
}

// lastShownTemplate is the template text of the model shown last (a user copies it into a new create).
var lastShownTemplate string

func createVariant(req map[string]any, v int) {
	switch v {
	case 6, 7:
		if lastShownTemplate != "" {
			req["template"] = lastShownTemplate
			verifsim.Probe("create_with_shown_template")
		}
	case 8:
		// the same bytes as variant one's system prompt, under another media type
		req["license"] = "You are variant one."
	case 9:
		// the same bytes as variant four's license, as a system prompt
		req["system"] = "MIT-ish license text"
	case 1:
		req["system"] = "You are variant one."
	case 2:
		req["template"] = "{{ .System }} USER: {{ .Prompt }} ASSISTANT:"
	case 3:
		req["parameters"] = map[string]any{"temperature": 0.5, "stop": []string{"</s>"}}
	case 4:
		req["license"] = "MIT-ish license text"
		req["system"] = "sys4"
	case 5:
		req["messages"] = []map[string]string{{"role": "user", "content": "hi"}, {"role": "assistant", "content": "hello"}}
	}
}

// doOp executes one operation through the API. Must run in a task.
func (w *storeWorld) doOp(ctx context.Context, op storeOp) apiResult {
	switch op.kind {
	case "blob":
		b := ggufBytes(op.gguf)
		return w.call(ctx, "POST", "/api/blobs/"+sha256Digest(b), b)
	case "blob-mismatch":
		ents, _ := os.ReadDir(filepath.Join(w.dir, "blobs"))
		var files []string
		for _, e := range ents {
			if strings.HasPrefix(e.Name(), "sha256-") && len(e.Name()) == 71 {
				files = append(files, e.Name())
			}
		}
		if len(files) == 0 {
			return apiResult{code: 204}
		}
		sort.Strings(files)
		b, err := os.ReadFile(filepath.Join(w.dir, "blobs", files[op.extra%len(files)]))
		if err != nil {
			return apiResult{code: 204}
		}
		verifsim.Probe("blob_upload_wrong_digest")
		return w.call(ctx, "POST", "/api/blobs/"+sha256Digest(append([]byte("not this: "), b...)), b)
	case "create":
		b := ggufBytes(op.gguf)
		if r := w.call(ctx, "POST", "/api/blobs/"+sha256Digest(b), b); !r.ok() {
			return r
		}
		dig := sha256Digest(b)
		if op.dashDigest {
			// both spellings of a digest are accepted wherever one is expected
			dig = strings.Replace(dig, ":", "-", 1)
			verifsim.Probe("create_with_dash_digest")
		}
		req := map[string]any{"model": op.name, "files": map[string]string{"model.gguf": dig}}
		if !op.stream {
			req["stream"] = false
		}
		createVariant(req, op.extra)
		return w.call(ctx, "POST", "/api/create", req)
	case "create-from":
		req := map[string]any{"model": op.name, "from": op.from}
		if !op.stream {
			req["stream"] = false
		}
		createVariant(req, op.extra)
		return w.call(ctx, "POST", "/api/create", req)
	case "copy":
		return w.call(ctx, "POST", "/api/copy", map[string]any{"source": op.from, "destination": op.name})
	case "delete":
		return w.call(ctx, "DELETE", "/api/delete", map[string]any{"model": op.name})
	case "pull":
		req := map[string]any{"model": op.name}
		if !op.stream {
			req["stream"] = false
		}
		return w.call(ctx, "POST", "/api/pull", req)
	case "restart":
		if err := w.restart(); err != nil {
			return apiResult{code: 500, lines: []map[string]any{{"error": "start-up failed: " + err.Error()}}}
		}
		return apiResult{code: 200}
	}
	panic("unknown op " + op.kind)
}

// relOf maps a model name as a user writes it to the manifest path relative to manifests/.
func relOf(name string) string {
	n := model.ParseName(name)
	if !n.IsFullyQualified() {
		return ""
	}
	return n.Filepath()
}

// publishGGUFModels puts real, showable models on the simulated registry
// (which treats repository names and tags case-insensitively).
func (w *storeWorld) publishGGUFModels() {
	mk := func(key string, id int, extra string) {
		layers := [][]byte{ggufBytes(id), []byte("{{ .Prompt }}" + extra), []byte(`{"stop":["<end>"]}`), []byte("license " + key)}
		cfg := fmt.Sprintf(`{"model_format":"gguf","model_family":"llama","model_families":["llama"],"model_type":"1","file_type":"F32","architecture":"amd64","os":"linux","rootfs":{"type":"layers"},"n":"%s"}`, key)
		w.publish(key, layers[:2+id%3], []byte(cfg))
	}
	mk("lib/m0:latest", 10, "")
	mk("lib/m0:v1", 11, " v1")
	mk("lib/m1:latest", 10, "") // shares every layer but the license/config with m0
	// m2 shares its GGUF layer with m0 and m1, and its manifest spells that layer's
	// digest sha256-<hex> (GetBlobsPath takes both spellings: same blob file)
	mk("lib/m2:latest", 10, " m2")
	gd := sha256Digest(ggufBytes(10))
	w.reg.manifests["lib/m2:latest"] = bytes.Replace(w.reg.manifests["lib/m2:latest"], []byte(gd), []byte(strings.Replace(gd, ":", "-", 1)), 1)
	w.reg.foldCase = true
}

type c04World struct {
	*storeWorld
	nops int
}

// listed returns the names GET /api/tags reports.
func (w *storeWorld) listed(ctx context.Context) ([]string, apiResult) {
	r := w.call(ctx, "GET", "/api/tags", nil)
	var names []string
	if len(r.lines) > 0 {
		if ms, ok := r.lines[0]["models"].([]any); ok {
			for _, m := range ms {
				if mm, ok := m.(map[string]any); ok {
					if n, ok := mm["name"].(string); ok {
						names = append(names, n)
					}
				}
			}
		}
	}
	sort.Strings(names)
	return names, r
}

// checkStore evaluates the C04 statement after operation op.
func (w *storeWorld) checkStore(ctx context.Context, prop string, op storeOp, before *storeSnapshot) *storeSnapshot {
	after := w.snapshot()
	sig := func(kind string) string { return op.kind + ":" + kind }
	names, lr := w.listed(ctx)
	if lr.code != 200 {
		w.violate(prop, "store-audit", sig("list-failed"), "after %q: GET /api/tags answered %d %s", op, lr.code, firstN(lr.raw, 300))
		return after
	}
	// no two listed models differ only by letter case
	seen := map[string]string{}
	for _, n := range names {
		k := strings.ToLower(relOf(n))
		if prev, ok := seen[k]; ok {
			w.violate(prop, "store-audit", sig("case-duplicate"), "after %q: the list of models contains %q and %q, which differ only by letter case", op, prev, n)
			return after
		}
		seen[k] = n
	}
	// every listed model can be shown and is complete
	for _, n := range names {
		sr := w.call(ctx, "POST", "/api/show", map[string]any{"model": n})
		if len(sr.lines) > 0 {
			if tpl, ok := sr.lines[0]["template"].(string); ok && tpl != "" {
				lastShownTemplate = tpl
			}
		}
		if sr.code != 200 {
			w.violate(prop, "store-audit", sig("listed-not-showable"), "after %q: model %q is listed but POST /api/show answers %d %s", op, n, sr.code, firstN(sr.raw, 300))
			return after
		}
		am := after.manifests[relOf(n)]
		if am == nil {
			w.violate(prop, "store-audit", sig("listed-no-manifest"), "after %q: model %q is listed but has no readable manifest file", op, n)
			return after
		}
		one := &storeSnapshot{manifests: map[string]*auditedManifest{am.name: am}, blobs: after.blobs, sizes: after.sizes}
		for _, p := range one.audit(true) {
			w.violate(prop, "store-audit", sig(p.kind), "after %q: %s", op, p.detail)
			return after
		}
	}
	// operations on one model never damage another
	if before != nil {
		target := strings.ToLower(relOf(op.name))
		bn := make([]string, 0, len(before.manifests))
		for n := range before.manifests {
			bn = append(bn, n)
		}
		sort.Strings(bn)
		for _, n := range bn {
			if op.name != "" && strings.ToLower(n) == target {
				continue
			}
			b := before.manifests[n]
			a := after.manifests[n]
			switch {
			case a == nil:
				w.violate(prop, "store-audit", sig("other-model-removed"), "%q removed the manifest of %s, which the operation did not target", op, n)
				return after
			case a.digest != b.digest:
				w.violate(prop, "store-audit", sig("other-model-changed"), "%q changed the manifest of %s, which the operation did not target", op, n)
				return after
			}
			one := &storeSnapshot{manifests: map[string]*auditedManifest{a.name: a}, blobs: after.blobs, sizes: after.sizes}
			wasOK := len((&storeSnapshot{manifests: map[string]*auditedManifest{b.name: b}, blobs: before.blobs, sizes: before.sizes}).audit(true)) == 0
			if ps := one.audit(true); len(ps) > 0 && wasOK {
				w.violate(prop, "store-audit", sig("other-model-"+ps[0].kind), "%q damaged %s, which the operation did not target: %s", op, n, ps[0].detail)
				return after
			}
		}
	}
	// start-up pruning leaves exactly the blobs that some manifest references. (No operation of
	// this world is interrupted: a manifest file that cannot be read - which makes the server skip
	// pruning altogether - is itself the work of an operation, and what it leaves behind counts.)
	if op.kind == "restart" {
		if len(after.unread) > 0 {
			verifsim.Probe("restart_with_unreadable_manifest")
		}
		ref := after.referenced()
		var orphan []string
		for f := range after.blobs {
			if !ref[f] {
				orphan = append(orphan, f)
			}
		}
		sort.Strings(orphan)
		if len(orphan) > 0 {
			w.violate(prop, "store-audit", sig("orphan-blob"), "after start-up pruning %d file(s) remain in the blob store that no manifest references: %v", len(orphan), orphan)
			return after
		}
		verifsim.Probe("prune_exact")
	}
	return after
}

func existingNames(s *storeSnapshot) []string {
	var out []string
	for rel := range s.manifests {
		n := model.ParseNameFromFilepath(rel)
		if n.IsValid() {
			out = append(out, n.DisplayShortest())
		}
	}
	sort.Strings(out)
	return out
}

func runOps(t *testing.T, tape *verifsim.Tape, prop, tier string, keepLog bool) verifsim.Result {
	return verifsim.Run(t, tape, keepLog, func(sim *verifsim.Sim, res *verifsim.Result) {
		d := verifsim.Draw
		w := newStoreWorld(t, sim, prop)
		defer w.close()
		w.reg.plan = &faultPlan{} // fault-free network: fault arms belong to C03 / C12
		w.publishGGUFModels()
		lastShownTemplate = ""
		focusOpNames()
		minDownloadPartSize, maxDownloadPartSize = 64<<10, 256<<10
		nops := 5 + d("nops", 36)
		if tier == "thorough" {
			nops += d("nops+", 40)
		}
		done := false
		ctx := context.Background()
		sim.Go("client", func() {
			defer func() { done = true }()
			snap := w.snapshot()
			for i := 0; i < nops; i++ {
				op := drawStoreOp(existingNames(snap), true)
				r := w.doOp(ctx, op)
				w.note("%s -> %d %s", op, r.code, firstN(r.errorMsg(), 120))
				res.Info["op_"+op.kind]++
				if r.ok() {
					res.Info["op_ok"]++
					verifsim.Probe("op_" + op.kind + "_ok")
				}
				w.checkGinPanics(prop)
				// let helper goroutines of the operation finish before the store is read
				verifsim.Sleep(time.Duration(1+d("settle", 2000)) * time.Millisecond)
				snap = w.checkStore(ctx, prop, op, snap)
				if len(sim.Violations()) > 0 {
					return
				}
				if len(snap.manifests) >= 2 {
					verifsim.Probe("two_models_coexist")
				}
			}
		})
		stop := sim.RunUntil(func() bool { return done }, 12*time.Hour, 600000)
		res.Info["stop_"+stop.String()]++
		if stop == verifsim.Idle && len(sim.Violations()) == 0 {
			_, detail := sim.BlockedSummary()
			w.violate(prop, "stuck", "api-request-never-returns", "an API request never returned: nothing is runnable and no timer is pending\n%s", detail)
		}
		res.Info["net_requests"] += w.reg.nreq
		res.Info["fs_mutations"] += w.ctl.Ops
		res.Sample = w.desc
		sim.RunUntil(nil, 2*time.Second, 3000)
	})
}

var _ = json.Marshal
