//go:build verif

package server

// H-sched: the real Scheduler (server/sched.go, instrumented) under the
// simulated scheduler, with a simulated runner and GPU inventory behind the
// existing newServerFn / getGpuFn / getCpuFn seams. Decides C01, C02, C11.
// DESIGN.md section 5.

import (
	"context"
	"errors"
	"fmt"
	"math"
	"os"
	"path/filepath"
	"reflect"
	"strconv"
	"strings"
	"testing"
	"time"

	"github.com/ollama/ollama/api"
	"github.com/ollama/ollama/discover"
	"github.com/ollama/ollama/envconfig"
	"github.com/ollama/ollama/format"
	"github.com/ollama/ollama/fs/ggml"
	"github.com/ollama/ollama/llm"
	"github.com/ollama/ollama/verifsim"
)

const (
	armRandom = iota
	armReuse
	armEvictIdle
)

type schedCfg struct {
	arm         int
	nModels     int
	nClients    int
	maxRunners  int
	numParallel int
	maxQueue    int
	gpuKind     int
	nGPU        int
	gpuGB       int
	pingFail    int
	loadFail    int  // 1/n, 0 = never
	allocLag    bool // the devices report a new runner's allocation late
	unloadRate  int  // 1/n of clients are explicit unloads
	cancelRate  int
	optVariants bool
	mmapAll     bool
	burst       bool
	slowClose   bool
	closeErr    int // 1/n, 0 = never
}

type schedReq struct {
	id        int
	model     int
	m         *Model
	opts      api.Options // as submitted (after GetRunner's own normalisation)
	ka        *api.Duration
	ctx       context.Context
	cancel    context.CancelFunc
	okCh      chan *runnerRef
	errCh     chan error
	state     int // 0 not yet submitted, 1 waiting, 2 holding, 3 done
	replies   int
	cancelled bool // the caller cancelled before any reply arrived
	released  bool
	inst      *simLlama
	ref       *runnerRef
	busy      bool // was told ErrMaxQueue
	unload    bool // this client is an explicit unload, not a request
	holdFor   time.Duration
	holdUntil func() bool
}

type schedWorld struct {
	simLlamaWorld
	t      *testing.T
	prop   string
	cfg    schedCfg
	s      *Scheduler
	inv    *simInventory
	models []string // paths
	reqs   []*schedReq
	newSrv map[string]int // newServerFn calls per model path
	desc   []string
	// requests whose client is inside GetRunner right now, by task key (submissions that are
	// not made atomically, see client)
	submitting map[string]*schedReq
	// evict-idle scenario, CPU variant: the system reports next to no free memory until this runner has been shut down
	sysMemShortUntilClosed *simLlama
}

func (w *schedWorld) violate(prop, class, sig, f string, a ...any) {
	verifsim.Violate(prop, class, sig, fmt.Sprintf(f, a...))
}

func (w *schedWorld) note(f string, a ...any) {
	if len(w.desc) < 80 {
		w.desc = append(w.desc, fmt.Sprintf(f, a...))
	}
}

var schedModelDir string

func schedModels(n int) []string {
	if schedModelDir == "" {
		schedModelDir = filepath.Join(verifScratch(), "sched-models")
		for i := 0; i < 4; i++ {
			p := filepath.Join(schedModelDir, "m"+strconv.Itoa(i))
			if err := verifWriteGGUF(p, "m"+strconv.Itoa(i), 1+i%2, false); err != nil {
				panic(err)
			}
		}
	}
	var out []string
	for i := 0; i < n; i++ {
		out = append(out, filepath.Join(schedModelDir, "m"+strconv.Itoa(i)))
	}
	return out
}

func drawSchedCfg(tier string) schedCfg {
	d := verifsim.Draw
	var c schedCfg
	switch d("arm", 10) {
	case 0, 1:
		c.arm = armReuse
	case 2, 3:
		c.arm = armEvictIdle
	default:
		c.arm = armRandom
	}
	maxClients := 10
	if tier == "thorough" {
		maxClients = 16
	}
	c.nModels = 1 + d("models", 4)
	c.nClients = 2 + d("clients", maxClients-1)
	c.maxRunners = []int{0, 1, 2, 3, 2, 1}[d("maxrunners", 6)]
	c.numParallel = []int{0, 1, 4, 0}[d("parallel", 4)]
	c.maxQueue = 512
	if d("queue", 4) == 0 {
		c.maxQueue = 2 + d("queue-n", 7)
	}
	c.gpuKind = d("gpukind", 5) // 0 metal, 1 cuda, 2 cuda multi, 3 rocm+cuda, 4 cpu
	c.nGPU = 1 + d("ngpu", 3)
	c.gpuGB = []int{2, 4, 8, 16, 48}[d("gpugb", 5)]
	c.pingFail = []int{0, 0, 12, 4}[d("pingfail", 4)]
	c.loadFail = []int{0, 0, 6, 3}[d("loadfail", 4)]
	c.unloadRate = []int{0, 6, 3}[d("unload", 3)]
	c.cancelRate = []int{0, 5, 3}[d("cancel", 3)]
	c.optVariants = d("optvar", 2) == 0
	c.mmapAll = d("mmap-all", 3) == 0
	c.burst = d("burst", 3) == 0
	c.slowClose = d("slowclose", 2) == 0
	c.allocLag = d("alloc-lag?", 2) == 0
	c.closeErr = []int{0, 0, 3}[d("close-err?", 3)]
	if d("faultfree", 5) == 0 {
		c.pingFail, c.loadFail = 0, 0
	}
	switch c.arm {
	case armReuse:
		c.pingFail, c.loadFail, c.unloadRate, c.cancelRate = 0, 0, 0, 0
		c.optVariants, c.allocLag = false, false
		c.maxQueue = 512
		c.maxRunners = c.nModels + d("extra", 2)
		c.gpuKind, c.gpuGB = 0, 48 // one large metal device: everything fits, no VRAM polling
	case armEvictIdle:
		c.pingFail, c.loadFail, c.unloadRate, c.cancelRate = 0, 0, 0, 0
		c.optVariants, c.allocLag = false, false
		c.nModels = 3
		c.maxRunners = 2
		c.maxQueue = 512
		c.gpuKind, c.gpuGB = 0, 48
	}
	return c
}

func (c schedCfg) String() string {
	return fmt.Sprintf("arm=%s models=%d clients=%d max_loaded=%d parallel=%d max_queue=%d gpu=%s x%d %dGB pingfail=1/%d loadfail=1/%d unload=1/%d cancel=1/%d optvariants=%v burst=%v alloclag=%v",
		[...]string{"random", "reuse", "evict-idle"}[c.arm], c.nModels, c.nClients, c.maxRunners, c.numParallel, c.maxQueue,
		[...]string{"metal", "cuda", "cuda-multi", "rocm+cuda", "cpu"}[c.gpuKind], c.nGPU, c.gpuGB, c.pingFail, c.loadFail, c.unloadRate, c.cancelRate, c.optVariants, c.burst, c.allocLag)
}

func setenvOrUnset(k string, v int) {
	if v == 0 {
		os.Unsetenv(k)
	} else {
		os.Setenv(k, strconv.Itoa(v))
	}
}

func (w *schedWorld) buildInventory() {
	c := w.cfg
	inv := &simInventory{w: &w.simLlamaWorld}
	mk := func(lib, id string, gb int) *simGPU {
		g := &simGPU{total: uint64(gb) * format.GigaByte}
		g.info = discover.GpuInfo{Library: lib, ID: id}
		g.info.MinimumMemory = 300 * format.MegaByte
		return g
	}
	switch c.gpuKind {
	case 0:
		inv.gpus = []*simGPU{mk("metal", "0", c.gpuGB)}
	case 1:
		inv.gpus = []*simGPU{mk("cuda", "GPU-0", c.gpuGB)}
	case 2:
		for i := 0; i < c.nGPU; i++ {
			inv.gpus = append(inv.gpus, mk("cuda", "GPU-"+strconv.Itoa(i), c.gpuGB))
		}
	case 3:
		inv.gpus = []*simGPU{mk("cuda", "GPU-0", c.gpuGB), mk("rocm", "0", c.gpuGB*2)}
	case 4:
		// cpu only
	}
	inv.cpu = discover.GpuInfo{Library: "cpu", ID: "0"}
	inv.cpu.TotalMemory = uint64(c.gpuGB) * 2 * format.GigaByte
	inv.cpu.FreeMemory = inv.cpu.TotalMemory
	w.inv = inv
}

func (w *schedWorld) gpuList() discover.GpuInfoList {
	if len(w.inv.gpus) == 0 {
		l := w.inv.cpuList()
		var used uint64
		for _, s := range w.live() {
			used += s.estimate.TotalSize
		}
		if used > l[0].TotalMemory {
			used = l[0].TotalMemory
		}
		l[0].FreeMemory = l[0].TotalMemory - used
		return l
	}
	return w.inv.list()
}

// normalisedRunner is the view of load options on which compatibility is judged.
func normalisedRunner(r api.Runner, parallel int, wildcardGPU bool) api.Runner {
	if parallel > 0 {
		r.NumCtx = r.NumCtx / parallel
	}
	if wildcardGPU {
		r.NumGPU = -1
	}
	return r
}

func (w *schedWorld) newServer(gpus discover.GpuInfoList, model string, f *ggml.GGML, adapters []string, projectors []string, opts api.Options, numParallel int) (llm.LlamaServer, error) {
	verifsim.Yield("sim:new-server")
	w.newSrv[model]++
	live := w.live()
	// C11: one runner per model
	for _, x := range live {
		if x.model == model {
			w.violate("C11", "dup-runner", "dup-runner:"+callerRepoFunc(), "second runner started for %s while runner #%d for it is still running (started at %v, never closed)", filepath.Base(model), x.id, x.createdAt)
		}
	}
	// C11: limit
	if max := int(envconfig.MaxRunners()); max > 0 && len(live)+1 > max {
		w.violate("C11", "limit", "limit:"+callerRepoFunc(), "starting runner for %s would make %d running runners, OLLAMA_MAX_LOADED_MODELS=%d", filepath.Base(model), len(live)+1, max)
	}
	srv := &simLlama{w: &w.simLlamaWorld, id: len(w.srvs), model: model, opts: opts, numParallel: numParallel, adapters: adapters, projectors: projectors,
		gpus: append(discover.GpuInfoList{}, gpus...), createdAt: w.now()}
	srv.estimate = llm.EstimateGPULayers(gpus, f, projectors, opts, numParallel)
	// C11: fit while other models are loaded (GPU inventories only)
	if len(live) > 0 && len(gpus) > 0 && gpus[0].Library != "cpu" && opts.NumGPU != 0 {
		verifsim.Probe("fit_checked")
		adj := append(discover.GpuInfoList{}, gpus...)
		for i := range adj {
			var used uint64
			for _, x := range live {
				used += x.EstimatedVRAMByGPU(adj[i].ID)
			}
			for _, g := range w.inv.gpus {
				if g.info.ID == adj[i].ID && g.info.Library == adj[i].Library {
					adj[i].TotalMemory = g.total
				}
			}
			if used > adj[i].TotalMemory {
				used = adj[i].TotalMemory
			}
			adj[i].FreeMemory = adj[i].TotalMemory - used
		}
		if ok, need := llm.PredictServerFit(adj, f, adapters, projectors, opts, numParallel); !ok {
			w.violate("C11", "unfit-load", "unfit-load:"+callerRepoFunc(), "runner for %s started on %d GPU(s) where it is not predicted to fit next to %d running runners (needs %s; free after the others: %v)",
				filepath.Base(model), len(gpus), len(live), format.HumanBytes2(need), freeList(adj))
		}
	}
	if w.cfg.loadFail > 0 && !w.fair && verifsim.Draw("newserver-fail", w.cfg.loadFail*4) == 0 {
		verifsim.Fault("new_server_error")
		return nil, errors.New("sim: failed to start runner process")
	}
	srv.loadOK = w.fair || w.cfg.loadFail == 0 || verifsim.Draw("load-fail", w.cfg.loadFail) != 0
	srv.loadDur = time.Duration(1+verifsim.Draw("load-dur", 4000)) * time.Millisecond
	if verifsim.Draw("slow-load", 12) == 0 {
		srv.loadDur += time.Duration(verifsim.Draw("slow-load-s", 150)) * time.Second
	}
	// the device reports a new runner's allocation with a delay (one run in two): at some
	// point of the load, or a while after it - the scheduler has its own predictions for that
	if w.cfg.allocLag {
		switch verifsim.Draw("alloc-lag", 4) {
		case 1:
			srv.visibleAt = srv.createdAt + time.Duration(verifsim.Draw("alloc-lag-part", int(srv.loadDur/time.Millisecond)+1))*time.Millisecond
		case 2:
			srv.visibleAt = srv.createdAt + srv.loadDur + time.Duration(1+verifsim.Draw("alloc-lag-ms", 30000))*time.Millisecond
		case 3:
			srv.visibleAt = srv.createdAt + srv.loadDur + time.Duration(1+verifsim.Draw("alloc-lag-min", 30))*time.Minute
		}
		if srv.visibleAt > 0 {
			verifsim.Fault("gpu_allocation_reported_late")
		}
	}
	w.srvs = append(w.srvs, srv)
	w.note("t=%v newServer #%d %s ctx=%d parallel=%d gpus=%d loadOK=%v dur=%v", w.now(), srv.id, filepath.Base(model), opts.NumCtx, numParallel, len(gpus), srv.loadOK, srv.loadDur)
	return srv, nil
}

func freeList(l discover.GpuInfoList) []string {
	var out []string
	for _, g := range l {
		out = append(out, g.Library+":"+g.ID+"="+format.HumanBytes2(g.FreeMemory))
	}
	return out
}

func (w *schedWorld) closed(s *simLlama) {
	w.note("t=%v close #%d %s holders=%d", w.now(), s.id, filepath.Base(s.model), s.holders)
	if s.closed > 1 {
		w.violate("C01", "double-close", "double-close:"+callerRepoFunc(), "runner #%d (%s) shut down %d times", s.id, filepath.Base(s.model), s.closed)
	}
	if s.holders > 0 {
		var who []string
		for _, r := range w.reqs {
			if r.inst == s && r.state == 2 && !r.released {
				who = append(who, "request "+strconv.Itoa(r.id))
			}
		}
		w.violate("C01", "close-in-use", "close-in-use:"+callerRepoFunc(), "runner #%d (%s) shut down while %d request(s) still in progress (%s)", s.id, filepath.Base(s.model), s.holders, strings.Join(who, ", "))
	}
	// cuda reports freed memory with a lag
	for _, g := range w.inv.gpus {
		if g.info.Library == "cuda" {
			if m := s.EstimatedVRAMByGPU(g.info.ID); m > 0 && !w.fair {
				g.lagged += m
				lag := time.Duration(100+verifsim.Draw("vram-lag", 7000)) * time.Millisecond
				gg := g
				verifsim.Go("vram-lag", func() {
					verifsim.Sleep(lag)
					gg.lagged -= m
				})
			}
		}
	}
}

// release ends a request: "the request finished" == its context is cancelled.
func (w *schedWorld) release(r *schedReq) {
	if r.released {
		return
	}
	r.released = true
	if r.state == 2 && r.inst != nil {
		r.inst.holders--
	}
	r.cancel()
}

func pollReply(r *schedReq) (ref *runnerRef, err error, ok bool) {
	select {
	case ref = <-r.okCh:
		return ref, nil, true
	default:
	}
	select {
	case err = <-r.errCh:
		return nil, err, true
	default:
	}
	return nil, nil, false
}

func (w *schedWorld) client(r *schedReq, think time.Duration) {
	verifsim.Sleep(think)
	s := w.s
	if r.unload {
		verifsim.Fault("explicit_unload")
		verifsim.Probe("explicit_unload")
		w.note("t=%v client%d explicit unload %s", w.now(), r.id, filepath.Base(r.m.ModelPath))
		s.expireRunner(r.m)
		r.state = 3
		return
	}
	var qlen, qcap int
	if verifsim.Draw("submit-loose", 3) == 0 {
		// GetRunner runs with its own pre-emption points: other submitters and the pending
		// loop interleave with it. Whether the queue was full at the decisive instant is not
		// known to the harness then, so the "busy" answer is not predicted; what is checked
		// (OnStep) is the other half of the clause: the caller is never blocked inside GetRunner.
		verifsim.Probe("submit_not_atomic")
		if w.submitting == nil {
			w.submitting = map[string]*schedReq{}
		}
		key := verifsim.TaskKey()
		w.submitting[key] = r
		r.okCh, r.errCh = s.GetRunner(r.ctx, r.m, r.opts, r.ka)
		delete(w.submitting, key)
		qlen, qcap = 0, 1
	} else {
		verifsim.Atomic(func() {
			qlen, qcap = len(s.pendingReqCh), cap(s.pendingReqCh)
			r.okCh, r.errCh = s.GetRunner(r.ctx, r.m, r.opts, r.ka)
		})
	}
	if r.opts.NumCtx < 4 {
		r.opts.NumCtx = 4
	}
	r.state = 1
	w.note("t=%v client%d submit %s ctx=%d gpu=%d ka=%v adapters=%v (queue %d/%d)", w.now(), r.id, filepath.Base(r.m.ModelPath), r.opts.NumCtx, r.opts.NumGPU, kaString(r.ka), r.m.AdapterPaths, qlen, qcap)
	if qlen >= qcap {
		// C02: a full queue must answer "busy" at once
		verifsim.Probe("queue_full")
		verifsim.Fault("queue_overflow")
		_, err, ok := pollReply(r)
		if !ok || !errors.Is(err, ErrMaxQueue) {
			w.violate("C02", "busy", "busy:no-error-on-full-queue", "request %d submitted with the pending queue full (%d/%d) was not told the server is busy (got %v)", r.id, qlen, qcap, err)
		}
		r.replies++
		r.busy = true
		r.state = 3
		w.release(r)
		return
	}
	verifsim.Yield("client:submitted")
	for {
		ref, err, ok := pollReply(r)
		if !ok {
			select {
			case ref = <-r.okCh:
			case err = <-r.errCh:
			}
			verifsim.Yield("client:reply")
		}
		r.replies++
		if err != nil {
			w.note("t=%v client%d error: %v", w.now(), r.id, err)
			r.state = 3
			w.release(r)
			return
		}
		w.granted(r, ref)
		return
	}
}

func kaString(d *api.Duration) string {
	if d == nil {
		return "default"
	}
	if d.Duration == time.Duration(math.MaxInt64) {
		return "forever"
	}
	return d.Duration.String()
}

func (w *schedWorld) granted(r *schedReq, ref *runnerRef) {
	verifsim.Probe("grant")
	r.ref = ref
	live := r.ctx.Err() == nil
	ll := ref.llama
	if ll == nil {
		if live {
			w.violate("C01", "grant-closed", "grant-closed:unloaded-runner", "request %d was handed a runner for %s that has already been unloaded (its server is nil)", r.id, filepath.Base(r.m.ModelPath))
		}
		r.state = 3
		w.release(r)
		return
	}
	inst := ll.(*simLlama)
	r.inst = inst
	w.note("t=%v client%d granted runner #%d (live ctx=%v)", w.now(), r.id, inst.id, live)
	if inst.closed > 0 && live {
		w.violate("C01", "grant-closed", "grant-closed:closed-runner", "request %d was handed runner #%d (%s) which had been shut down at %v", r.id, inst.id, filepath.Base(inst.model), inst.closedAt)
	}
	if live {
		// C11: compatible load options
		wild := r.opts.NumGPU < 0
		want := normalisedRunner(r.opts.Runner, 1, wild)
		got := normalisedRunner(inst.opts.Runner, inst.numParallel, wild)
		if !reflect.DeepEqual(want, got) || !reflect.DeepEqual(r.m.AdapterPaths, inst.adapters) || !reflect.DeepEqual(r.m.ProjectorPaths, inst.projectors) {
			w.violate("C11", "incompatible-grant", "incompatible-grant", "request %d (%s, options %+v adapters %v) was served by runner #%d started with options %+v parallel %d adapters %v",
				r.id, filepath.Base(r.m.ModelPath), want, r.m.AdapterPaths, inst.id, inst.opts.Runner, inst.numParallel, inst.adapters)
		}
		if inst.model != r.m.ModelPath {
			w.violate("C11", "incompatible-grant", "wrong-model-grant", "request %d for %s was served by a runner of %s", r.id, filepath.Base(r.m.ModelPath), filepath.Base(inst.model))
		}
	}
	if r.released || !live {
		r.state = 3
		w.release(r)
		return
	}
	r.state = 2
	inst.holders++
	if r.holdUntil != nil {
		deadline := w.now() + 20*time.Minute
		for !r.holdUntil() && w.now() < deadline && !r.released {
			verifsim.Sleep(200 * time.Millisecond)
		}
	} else {
		verifsim.Sleep(r.holdFor)
	}
	// a second reply on either channel is a violation
	if _, _, ok := pollReply(r); ok {
		w.violate("C02", "reply-count", "reply-count:double", "request %d received a second reply", r.id)
	}
	w.release(r)
	r.state = 3
}

// holdersConsistent: C01 "never ... unloaded while the request is in progress".
func (w *schedWorld) checkHolders() {
	for _, r := range w.reqs {
		if r.state != 2 || r.released || r.ref == nil {
			continue
		}
		cur := w.s.loaded[r.m.ModelPath]
		if cur != r.ref {
			w.violate("C01", "unloaded-in-use", "unloaded-in-use:table", "runner #%d (%s) held by request %d is no longer the loaded runner of its model (table has %p, request holds %p)", r.inst.id, filepath.Base(r.inst.model), r.id, cur, r.ref)
			return
		}
		if r.ref.llama == nil {
			w.violate("C01", "unloaded-in-use", "unloaded-in-use:nil", "runner #%d (%s) held by request %d has been unloaded", r.inst.id, filepath.Base(r.inst.model), r.id)
			return
		}
	}
}

func (w *schedWorld) clientsSettled() bool {
	for _, r := range w.reqs {
		if r.state == 3 {
			continue
		}
		if r.state == 1 && r.ctx.Err() != nil {
			continue // cancelled while waiting: may legitimately never be answered
		}
		return false
	}
	return true
}

func stateHash(w *schedWorld) uint64 {
	h := uint64(14695981039346656037)
	mix := func(v uint64) { h = (h ^ v) * 1099511628211 }
	for _, p := range w.models {
		r := w.s.loaded[p]
		if r == nil {
			mix(0)
			continue
		}
		mix(1 + uint64(r.refCount)<<1)
		if r.loading {
			mix(7)
		}
		if r.expireTimer != nil {
			mix(11)
		}
		if r.sessionDuration == 0 {
			mix(13)
		}
	}
	mix(uint64(len(w.s.pendingReqCh)))
	mix(uint64(len(w.s.expiredCh)) << 8)
	mix(uint64(len(w.s.finishedReqCh)) << 16)
	mix(uint64(len(w.s.unloadedCh)) << 24)
	for _, r := range w.reqs {
		mix(uint64(r.state))
	}
	return h
}

func runSched(t *testing.T, tape *verifsim.Tape, prop, tier string, keepLog bool) verifsim.Result {
	return verifsim.Run(t, tape, keepLog, func(sim *verifsim.Sim, res *verifsim.Result) {
		cfg := drawSchedCfg(tier)
		w := &schedWorld{t: t, prop: prop, cfg: cfg, newSrv: map[string]int{}}
		w.now = sim.Now
		w.pingFail = cfg.pingFail
		w.slowClose = cfg.slowClose
		w.closeErr = cfg.closeErr
		w.onClose = w.closed
		w.models = schedModels(cfg.nModels)
		w.buildInventory()
		w.note("config: %s strategy-seeded", cfg)

		setenvOrUnset("OLLAMA_MAX_LOADED_MODELS", cfg.maxRunners)
		setenvOrUnset("OLLAMA_NUM_PARALLEL", cfg.numParallel)
		os.Setenv("OLLAMA_MAX_QUEUE", strconv.Itoa(cfg.maxQueue))
		os.Unsetenv("OLLAMA_KEEP_ALIVE")
		os.Unsetenv("OLLAMA_SCHED_SPREAD")
		os.Unsetenv("OLLAMA_GPU_OVERHEAD")

		ctx, cancel := context.WithCancel(context.Background())
		s := InitScheduler(ctx)
		w.s = s
		s.getGpuFn = w.gpuList
		s.getCpuFn = func() discover.GpuInfoList {
			l := w.inv.cpuList()
			if w.sysMemShortUntilClosed != nil && w.sysMemShortUntilClosed.closed == 0 {
				// system memory is nearly exhausted until that runner is gone
				l[0].FreeMemory = 1 << 20
			}
			return l
		}
		verifGetGPUInfo = w.gpuList
		s.newServerFn = w.newServer
		s.Run(ctx)

		states := map[uint64]bool{}
		sim.OnStep = func() {
			if prop == "C01" {
				w.checkHolders()
			}
			if prop == "C02" && len(w.submitting) > 0 {
				// "when the queue is full the caller is told the server is busy instead of being blocked"
				for _, t := range sim.Blocked() {
					if r := w.submitting[t.Key()]; r != nil {
						w.violate("C02", "busy", "busy:caller-blocked-in-GetRunner", "the caller of GetRunner for request %d is blocked inside the call (pending queue %d/%d) instead of being given its reply channels at once", r.id, len(w.s.pendingReqCh), cap(w.s.pendingReqCh))
					}
				}
			}
			if len(states) < 4096 {
				states[stateHash(w)] = true
			}
		}

		switch cfg.arm {
		case armEvictIdle:
			w.evictIdleScenario(sim)
		default:
			w.randomWorkload(sim)
		}

		// An expired runner that is still referenced is re-queued every 10 ms by the
		// code under test, so a long hold burns steps without being stuck: only
		// quiescence (Idle) is evidence of a lost wake-up; an exhausted step budget is
		// inconclusive and is counted, never reported.
		stop := sim.RunUntil(w.clientsSettled, 3*time.Hour, 400000)
		res.Info["stop_"+stop.String()]++
		if stop == verifsim.Idle || stop == verifsim.SimBudget {
			w.stuck(sim, stop, "workload")
		}
		if stop == verifsim.CondTrue {
			w.drain(sim, res)
		}
		if stop != verifsim.StepBudget && stop != verifsim.Overflow {
			w.finalChecks(sim, stop)
		}

		for _, r := range w.reqs {
			switch {
			case r.unload:
				res.Info["explicit_unloads"]++
			case r.busy:
				res.Info["busy_replies"]++
			case r.inst != nil:
				res.Info["grants"]++
			case r.replies > 0:
				res.Info["error_replies"]++
			default:
				res.Info["unanswered_cancelled"]++
			}
		}
		res.Info["runners_started"] += len(w.srvs)
		for h := range states {
			res.States = append(res.States, h)
		}
		res.Sample = w.desc

		// teardown: stop the scheduler loops and let everything settle
		w.fair = true
		for _, r := range w.reqs {
			w.release(r)
		}
		cancel()
		sim.OnStep = nil
		sim.RunUntil(nil, 2*time.Second, 2000)
	})
}

func (w *schedWorld) randomWorkload(sim *verifsim.Sim) {
	cfg := w.cfg
	d := verifsim.Draw
	base := context.Background()
	window := 20000
	if cfg.burst {
		window = 50
	}
	for i := 0; i < cfg.nClients; i++ {
		r := &schedReq{id: i}
		r.model = d("model", cfg.nModels)
		path := w.models[r.model]
		r.m = &Model{Name: "m" + strconv.Itoa(r.model), ShortName: "m" + strconv.Itoa(r.model), ModelPath: path}
		r.opts = api.DefaultOptions()
		if cfg.optVariants {
			switch d("optvariant", 6) {
			case 0:
				r.opts.NumCtx = 4096
			case 1:
				r.opts.NumGPU = 0
			case 2:
				r.m.AdapterPaths = []string{"adapter-a"}
			case 3:
				r.opts.NumCtx = 1024
				r.opts.NumGPU = 1
			case 4:
				// pointer-valued option: every request decodes its own pointer
				v := true
				r.opts.UseMMap = &v
			}
		}
		if cfg.mmapAll {
			// identical value in every request, but a pointer of its own each time
			v := true
			r.opts.UseMMap = &v
		}
		if cfg.arm == armReuse {
			forever := api.Duration{Duration: time.Duration(math.MaxInt64)}
			long := api.Duration{Duration: 10 * time.Hour}
			if d("ka-reuse", 2) == 0 {
				r.ka = &forever
			} else {
				r.ka = &long
			}
		} else {
			switch d("ka", 6) {
			case 0:
				r.ka = &api.Duration{Duration: 0}
			case 1:
				r.ka = &api.Duration{Duration: time.Duration(1+d("ka-ms", 3000)) * time.Millisecond}
			case 2:
				r.ka = &api.Duration{Duration: time.Duration(math.MaxInt64)}
			case 3:
				r.ka = &api.Duration{Duration: time.Duration(1+d("ka-s", 600)) * time.Second}
			}
		}
		r.ctx, r.cancel = context.WithCancel(base)
		r.holdFor = time.Duration(d("hold", 4000)) * time.Millisecond
		if d("longhold", 10) == 0 {
			r.holdFor += time.Duration(d("longhold-s", 120)) * time.Second
		}
		if cfg.unloadRate > 0 && d("is-unload", cfg.unloadRate) == 0 {
			r.unload = true
		}
		think := time.Duration(d("think", window)) * time.Millisecond
		w.reqs = append(w.reqs, r)
		rr := r
		sim.Go("client"+strconv.Itoa(i), func() { w.client(rr, think) })
		if !r.unload && cfg.cancelRate > 0 && d("cancels", cfg.cancelRate) == 0 {
			after := think + time.Duration(d("cancel-after", 6000))*time.Millisecond
			sim.Go("cancel"+strconv.Itoa(i), func() {
				verifsim.Sleep(after)
				if rr.state == 3 || rr.released {
					return
				}
				verifsim.Fault("client_cancel")
				if rr.state <= 1 {
					rr.cancelled = true
					verifsim.Probe("cancel_before_grant")
				}
				w.note("t=%v client%d cancels (state %d)", w.now(), rr.id, rr.state)
				w.release(rr)
			})
		}
	}
}

// evictIdleScenario: two runners loaded at capacity, one busy, one idle; a
// third model must get room by evicting the idle one. The busy holder holds
// until the third request is answered, so evicting the busy runner shows up as
// a request that is never answered.
func (w *schedWorld) evictIdleScenario(sim *verifsim.Sim) {
	d := verifsim.Draw
	perm := verifsim.Perm(3)
	mk := func(id, model int, ka time.Duration) *schedReq {
		r := &schedReq{id: id, model: model}
		r.m = &Model{Name: "m" + strconv.Itoa(model), ShortName: "m" + strconv.Itoa(model), ModelPath: w.models[model]}
		r.opts = api.DefaultOptions()
		r.ka = &api.Duration{Duration: ka}
		r.ctx, r.cancel = context.WithCancel(context.Background())
		w.reqs = append(w.reqs, r)
		return r
	}
	kas := []time.Duration{30 * time.Minute, 2 * time.Hour, time.Duration(math.MaxInt64), 45 * time.Minute}
	// the busy request may itself ask to unload when done (keep_alive=0): still busy, never the victim
	busyKas := append([]time.Duration{0, 0}, kas...)
	busy := mk(0, perm[0], busyKas[d("ka-busy", len(busyKas))])
	idle := mk(1, perm[1], kas[d("ka-idle", 4)])
	third := mk(2, perm[2], kas[d("ka-third", 4)])
	busy.holdUntil = func() bool { return third.replies > 0 }
	// CPU variant: below the runner limit; the busy runner and the newcomer are CPU-only
	// (num_gpu=0) and room has to be made because system memory is short (Scheduler.
	// maybeFindCPURunnerToUnload) - the idle runner is still the one to evict.
	cpuVariant := d("evict-cpu-variant", 3) == 0
	if cpuVariant {
		os.Setenv("OLLAMA_MAX_LOADED_MODELS", "3")
		busy.opts.NumGPU = 0
		third.opts.NumGPU = 0
	}
	idle.holdFor = time.Duration(d("idle-hold", 3000)) * time.Millisecond
	third.holdFor = time.Duration(d("third-hold", 3000)) * time.Millisecond
	t1 := time.Duration(d("think-a", 3000)) * time.Millisecond
	t2 := time.Duration(d("think-b", 3000)) * time.Millisecond
	sim.Go("client0", func() { w.client(busy, t1) })
	sim.Go("client1", func() { w.client(idle, t2) })
	ready := func() bool {
		if busy.state != 2 || idle.state != 3 || idle.inst == nil {
			return false
		}
		r := w.s.loaded[idle.m.ModelPath]
		return r != nil && r.refCount == 0 && !r.loading
	}
	stop := sim.RunUntil(ready, 30*time.Minute, 20000)
	if stop != verifsim.CondTrue {
		// could not set the scene (should not happen without faults); leave it to the generic checks
		return
	}
	verifsim.Probe("evict_scene_set")
	if cpuVariant {
		verifsim.Probe("evict_scene_cpu_mode")
		w.sysMemShortUntilClosed = idle.inst
	}
	t3 := time.Duration(d("think-c", 2000)) * time.Millisecond
	sim.Go("client2", func() { w.client(third, t3) })
	stop = sim.RunUntil(func() bool { return third.replies > 0 }, 10*time.Minute, 20000)
	if stop == verifsim.CondTrue {
		verifsim.Probe("evict_idle_ok")
		if cpuVariant && idle.inst.closed > 0 {
			verifsim.Probe("evict_cpu_mode_idle_evicted")
		}
		if third.inst != nil && busy.inst != nil && busy.inst.closed > 0 {
			w.violate("C11", "evict-busy", "evict-busy-while-idle-exists", "making room for %s shut down the busy runner #%d although runner #%d was idle", filepath.Base(third.m.ModelPath), busy.inst.id, idle.inst.id)
		}
	} else if stop == verifsim.Idle || stop == verifsim.SimBudget {
		w.violate("C11", "evict-busy", "evict-busy-while-idle-exists", "a request for %s needed room while runner #%d was idle and runner #%d busy; it was not answered within 10 simulated minutes (the busy runner was chosen as the victim, or nothing was evicted)",
			filepath.Base(third.m.ModelPath), idle.inst.id, busy.inst.id)
	}
}

func (w *schedWorld) stuck(sim *verifsim.Sim, stop verifsim.Stop, phase string) {
	if len(sim.Violations()) > 0 {
		return
	}
	var waiting []string
	for _, r := range w.reqs {
		if r.state == 1 && r.ctx.Err() == nil {
			waiting = append(waiting, fmt.Sprintf("request %d (%s)", r.id, filepath.Base(r.m.ModelPath)))
		}
	}
	if full := w.blockedOnFullEventChannel(sim); full != "" {
		_, detail := sim.BlockedSummary()
		w.violate("C02", "event-channel-full", "stuck:event-channel-full:"+full, "scheduler stuck during %s (%s) with internal event channel(s) %s full (their capacity is OLLAMA_MAX_QUEUE=%d) and a sender blocked on it while holding runner locks; unanswered: %v\n%s",
			phase, stop, full, w.cfg.maxQueue, waiting, detail)
		return
	}
	if cyc := sim.LockCycle(); cyc != nil {
		sig, detail := sim.DeadlockSignature(cyc)
		w.violate("C02", "deadlock", sig, "scheduler deadlocked during %s (%s); unanswered: %v\n%s", phase, stop, waiting, detail)
		return
	}
	if full := w.fullEventChannels(); full != "" {
		_, detail := sim.BlockedSummary()
		w.violate("C02", "event-channel-full", "stuck:event-channel-full:"+full, "scheduler stuck during %s (%s) with internal event channel(s) %s full (their capacity is OLLAMA_MAX_QUEUE=%d) while the loops that drain them are themselves blocked; unanswered: %v\n%s",
			phase, stop, full, w.cfg.maxQueue, waiting, detail)
		return
	}
	funcs, detail := sim.BlockedSummary()
	var repo []string
	seen := map[string]bool{}
	for _, f := range funcs {
		if f != "?" && !seen[f] {
			seen[f] = true
			repo = append(repo, f)
		}
	}
	if len(waiting) > 0 {
		w.violate("C02", "lost-wakeup", "no-reply:"+strings.Join(sortedStrings(repo), "|"), "%s: %d request(s) that were not cancelled never received a reply (%s): %v\n%s", phase, len(waiting), stop, waiting, detail)
	}
}

// blockedOnFullEventChannel: an internal event channel is at capacity and some task is
// blocked in something other than a lock (i.e. in a channel send): that sender holds
// whatever locks it holds for ever, so lock waits behind it (including a wait on a lock
// the waiter itself took and handed to the load goroutine) are consequences, not causes.
func (w *schedWorld) blockedOnFullEventChannel(sim *verifsim.Sim) string {
	full := w.fullEventChannels()
	if full == "" {
		return ""
	}
	for _, t := range sim.Blocked() {
		if !t.WaitingForLock() {
			return full
		}
	}
	return ""
}

// fullEventChannels names the scheduler's internal event channels that are at capacity.
func (w *schedWorld) fullEventChannels() string {
	var full []string
	if c := w.s.expiredCh; cap(c) > 0 && len(c) == cap(c) {
		full = append(full, "expiredCh")
	}
	if c := w.s.finishedReqCh; cap(c) > 0 && len(c) == cap(c) {
		full = append(full, "finishedReqCh")
	}
	if c := w.s.unloadedCh; cap(c) > 0 && len(c) == cap(c) {
		full = append(full, "unloadedCh")
	}
	return strings.Join(full, "+")
}

func sortedStrings(s []string) []string {
	out := append([]string(nil), s...)
	for i := 1; i < len(out); i++ {
		for j := i; j > 0 && out[j] < out[j-1]; j-- {
			out[j], out[j-1] = out[j-1], out[j]
		}
	}
	return out
}

// drain: the environment becomes fair; forever-keep-alive models are unloaded
// explicitly; time advances past the longest keep-alive. Then everything that
// was started must have been shut down.
func (w *schedWorld) drain(sim *verifsim.Sim, res *verifsim.Result) {
	w.fair = true
	// release requests that were cancelled while waiting and got a runner late
	var longest time.Duration
	for _, r := range w.reqs {
		if r.ka != nil && r.ka.Duration != time.Duration(math.MaxInt64) && r.ka.Duration > longest {
			longest = r.ka.Duration
		}
	}
	if d := envconfig.KeepAlive(); d > longest {
		longest = d
	}
	done := false
	sim.Go("drain-unloader", func() {
		// wait until nothing is loading or held, then unload what would stay forever
		verifsim.Sleep(longest + 10*time.Minute)
		for i, p := range w.models {
			m := &Model{Name: "m" + strconv.Itoa(i), ShortName: "m" + strconv.Itoa(i), ModelPath: p}
			w.s.expireRunner(m)
			verifsim.Sleep(10 * time.Second)
		}
		done = true
	})
	allClosed := func() bool {
		if !done {
			return false
		}
		for _, s := range w.srvs {
			if s.closed == 0 {
				return false
			}
		}
		return len(w.s.loaded) == 0
	}
	stop := sim.RunUntil(allClosed, longest+10*time.Minute+time.Duration(len(w.models))*10*time.Second+15*time.Minute, 1500000)
	res.Info["drain_"+stop.String()]++
	if stop == verifsim.StepBudget || stop == verifsim.Overflow {
		return // inconclusive
	}
	if stop == verifsim.CondTrue {
		verifsim.Probe("drain_complete")
		// let stragglers (late finished events, vram polling) run
		sim.RunUntil(nil, time.Minute, 5000)
		return
	}
	if len(sim.Violations()) > 0 {
		return
	}
	if full := w.blockedOnFullEventChannel(sim); full != "" {
		_, detail := sim.BlockedSummary()
		w.violate("C02", "event-channel-full", "stuck:event-channel-full:"+full, "scheduler stuck during drain (%s) with internal event channel(s) %s full (their capacity is OLLAMA_MAX_QUEUE=%d) and a sender blocked on it\n%s", stop, full, w.cfg.maxQueue, detail)
		return
	}
	if cyc := sim.LockCycle(); cyc != nil {
		sig, detail := sim.DeadlockSignature(cyc)
		w.violate("C02", "deadlock", sig, "scheduler deadlocked during drain (%s)\n%s", stop, detail)
		return
	}
	if full := w.fullEventChannels(); full != "" {
		_, detail := sim.BlockedSummary()
		w.violate("C02", "event-channel-full", "stuck:event-channel-full:"+full, "scheduler stuck during drain (%s) with internal event channel(s) %s full (their capacity is OLLAMA_MAX_QUEUE=%d)\n%s", stop, full, w.cfg.maxQueue, detail)
		return
	}
	var open []string
	for _, s := range w.srvs {
		if s.closed == 0 {
			inTable := "not in the loaded table"
			if r := w.s.loaded[s.model]; r != nil && r.llama == s {
				inTable = fmt.Sprintf("in the loaded table with refCount=%d", r.refCount)
			}
			open = append(open, fmt.Sprintf("runner #%d (%s) %s", s.id, filepath.Base(s.model), inTable))
		}
	}
	kind := "loaded-table-not-empty"
	if len(open) > 0 {
		kind = "runner-never-closed"
		for _, o := range open {
			if strings.Contains(o, "not in the loaded table") {
				kind = "runner-leaked"
			}
		}
	}
	_, detail := sim.BlockedSummary()
	w.violate("C02", "drain", "drain:"+kind, "after all requests finished, explicit unload of every model and %v of simulated time (%s): %d runner(s) never shut down %v; %d entries reported as loaded\n%s",
		longest+25*time.Minute, stop, len(open), open, len(w.s.loaded), detail)
}

func (w *schedWorld) finalChecks(sim *verifsim.Sim, stop verifsim.Stop) {
	if len(sim.Violations()) > 0 {
		return
	}
	for _, r := range w.reqs {
		if r.unload || r.okCh == nil {
			continue
		}
		// a second value on either channel at any time is a violation
		if r.replies >= 1 {
			if _, _, ok := pollReply(r); ok {
				w.violate("C02", "reply-count", "reply-count:double", "request %d received a second reply", r.id)
			}
		}
		if r.replies == 0 && !r.cancelled && r.ctx.Err() == nil {
			w.violate("C02", "reply-count", "reply-count:none", "request %d was never answered", r.id)
		}
	}
	if w.cfg.arm == armReuse && (w.prop == "C11") {
		for p, n := range w.newSrv {
			if n > 1 {
				w.violate("C11", "no-reuse", "no-reuse", "all %d requests used identical load options, nothing failed, nothing had to be evicted and keep-alive never elapsed, yet %d runners were started for %s",
					len(w.reqs), n, filepath.Base(p))
			}
			if n == 1 {
				verifsim.Probe("reuse")
			}
		}
	}
}

func TestVerifSched(t *testing.T) {
	verifQuietLogs()
	verifsim.WorkerMain(t, verifsim.Harness{
		Name:       "sched",
		RunOne:     runSched,
		PanicProps: []string{"C02"},
		Real:       []string{"server/sched.go (instrumented, unmodified logic)", "envconfig", "llm.LoadModel + fs/ggml decode of real GGUF files", "llm.PredictServerFit / EstimateGPULayers", "discover.GpuInfoList helpers"},
		Stub:       []string{"llm.LlamaServer (simLlama: tape-drawn load time/outcome, ping faults, close monitor)", "GPU discovery (simInventory: tape-drawn devices, usage = sum of live estimates, cuda free-memory lag)", "HTTP layer (clients call GetRunner/expireRunner exactly as routes.go scheduleRunner does)"},
		Rule:       map[string]string{"*": "one evaluation = one simulated execution of the real Scheduler (both loops, timers, helper goroutines) against 2-16 tape-drawn clients over 1-4 models, with a tape-drawn configuration (limits, GPU inventory, fault rates) and a tape-drawn interleaving; non-trivial = at some step at least two tasks were runnable and at least one runner was started; distinct = different hash of the whole (task, label, simulated time) decision sequence"},
		NonTrivial: func(prop string, r *verifsim.Result) bool { return r.MaxRunnable >= 2 && r.Info["runners_started"] > 0 },
		Assumptions: []string{"instrumentation (yields at synchronisation points, mutex type swap, select/map-range determinisation) preserves single-threaded semantics",
			"testing/synctest fake clock and quiescence detection", "pre-emption only at synchronisation points (channel ops, locks, sleeps, timers, stub calls)",
			"a request is 'in progress' from the receipt of its runner until its context is cancelled, as in routes.go"},
	})
}
