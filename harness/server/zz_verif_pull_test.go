//go:build verif

package server

// C03: a successful legacy pull leaves exactly the published, digest-verified
// model; a failed or interrupted one never leaves a name that resolves to
// missing or corrupt layers; a later retry can still succeed; no registry
// response crashes the server. DESIGN.md section 5 (C03).

import (
	"context"
	"encoding/json"
	"fmt"
	"os"
	"path/filepath"
	"strconv"
	"strings"
	"testing"
	"time"

	"github.com/ollama/ollama/verifsim"
)

type pullModelSpec struct {
	prev   *pullModelSpec // the version of the tag published before this one
	name   string         // registry.sim/lib/mN:tag
	key    string         // lib/mN:tag (registry side)
	layers [][]byte
	config []byte
	man    Manifest
}

type pullCfg struct {
	nModels    int
	partSize   int64
	needAuth   bool
	phases     int
	concurrent bool
	cancelRate int
	updateTag  bool
}

func pseudoBytes(n int, seed uint64) []byte {
	b := make([]byte, n)
	x := seed*2862933555777941757 + 3037000493
	for i := range b {
		x ^= x << 13
		x ^= x >> 7
		x ^= x << 17
		b[i] = byte(x >> 24)
	}
	return b
}

func drawBlobSize() int {
	switch verifsim.Draw("blob-size-class", 8) {
	case 0:
		return 0
	case 1, 2:
		return 1 + verifsim.Draw("blob-size", 100)
	case 3, 4, 5:
		return 1 + verifsim.Draw("blob-size", 8*1024)
	default:
		return 8*1024 + verifsim.Draw("blob-size", 192*1024)
	}
}

// publish builds a model at the registry: layers + config + manifest.
func (w *storeWorld) publish(key string, layers [][]byte, config []byte) *pullModelSpec {
	spec := &pullModelSpec{name: simRegHost + "/" + key, key: key, layers: layers, config: config}
	types := []string{"application/vnd.ollama.image.model", "application/vnd.ollama.image.template", "application/vnd.ollama.image.params", "application/vnd.ollama.image.license"}
	var ls []Layer
	for i, b := range layers {
		d := w.reg.addBlob(b)
		ls = append(ls, Layer{MediaType: types[i%len(types)], Digest: d, Size: int64(len(b))})
	}
	cd := w.reg.addBlob(config)
	spec.man = Manifest{SchemaVersion: 2, MediaType: "application/vnd.docker.distribution.manifest.v2+json",
		Config: Layer{MediaType: "application/vnd.docker.container.image.v1+json", Digest: cd, Size: int64(len(config))}, Layers: ls}
	mb, _ := json.Marshal(spec.man)
	w.reg.manifests[key] = mb
	return spec
}

// publishSparse republishes spec's manifest without its "config" key.
func (w *storeWorld) publishSparse(spec *pullModelSpec) {
	spec.config = nil
	spec.man.Config = Layer{}
	mb, _ := json.Marshal(map[string]any{"schemaVersion": spec.man.SchemaVersion, "mediaType": spec.man.MediaType, "layers": spec.man.Layers})
	w.reg.manifests[spec.key] = mb
	verifsim.Probe("manifest_without_config")
}

func (w *storeWorld) manifestFile(name string) string {
	// registry.sim/lib/m0:latest -> manifests/registry.sim/lib/m0/latest
	return filepath.Join(w.dir, "manifests", strings.Replace(name, ":", "/", 1))
}

// checkPulled: the statement's first sentence, evaluated when a pull reported success.
// prunedByPeer: the run has concurrent pulls and the digest belonged to a
// version of a tag that has since been replaced at the registry (the pull that
// updates the tag prunes the layers of the manifest it replaces).
func (w *storeWorld) prunedByPeer(digest string) bool {
	return w.concurrentPulls && w.staleDigests[digest]
}

func (w *storeWorld) checkPulled(spec *pullModelSpec, what string) { w.checkPulledBy(nil, spec, what) }

func (w *storeWorld) checkPulledBy(att *pullAttempt, spec *pullModelSpec, what string) {
	raw, err := os.ReadFile(w.manifestFile(spec.name))
	if err != nil {
		w.violate("C03", "store-audit", "pull-success:manifest-missing", "%s of %s reported success but the name does not resolve: %v", what, spec.name, err)
		return
	}
	var got Manifest
	if err := json.Unmarshal(raw, &got); err != nil {
		w.violate("C03", "store-audit", "pull-success:manifest-unreadable", "%s of %s reported success but the stored manifest does not parse: %v", what, spec.name, err)
		return
	}
	tampered := w.reg.tampered[spec.key]
	if !tampered {
		var served Manifest
		if sb := w.reg.served[spec.key]; sb != nil {
			_ = json.Unmarshal(sb, &served)
			if manifestKey(&got) != manifestKey(&served) {
				w.violate("C03", "store-audit", "pull-success:manifest-mismatch", "%s of %s reported success but the stored manifest is not the one the registry served\n stored: %s\n served: %s", what, spec.name, manifestKey(&got), manifestKey(&served))
				return
			}
		}
	}
	for _, l := range append(append([]Layer{}, got.Layers...), got.Config) {
		if l.Digest == "" {
			continue
		}
		p := filepath.Join(w.dir, "blobs", strings.Replace(l.Digest, ":", "-", 1))
		sum, n, err := fileSHA(p)
		switch {
		case err != nil && w.prunedByPeer(l.Digest):
			w.violate("C03", "store-audit", "pull-success:layer-missing:pruned-by-concurrent-pull-of-updated-tag", "%s of %s reported success but layer %s is not in the store: a concurrent pull that updated another tag pruned it as unused (it belonged to the manifest that pull replaced) after this pull had found it present and before this pull wrote its manifest: %v", what, spec.name, shortDigest(l.Digest), err)
			return
		case err != nil:
			w.violate("C03", "store-audit", "pull-success:layer-missing", "%s of %s reported success but layer %s is not in the store: %v", what, spec.name, shortDigest(l.Digest), err)
			return
		case "sha256:"+sum != strings.Replace(l.Digest, "sha256-", "sha256:", 1):
			w.violate("C03", "store-audit", "pull-success:layer-corrupt", "%s of %s reported success but layer %s has content sha256:%s (%d bytes, manifest size %d)", what, spec.name, shortDigest(l.Digest), sum[:12], n, l.Size)
			return
		case !tampered && n != l.Size:
			w.violate("C03", "store-audit", "pull-success:layer-size", "%s of %s reported success but layer %s has %d bytes, the manifest says %d", what, spec.name, shortDigest(l.Digest), n, l.Size)
			return
		}
	}
}

// checkResolvable: the statement's second sentence, evaluated after every attempt.
func (w *storeWorld) checkResolvable(when string) {
	snap := w.snapshot()
	anyTampered := len(w.reg.tampered) > 0
	for _, p := range snap.audit(!anyTampered) {
		if p.kind == "layer-missing" && w.prunedByPeer(p.digest) {
			w.violate("C03", "store-audit", "resolvable:layer-missing:pruned-by-concurrent-pull-of-updated-tag", "%s: %s (a concurrent pull that updated another tag pruned the layer as unused while the pull of this model was in flight)", when, p.detail)
			return
		}
		w.violate("C03", "store-audit", "resolvable:"+p.kind, "%s: %s", when, p.detail)
		return
	}
}

func (w *storeWorld) checkGinPanics(prop string) {
	if prop != "C03" && prop != "C10" {
		// a recovered panic is an error response; only C03 and C10 speak about panics
		if w.ginErr.Len() > 0 {
			verifsim.Probe("gin_recovered_panic_not_counted")
			w.ginErr.Reset()
		}
		return
	}
	if w.ginErr.Len() > 0 && !verifsim.IsCrashed() {
		msg := w.ginErr.String()
		fn := verifsim.StackRepoFunc(msg)
		w.violate(prop, "panic", "panic-recovered-by-gin@"+fn, "a request handler panicked (recovered by gin):\n%s", firstN(msg, 3000))
		w.ginErr.Reset()
	}
}

// errClass reduces an error message to a stable class for signatures.
func errClass(msg string) string {
	var sb strings.Builder
	dash := false
	for _, c := range strings.ToLower(msg) {
		switch {
		case c >= 'a' && c <= 'z':
			sb.WriteRune(c)
			dash = false
		case !dash && sb.Len() > 0:
			sb.WriteByte('-')
			dash = true
		}
		if sb.Len() >= 48 {
			break
		}
	}
	return strings.Trim(sb.String(), "-")
}

func firstN(s string, n int) string {
	if len(s) > n {
		return s[:n] + "..."
	}
	return s
}

type pullAttempt struct {
	peers  []*pullAttempt // attempts running in the same phase
	spec   *pullModelSpec
	done   bool
	res    apiResult
	cancel context.CancelFunc
	ctx    context.Context
}

func (w *storeWorld) pullTask(a *pullAttempt, stream bool, what string) {
	body := map[string]any{"model": a.spec.name}
	if !stream {
		body["stream"] = false
	}
	// part files left by an earlier attempt?
	for _, l := range append(append([]Layer{}, a.spec.man.Layers...), a.spec.man.Config) {
		if m, _ := filepath.Glob(filepath.Join(w.dir, "blobs", strings.Replace(l.Digest, ":", "-", 1)+"-partial-*")); len(m) > 0 {
			verifsim.Probe("resume_from_parts")
			break
		}
	}
	a.res = w.call(a.ctx, "POST", "/api/pull", body)
	if verifsim.Dead() {
		return
	}
	cancelled := a.ctx.Err() != nil
	switch {
	case a.res.ok() && (a.res.lastStatus() == "success"):
		verifsim.Probe("pull_success")
		w.note("%s %s -> success", what, a.spec.name)
		w.checkPulledBy(a, a.spec, what)
	case a.res.ok() && !cancelled:
		// a stream that ends without "success" and without an error object
		verifsim.Probe("pull_no_verdict")
		w.note("%s %s -> stream ended without verdict (%d, last status %q)", what, a.spec.name, a.res.code, a.res.lastStatus())
	default:
		verifsim.Probe("pull_failed")
		w.note("%s %s -> failed (%d) %s cancelled=%v", what, a.spec.name, a.res.code, firstN(a.res.errorMsg(), 160), cancelled)
	}
	w.checkGinPanics("C03")
	a.done = true
}

func runPull(t *testing.T, tape *verifsim.Tape, prop, tier string, keepLog bool) verifsim.Result {
	return verifsim.Run(t, tape, keepLog, func(sim *verifsim.Sim, res *verifsim.Result) {
		d := verifsim.Draw
		w := newStoreWorld(t, sim, prop)
		defer w.close()
		cfg := pullCfg{
			nModels:    1 + d("models", 3),
			partSize:   []int64{1 << 10, 4 << 10, 16 << 10, 64 << 10}[d("partsize", 4)],
			needAuth:   d("auth", 2) == 0,
			phases:     1 + d("phases", 4),
			concurrent: d("concurrent", 3) == 0,
			cancelRate: []int{0, 4, 2}[d("cancel", 3)],
			updateTag:  d("updatetag", 4) == 0,
		}
		if tier == "thorough" {
			cfg.phases += d("phases+", 3)
		}
		// re-download arm: one model, its tag is updated and rolled back every phase, no
		// interrupts, and the only faults are flipped bytes and ignored ranges - so that a
		// digest that was verified, pruned and is downloaded again arrives damaged. Aims at
		// verification state that outlives the file it was computed for.
		// shared-layer arm: model 0 is pulled, then its tag is updated at the registry while
		// model 1, which shares a layer with the version of model 0 that is in the store, is
		// pulled for the first time - concurrently with the pull of the update. Aims at the
		// pruning of replaced layers racing a pull that found one of them present.
		sharedArm := d("arm-shared-update", 12) == 0
		redownload := !sharedArm && d("arm-redownload", 12) == 0
		if sharedArm {
			cfg.nModels, cfg.concurrent, cfg.cancelRate, cfg.updateTag = 2, true, 0, true
			cfg.phases = 2 + d("phases-sh", 2)
		}
		if redownload {
			cfg.nModels, cfg.concurrent, cfg.cancelRate, cfg.updateTag = 1, false, 0, true
			cfg.phases = 3 + d("phases-rd", 4)
		}
		minDownloadPartSize, maxDownloadPartSize = cfg.partSize, cfg.partSize*4
		w.concurrentPulls = cfg.concurrent
		w.reg.needAuth = cfg.needAuth
		w.reg.plan = drawFaultPlan()
		if sharedArm {
			w.reg.plan = &faultPlan{}
			verifsim.Probe("arm_shared_update")
		}
		if redownload {
			w.reg.plan = &faultPlan{enabled: map[string]bool{fFlip: true, fRangeIgnored: d("rd-range", 2) == 0}, rate: 2 + d("rd-rate", 3), budget: 4 + d("rd-budget", 8)}
			verifsim.Probe("arm_redownload")
		}
		w.note("config: models=%d part=%dB auth=%v phases=%d concurrent=%v cancel=1/%d updatetag=%v net: %s", cfg.nModels, cfg.partSize, cfg.needAuth, cfg.phases, cfg.concurrent, cfg.cancelRate, cfg.updateTag, w.reg.plan)

		// publish models; layers may be shared between models
		var pool [][]byte
		var specs []*pullModelSpec
		seed := uint64(d("content-seed", 1<<30))
		mkModel := func(i int, tag string) *pullModelSpec {
			nl := 1 + d("layers", 4)
			var ls [][]byte
			for j := 0; j < nl; j++ {
				if len(pool) > 0 && d("share", 4) == 0 {
					ls = append(ls, pool[d("share-which", len(pool))])
					continue
				}
				seed++
				b := pseudoBytes(drawBlobSize(), seed)
				if int64(len(b)) > cfg.partSize {
					verifsim.Probe("multi_part")
				}
				pool = append(pool, b)
				ls = append(ls, b)
			}
			seed++
			return w.publish("lib/m"+strconv.Itoa(i)+":"+tag, ls, []byte(fmt.Sprintf(`{"model_format":"gguf","n":%d}`, seed)))
		}
		for i := 0; i < cfg.nModels; i++ {
			specs = append(specs, mkModel(i, "latest"))
		}

		if sharedArm && len(specs) == 2 && len(specs[0].layers) > 0 {
			// model 1 = the first layer of model 0 plus one of its own
			seed++
			own := pseudoBytes(1+d("own-size", 4000), seed)
			seed++
			specs[1] = w.publish("lib/m1:latest", [][]byte{specs[0].layers[0], own}, []byte(fmt.Sprintf(`{"model_format":"gguf","n":%d}`, seed)))
		}
		stepBudget := 150000
		for ph := 0; ph < cfg.phases; ph++ {
			if cfg.updateTag && ph > 0 && (redownload || sharedArm || d("update-now", 2) == 0) {
				i := d("update-which", len(specs))
				if sharedArm {
					i = 0
				}
				old := specs[i]
				if old.prev != nil && (d("rollback", 3) == 0 || (redownload && ph%2 == 0)) {
					// the tag is rolled back to the version published before
					rb := *old.prev
					rb.prev = old
					mb, _ := json.Marshal(rb.man)
					w.reg.manifests[rb.key] = mb
					specs[i] = &rb
					verifsim.Probe("tag_rolled_back")
				} else {
					specs[i] = mkModel(i, "latest")
					specs[i].prev = old
					if seed%3 == 0 && !sharedArm {
						// the new version is published without a "config" object (the
						// pull path supports such manifests): a key the previous
						// version of the tag had is absent from what is served now.
						// Chosen from the content seed, not a new draw, so that tapes
						// recorded before this arm existed decode as before.
						w.publishSparse(specs[i])
					}
				}
				for _, l := range append(append([]Layer{}, old.man.Layers...), old.man.Config) {
					w.staleDigests[l.Digest] = true
				}
				w.note("registry: tag %s updated", specs[i].key)
			}
			var atts []*pullAttempt
			n := 1
			if cfg.concurrent {
				n = 2
			}
			if sharedArm && ph == 0 {
				n = 1
			}
			for k := 0; k < n; k++ {
				a := &pullAttempt{spec: specs[d("pull-which", len(specs))]}
				if sharedArm {
					a.spec = specs[k] // phase 0: model 0 alone; later: the update of model 0 and model 1
				}
				a.ctx, a.cancel = context.WithCancel(context.Background())
				atts = append(atts, a)
				stream := d("stream", 3) != 0
				what := fmt.Sprintf("attempt %d.%d", ph, k)
				think := time.Duration(d("think", 2000)) * time.Millisecond
				aa := a
				sim.Go("puller"+strconv.Itoa(ph)+"."+strconv.Itoa(k), func() {
					verifsim.Sleep(think)
					w.pullTask(aa, stream, what)
				})
				if cfg.cancelRate > 0 && d("cancel?", cfg.cancelRate) == 0 {
					after := think + time.Duration(d("cancel-after", 20000))*time.Millisecond
					sim.Go("canceller"+strconv.Itoa(ph)+"."+strconv.Itoa(k), func() {
						verifsim.Sleep(after)
						if !aa.done {
							verifsim.Fault("client_interrupt")
							w.note("%s interrupted by the client", what)
						}
						aa.cancel()
					})
				}
			}
			stop := sim.RunUntil(func() bool {
				for _, a := range atts {
					if !a.done {
						return false
					}
				}
				return true
			}, 6*time.Hour, stepBudget)
			res.Info["phase_stop_"+stop.String()]++
			for _, a := range atts {
				a.cancel()
			}
			if stop != verifsim.CondTrue {
				if stop == verifsim.Idle && len(sim.Violations()) == 0 {
					_, detail := sim.BlockedSummary()
					w.violate("C03", "stuck", "pull-never-returns", "a pull request neither succeeded nor failed: nothing is runnable and no timer is pending\n%s", detail)
				}
				break
			}
			// let background transfers of interrupted attempts wind down for a tape-chosen while
			sim.RunUntil(nil, time.Duration(d("gap", 90000))*time.Millisecond, 20000)
			w.checkResolvable(fmt.Sprintf("after phase %d", ph))
			if len(sim.Violations()) > 0 {
				break
			}
		}

		// a later retry can still succeed: the network becomes reliable; allow the
		// system to settle, then up to three fault-free attempts per model
		if len(sim.Violations()) == 0 && res.Info["phase_stop_cond"] == cfg.phases {
			w.reg.plan.off = true
			sim.RunUntil(nil, 3*time.Minute, 50000)
			for _, spec := range specs {
				ok := false
				var msgs []string
				for try := 0; try < 3 && !ok; try++ {
					a := &pullAttempt{spec: spec}
					a.ctx, a.cancel = context.WithCancel(context.Background())
					what := fmt.Sprintf("fault-free retry %d", try)
					sim.Go("retry-"+spec.key+"-"+strconv.Itoa(try), func() { w.pullTask(a, true, what) })
					stop := sim.RunUntil(func() bool { return a.done }, 6*time.Hour, stepBudget)
					a.cancel()
					if stop != verifsim.CondTrue {
						res.Info["retry_stop_"+stop.String()]++
						msgs = append(msgs, "did not finish: "+stop.String())
						break
					}
					ok = a.res.ok() && a.res.lastStatus() == "success"
					if !ok {
						msgs = append(msgs, firstN(a.res.errorMsg(), 200))
						sim.RunUntil(nil, 2*time.Minute, 20000)
					}
				}
				if len(sim.Violations()) > 0 {
					break
				}
				if ok {
					verifsim.Probe("final_retry_ok")
				} else if res.Info["retry_stop_step-budget"] == 0 && res.Info["retry_stop_overflow"] == 0 {
					w.violate("C03", "retry", "retry-cannot-succeed:"+errClass(msgs[len(msgs)-1]), "after failed/interrupted attempts, three further attempts to pull %s against a now fault-free registry all failed: %v", spec.name, msgs)
					break
				}
			}
			if len(sim.Violations()) == 0 {
				w.checkResolvable("at the end")
			}
		}
		res.Info["net_requests"] += w.reg.nreq
		res.Info["fs_mutations"] += w.ctl.Ops
		res.Sample = append(w.desc, w.reg.log...)
		if len(res.Sample) > 140 {
			res.Sample = res.Sample[:140]
		}
		sim.OnStep = nil
		sim.RunUntil(nil, 2*time.Second, 3000)
	})
}

func runStore(t *testing.T, tape *verifsim.Tape, prop, tier string, keepLog bool) verifsim.Result {
	switch prop {
	case "C03":
		return runPull(t, tape, prop, tier, keepLog)
	case "C04":
		return runOps(t, tape, prop, tier, keepLog)
	case "C12":
		return runCrash(t, tape, prop, tier, keepLog)
	case "C09":
		return runPush(t, tape, prop, tier, keepLog)
	case "C10":
		return runGGUFAPI(t, tape, prop, tier, keepLog)
	}
	return verifsim.Result{HarnessErr: "store harness does not serve " + prop}
}

func TestVerifStore(t *testing.T) {
	verifQuietLogs()
	verifsim.WorkerMain(t, verifsim.Harness{
		Name:   "store",
		RunOne: runStore,
		// an unrecovered panic is a violation only where the statement says so (C03: "no registry
		// response ... crashes the server", C10: "never panics ... the server keeps serving"); the
		// other properties see a dead goroutine only through their own oracles
		PanicProps: []string{"C03", "C10"},
		Real: []string{"server/images.go download.go upload.go auth.go modelpath.go manifest.go layer.go create.go model.go routes.go fixblobs.go (instrumented, unmodified logic)",
			"gin router and handlers (POST /api/pull etc. through router.ServeHTTP)", "net/http client (redirect handling, bodies) over an in-memory RoundTripper", "real files on tmpfs through the vfs pass-through"},
		Stub: []string{"registry / CDN / auth servers (simRegistry: protocol state + tape-drawn faults)", "TCP/TLS (no sockets)", "process death = freeze + unwind (no power-loss reordering)"},
		Rule: map[string]string{
			"C03": "one evaluation = one simulated execution: 1-3 published models (1-4 layers of 0-200 KB, shared layers, optional tag update or roll-back, a third of the updates republished without a config object), 1-7 phases of 1-2 concurrent POST /api/pull attempts with tape-drawn interrupts, a tape-drawn subset of 17 network fault kinds at a tape-drawn rate, part size 1-64 KB, then up to three fault-free retries per model; non-trivial = at least two tasks runnable at some step and at least one network request; distinct = different hash of the (task,label,time) decision sequence",
			"C12": "one case = a tape-drawn prior history of 0-5 fault-free API operations (the C04 generator: shared layers, case variants, restarts) followed by one target operation (pull of a new / updated / layer-sharing model in 256 B-4 KB parts, create from files, create FROM, re-create, copy, delete); the case is executed once uninterrupted to count its crash points (every mutating file-system call of the operation, plus a torn variant of every data write) and then once per crash point (all of them up to 150 quick / 600 thorough, otherwise a stratified tape-drawn sample): freeze the world there, unwind, restart through the repository's own start-up sequence, audit, repeat the operation, restart again, compare with the uninterrupted run; one evaluation = one such execution; non-trivial = the case has at least one crash point; distinct = different hash of the decision sequence (every crash point yields a different one)",
			"C09": "legacy push stage: one evaluation = one simulated execution of 1-3 phases of 1-2 concurrent POST /api/push requests for 1-3 locally created models (shared layers, upload part size 64 B-16 KB so that blobs are uploaded in several PATCH/direct-PUT parts) against the simulated registry with tape-drawn upload faults (rejected parts, lost upload location, rejected commit, rejected manifest PUT, 5xx/429/connection errors, auth) and client interrupts; the simulated registry checks at every manifest PUT that every named layer has been committed with matching content",
			"C10": "API stage: one evaluation = one simulated execution in which 1-4 fault-derivatives of a valid GGUF file (truncation at a tape-drawn offset, flipped byte, 32/64-bit fields overwritten with boundary values, header counts overwritten) are uploaded with POST /api/blobs and used by POST /api/create, or written over the stored model file of a healthy model before POST /api/show, GET /api/tags and POST /api/create FROM; every request must be answered, no goroutine may panic (create decodes outside gin's recovery), and afterwards the server still lists models and creates a healthy one",
			"C04": "one evaluation = one simulated execution of a tape-drawn history of 5-80 API operations (blob upload, create from files, create FROM, copy, delete, pull from a fault-free simulated registry, restart with start-up prune) over a pool of 60 names that includes case variants, several tags, hosts and namespaces, with layers shared through identical content, FROM and copy; the statement is evaluated after every operation through GET /api/tags, POST /api/show and a digest/size walk of the store; non-trivial = at least two operations succeeded and two models coexisted; distinct = different hash of the decision sequence",
		},
		NonTrivial: func(prop string, r *verifsim.Result) bool {
			if prop == "C04" {
				return r.Info["op_ok"] >= 2 && r.Probes["two_models_coexist"] > 0
			}
			if prop == "C10" {
				return r.Probes["keeps_serving"] > 0
			}
			if prop == "C12" {
				return r.Info["enum_points_run"] > 0
			}
			return r.MaxRunnable >= 2 && r.Info["net_requests"] > 0
		},
		Assumptions: []string{"instrumentation preserves single-threaded semantics", "testing/synctest fake clock and quiescence detection",
			"the simulated registry follows the distribution protocol as the legacy client uses it (manifest GET, blob HEAD, 307 to a CDN, ranged GET, token auth)",
			"a manifest body damaged in transit is indistinguishable from a different published manifest for the legacy protocol; for such runs only digest-level checks are made"},
	})
}
