//go:build verif

package server

// Shared pieces of the package-server harnesses (overlay only).

import (
	"bytes"
	"context"
	"errors"
	"fmt"
	"io"
	"log/slog"
	"os"
	"path/filepath"
	"runtime"
	"strings"
	"time"

	"github.com/ollama/ollama/api"
	"github.com/ollama/ollama/discover"
	"github.com/ollama/ollama/fs/ggml"
	"github.com/ollama/ollama/llm"
	"github.com/ollama/ollama/verifsim"
)

// verifGetGPUInfo replaces the direct discover.GetGPUInfo() calls inside
// sched.go (instrumenter rewrite 9) so VRAM-recovery polling sees simulated GPUs.
var verifGetGPUInfo = func() discover.GpuInfoList { return discover.GpuInfoList{} }

func verifQuietLogs() {
	slog.SetDefault(slog.New(slog.NewTextHandler(io.Discard, &slog.HandlerOptions{Level: slog.LevelError + 8})))
}

func verifScratch() string {
	d := os.Getenv("VERIF_SCRATCH")
	if d == "" {
		d = os.TempDir()
	}
	return d
}

// verifWriteGGUF writes a tiny but real GGUF whose bytes are unique per tag.
func verifWriteGGUF(path string, tag string, blocks int, embedding bool) error {
	if err := os.MkdirAll(filepath.Dir(path), 0o755); err != nil {
		return err
	}
	f, err := os.Create(path)
	if err != nil {
		return err
	}
	defer f.Close()
	kv := ggml.KV{
		"general.architecture":          "llama",
		"general.name":                  "verif-" + tag,
		"llama.context_length":          uint32(4096),
		"llama.embedding_length":        uint32(4096),
		"llama.block_count":             uint32(blocks),
		"llama.attention.head_count":    uint32(32),
		"llama.attention.head_count_kv": uint32(32),
		"tokenizer.ggml.tokens":         []string{" "},
		"tokenizer.ggml.scores":         []float32{0},
		"tokenizer.ggml.token_type":     []int32{0},
	}
	if embedding {
		kv["llama.pooling_type"] = uint32(1)
	}
	if strings.HasSuffix(tag, "+chatml") {
		// a chat template the server recognises (template/index.json: chatml)
		kv["tokenizer.chat_template"] = "{% for message in messages %}{{'<|im_start|>' + message['role'] + '\n' + message['content'] + '<|im_end|>' + '\n'}}{% endfor %}{% if add_generation_prompt %}{{ '<|im_start|>assistant\n' }}{% endif %}"
	}
	var ts []ggml.Tensor
	for i := 0; i < blocks; i++ {
		ts = append(ts, ggml.Tensor{Name: fmt.Sprintf("blk.%d.attn.weight", i), Kind: 0, Shape: []uint64{8}, WriterTo: bytes.NewReader(make([]byte, 32))})
	}
	ts = append(ts, ggml.Tensor{Name: "output.weight", Kind: 0, Shape: []uint64{8}, WriterTo: bytes.NewReader(make([]byte, 32))})
	return ggml.WriteGGUF(f, kv, ts)
}

// ---- simulated runner --------------------------------------------------------------------

// simLlama implements llm.LlamaServer behind Scheduler.newServerFn. Its methods are
// //go:norace: under -race (H-api, C15) the stub's own bookkeeping must neither
// show up in race reports nor cost report processing.
type simLlama struct {
	w           *simLlamaWorld
	id          int
	model       string
	opts        api.Options
	numParallel int
	adapters    []string
	projectors  []string
	gpus        discover.GpuInfoList
	estimate    llm.MemoryEstimate

	loadOK  bool
	loadDur time.Duration
	running bool
	closed  int
	holders int
	closing bool

	createdAt time.Duration
	visibleAt time.Duration // the GPU inventory reports this runner's memory as used from then on (0 = at once)
	closedAt  time.Duration

	// completion script (H-api)
	script func(ctx context.Context, req llm.CompletionRequest, fn func(llm.CompletionResponse)) error

	inFlight []context.Context // Completion calls in progress
}

// simLlamaWorld is the part of a harness world the runner stub talks to.
type simLlamaWorld struct {
	srvs      []*simLlama
	fair      bool // drain phase: no more injected faults
	pingFail  int  // 1/n chance of a spurious health-check failure (0 = never)
	slowClose bool
	closeErr  int // 1/n of Close calls report an error (the process had already gone), 0 = never
	onClose   func(s *simLlama)
	onClosed  func(s *simLlama) // called when Close is about to return (teardown complete)
	// onCloseInUse is called when Close starts while a Completion whose request context is
	// still live is in progress on the runner (C01 seen from the HTTP layer)
	onCloseInUse func(s *simLlama, n int)
	// tokenizeErr lets a harness fail a Tokenize call (the runner went away)
	tokenizeErr func(content string) error
	now         func() time.Duration
}

//go:norace
func (w *simLlamaWorld) live() []*simLlama {
	var l []*simLlama
	for _, s := range w.srvs {
		if s.closed == 0 {
			l = append(l, s)
		}
	}
	return l
}

//go:norace
func (s *simLlama) Ping(ctx context.Context) error {
	verifsim.Yield("sim:ping")
	if s.closed > 0 || !s.running {
		return errors.New("sim: runner is not running")
	}
	if !s.w.fair && s.w.pingFail > 0 && verifsim.Draw("ping", s.w.pingFail) == 0 {
		verifsim.Fault("ping_fail")
		return errors.New("sim: health check failed")
	}
	return nil
}

//go:norace
func (s *simLlama) WaitUntilRunning(ctx context.Context) error {
	verifsim.Yield("sim:load-start")
	t := time.NewTimer(s.loadDur)
	defer t.Stop()
	select {
	case <-t.C:
	case <-ctx.Done():
	}
	verifsim.Yield("sim:load-done")
	if err := ctx.Err(); err != nil {
		// which of the two fired is decided by state, not by select's coin
		verifsim.Probe("cancel_while_loading")
		return err
	}
	if !s.loadOK {
		verifsim.Fault("load_fail")
		verifsim.Probe("load_fail")
		return errors.New("sim: llama runner process has terminated: load failed")
	}
	s.running = true
	return nil
}

//go:norace
func (s *simLlama) Completion(ctx context.Context, req llm.CompletionRequest, fn func(llm.CompletionResponse)) error {
	// C01 at the HTTP level: a completion whose request context is still live is a request
	// in progress on this runner (see Close)
	s.inFlight = append(s.inFlight, ctx)
	defer s.callDone(ctx)
	if s.script != nil {
		return s.script(ctx, req, fn)
	}
	return nil
}

//go:norace
func (s *simLlama) callDone(ctx context.Context) {
	for i, c := range s.inFlight {
		if c == ctx {
			s.inFlight = append(s.inFlight[:i], s.inFlight[i+1:]...)
			return
		}
	}
}

// liveCalls is the number of calls in progress on this runner whose request has not ended.
//
//go:norace
func (s *simLlama) liveCalls() int {
	n := 0
	for _, c := range s.inFlight {
		if c.Err() == nil {
			n++
		}
	}
	return n
}

//go:norace
func (s *simLlama) Embedding(ctx context.Context, input string) ([]float32, error) {
	verifsim.Yield("sim:embedding")
	if s.closed > 0 {
		return nil, errors.New("sim: runner closed")
	}
	return []float32{0.1, 0.2, 0.3}, nil
}

//go:norace
func (s *simLlama) Tokenize(ctx context.Context, content string) ([]int, error) {
	verifsim.Yield("sim:tokenize")
	if s.closed > 0 {
		return nil, errors.New("sim: runner closed")
	}
	if s.w.tokenizeErr != nil {
		if err := s.w.tokenizeErr(content); err != nil {
			return nil, err
		}
	}
	toks := make([]int, 0, len(content)/4+1)
	for i := 0; i < len(content); i += 4 {
		toks = append(toks, int(content[i]))
	}
	return toks, nil
}
func (s *simLlama) Detokenize(ctx context.Context, tokens []int) (string, error) {
	verifsim.Yield("sim:detokenize")
	var sb strings.Builder
	for _, t := range tokens {
		sb.WriteByte(byte(t))
	}
	return sb.String(), nil
}

//go:norace
func (s *simLlama) Close() error {
	verifsim.Yield("sim:close")
	if n := s.liveCalls(); n > 0 && s.w.onCloseInUse != nil {
		s.w.onCloseInUse(s, n)
	}
	s.closed++
	s.running = false
	if s.w.now != nil {
		s.closedAt = s.w.now()
	}
	if s.w.onClose != nil {
		s.w.onClose(s)
	}
	if s.w.slowClose {
		// an observer may run between "closed" and "removed from the table"
		verifsim.Yield("sim:close-mid")
	}
	if s.w.onClosed != nil {
		s.w.onClosed(s)
	}
	if s.w.closeErr > 0 && verifsim.Draw("close-err", s.w.closeErr) == 0 {
		// what llmServer.Close returns when the runner process had exited by itself
		verifsim.Fault("runner_close_error")
		return errors.New("os: process already finished")
	}
	return nil
}

//go:norace
func (s *simLlama) EstimatedVRAM() uint64 { return s.estimate.VRAMSize }

//go:norace
func (s *simLlama) EstimatedTotal() uint64 { return s.estimate.TotalSize }

//go:norace
func (s *simLlama) EstimatedVRAMByGPU(gpuID string) uint64 {
	for i, g := range s.gpus {
		if g.ID == gpuID && i < len(s.estimate.GPUSizes) {
			return s.estimate.GPUSizes[i]
		}
	}
	return 0
}

// callerRepoFunc names the repository function that (indirectly) called the
// function calling callerRepoFunc, for violation signatures.
func callerRepoFunc() string {
	buf := make([]byte, 16384)
	buf = buf[:runtime.Stack(buf, false)]
	return verifsim.StackRepoFunc(string(buf))
}

// ---- simulated GPU inventory ---------------------------------------------------------

type simGPU struct {
	info   discover.GpuInfo
	total  uint64
	lagged uint64 // memory of closed runners not yet reported free again
}

type simInventory struct {
	gpus []*simGPU
	cpu  discover.GpuInfo
	w    *simLlamaWorld
}

//go:norace
func (inv *simInventory) used(id string) uint64 {
	var u uint64
	for _, s := range inv.w.live() {
		if s.visibleAt > 0 && inv.w.now != nil && inv.w.now() < s.visibleAt {
			// the device does not report this runner's allocation yet
			continue
		}
		u += s.EstimatedVRAMByGPU(id)
	}
	return u
}

//go:norace
func (inv *simInventory) list() discover.GpuInfoList {
	var l discover.GpuInfoList
	for _, g := range inv.gpus {
		gi := g.info
		gi.TotalMemory = g.total
		u := inv.used(gi.ID) + g.lagged
		if u > g.total {
			u = g.total
		}
		gi.FreeMemory = g.total - u
		l = append(l, gi)
	}
	return l
}

func (inv *simInventory) cpuList() discover.GpuInfoList {
	return discover.GpuInfoList{inv.cpu}
}
