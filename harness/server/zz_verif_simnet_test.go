//go:build verif

package server

// Simulated network for the legacy registry client (images.go, download.go,
// upload.go, auth.go): an http.RoundTripper behind http.DefaultTransport that
// plays registry, CDN and auth server with real protocol state and injects
// faults drawn from the tape. No socket is opened. DESIGN.md 3.6.

import (
	"bytes"
	"context"
	"crypto/sha256"
	"encoding/json"
	"errors"
	"fmt"
	"io"
	"net/http"
	"sort"
	"strconv"
	"strings"
	"time"

	"github.com/ollama/ollama/verifsim"
)

const (
	simRegHost  = "registry.sim"
	simCDNHost  = "cdn.sim"
	simAuthHost = "auth.sim"
)

// fault kinds (each is counted with verifsim.Fault when it actually fires)
const (
	fConnError      = "net_conn_error"
	f5xx            = "net_5xx"
	f429            = "net_429"
	f404            = "net_404"
	f401Malformed   = "net_401_malformed_challenge"
	fTokenError     = "net_token_endpoint_error"
	fRedirectChain  = "net_redirect_same_host_chain"
	fRedirectLoop   = "net_redirect_too_many"
	fRedirectNoLoc  = "net_redirect_no_location"
	fHeadWrongLen   = "net_head_wrong_content_length"
	fHeadNoLen      = "net_head_missing_content_length"
	fRangeIgnored   = "net_range_ignored"
	fShortBody      = "net_short_body"
	fReset          = "net_reset_mid_body"
	fFlip           = "net_flipped_byte"
	fStall          = "net_stall"
	fManifestGarble = "net_manifest_garbled"
)

var allNetFaults = []string{fConnError, f5xx, f429, f404, f401Malformed, fTokenError, fRedirectChain, fRedirectLoop, fRedirectNoLoc,
	fHeadWrongLen, fHeadNoLen, fRangeIgnored, fShortBody, fReset, fFlip, fStall, fManifestGarble}

// faultPlan is the per-run swarm configuration of the network.
type faultPlan struct {
	enabled map[string]bool
	rate    int // one request in `rate` is faulted (0 = fault-free)
	off     bool
	budget  int // remaining faults of this run (keeps runs making progress)
}

func drawFaultPlan() *faultPlan {
	p := &faultPlan{enabled: map[string]bool{}}
	if verifsim.Draw("net-faultfree", 5) == 0 {
		return p
	}
	p.rate = []int{2, 3, 5, 8, 12}[verifsim.Draw("net-rate", 5)]
	p.budget = 1 + verifsim.Draw("net-budget", 12)
	// swarm: each run enables a random subset of kinds
	n := 0
	for _, k := range allNetFaults {
		if verifsim.Draw("net-kind", 3) == 0 {
			p.enabled[k] = true
			n++
		}
	}
	if n == 0 {
		p.enabled[allNetFaults[verifsim.Draw("net-kind1", len(allNetFaults))]] = true
	}
	return p
}

func (p *faultPlan) String() string {
	if p.rate == 0 {
		return "fault-free"
	}
	var ks []string
	for k := range p.enabled {
		ks = append(ks, strings.TrimPrefix(k, "net_"))
	}
	sort.Strings(ks)
	return fmt.Sprintf("1/%d of requests, at most %d faults, kinds %v", p.rate, p.budget, ks)
}

// pick returns one of the candidate kinds that fires for this request, or "".
func (p *faultPlan) pick(cands ...string) string {
	if p == nil || p.off || p.rate == 0 || p.budget <= 0 {
		return ""
	}
	var en []string
	for _, c := range cands {
		if p.enabled[c] {
			en = append(en, c)
		}
	}
	if len(en) == 0 {
		return ""
	}
	if verifsim.Draw("net-fault?", p.rate) != 0 {
		return ""
	}
	k := en[verifsim.Draw("net-which", len(en))]
	p.budget--
	verifsim.Fault(k)
	return k
}

// simRegistry is registry + CDN + auth.
type simRegistry struct {
	blobs     map[string][]byte // digest ("sha256:hex") -> content
	manifests map[string][]byte // "ns/repo:tag" -> manifest bytes as published
	needAuth  bool
	token     string
	plan      *faultPlan
	now       func() time.Duration
	log       []string
	nreq      int
	served    map[string][]byte // "ns/repo:tag" -> manifest bytes last delivered intact to a client
	tampered  map[string]bool   // names for which a garbled manifest body was delivered at least once
	frozenFn  func() bool
	foldCase  bool // repository names and tags are case-insensitive

	// push side
	uploads   map[string]*simUpload
	nextUp    int
	pushLog   []string
	onPutMan  func(name string, body []byte)
	committed map[string]bool // digests whose upload was committed (or that existed before)
	// perRepo: a blob is visible in a repository only after it was uploaded to it, mounted
	// into it or published in it (what registries do); repoHas["ns/repo"][digest]
	perRepo bool
	repoHas map[string]map[string]bool
}

type simUpload struct {
	id     string
	repo   string
	data   map[int64][]byte // offset -> chunk
	reject bool             // the registry rejects every commit of this upload session
}

func newSimRegistry(now func() time.Duration) *simRegistry {
	return &simRegistry{blobs: map[string][]byte{}, manifests: map[string][]byte{}, served: map[string][]byte{}, tampered: map[string]bool{},
		now: now, token: "tok-1", uploads: map[string]*simUpload{}, committed: map[string]bool{}, repoHas: map[string]map[string]bool{}}
}

func (r *simRegistry) logf(f string, a ...any) {
	if len(r.log) < 400 {
		r.log = append(r.log, fmt.Sprintf("t=%v ", r.now())+fmt.Sprintf(f, a...))
	}
}

// has reports whether the repository can see the blob.
func (r *simRegistry) has(repo, digest string) bool {
	if _, ok := r.blobs[digest]; !ok {
		return false
	}
	return !r.perRepo || r.repoHas[repo][digest]
}

func (r *simRegistry) grant(repo, digest string) {
	if r.repoHas[repo] == nil {
		r.repoHas[repo] = map[string]bool{}
	}
	r.repoHas[repo][digest] = true
}

func sha256Digest(b []byte) string { return fmt.Sprintf("sha256:%x", sha256.Sum256(b)) }

// addBlob publishes a blob and returns its digest.
func (r *simRegistry) addBlob(b []byte) string {
	d := sha256Digest(b)
	r.blobs[d] = b
	r.committed[d] = true
	return d
}

func simResp(req *http.Request, code int, hdr http.Header, body io.ReadCloser, n int64) *http.Response {
	if hdr == nil {
		hdr = http.Header{}
	}
	if body == nil {
		body = http.NoBody
	}
	return &http.Response{Status: strconv.Itoa(code) + " " + http.StatusText(code), StatusCode: code, Proto: "HTTP/1.1", ProtoMajor: 1, ProtoMinor: 1,
		Header: hdr, Body: body, ContentLength: n, Request: req}
}

func simText(req *http.Request, code int, s string) *http.Response {
	return simResp(req, code, http.Header{"Content-Length": {strconv.Itoa(len(s))}}, &simBody{ctx: req.Context(), data: []byte(s), end: len(s)}, int64(len(s)))
}

// RoundTrip implements http.RoundTripper.
func (r *simRegistry) RoundTrip(req *http.Request) (*http.Response, error) {
	verifsim.Yield("sim:net-request")
	if verifsim.Dead() || (r.frozenFn != nil && r.frozenFn()) {
		return nil, errors.New("sim: network down (process is dead)")
	}
	if err := req.Context().Err(); err != nil {
		return nil, err
	}
	r.nreq++
	// latency
	if verifsim.Draw("net-latency?", 3) == 0 {
		simSleepCtx(req.Context(), time.Duration(1+verifsim.Draw("net-latency", 200))*time.Millisecond)
		if err := req.Context().Err(); err != nil {
			return nil, err
		}
		if verifsim.Dead() {
			return nil, errors.New("sim: network down (process is dead)")
		}
	}
	var reqBody []byte
	if req.Body != nil && req.Body != http.NoBody {
		b, err := io.ReadAll(req.Body)
		req.Body.Close()
		if err != nil {
			return nil, err
		}
		reqBody = b
	}
	resp, err := r.route(req, reqBody)
	if err != nil {
		r.logf("%s %s%s -> error %v", req.Method, req.URL.Host, req.URL.Path, err)
		return nil, err
	}
	r.logf("%s %s%s %s -> %d", req.Method, req.URL.Host, req.URL.Path, req.Header.Get("Range"), resp.StatusCode)
	return resp, nil
}

func (r *simRegistry) route(req *http.Request, body []byte) (*http.Response, error) {
	switch req.URL.Hostname() {
	case simRegHost:
		return r.registry(req, body)
	case simCDNHost:
		return r.cdn(req, body)
	case simAuthHost:
		return r.auth(req)
	}
	return nil, fmt.Errorf("sim: dial tcp: lookup %s: no such host", req.URL.Hostname())
}

var malformedChallenges = []string{
	`Bearer realm=`,
	`Bearer realm="https://auth.sim/token",service=`,
	`Bearer realm="https://auth.sim/token",service="registry.sim",scope=`,
	`Bearer realm="https://auth.sim/token`,
	`Bearer service="registry.sim"`,
	`Bearer realm="",service="",scope=""`,
	`Bearer realm="https://auth.sim/token",realm="https://auth.sim/other",scope="a b c"`,
	`Bearer scope="repository:x:pull",realm="://bad url",service="s"`,
	`realm`,
	``,
	`Bearer realm="https://auth.sim/token"x,service="registry.sim"`,
	`Basic realm="registry"`,
	`Bearer realm="https://auth.sim/token",service="registry.sim",scope="repository:lib/m:pull"`,
}

func (r *simRegistry) registry(req *http.Request, body []byte) (*http.Response, error) {
	p := strings.Split(strings.TrimPrefix(req.URL.Path, "/v2/"), "/")
	if !strings.HasPrefix(req.URL.Path, "/v2/") || len(p) < 4 {
		return simText(req, 404, `{"errors":[{"code":"NOT_FOUND"}]}`), nil
	}
	switch k := r.plan.pick(fConnError, f5xx, f429); k {
	case fConnError:
		return nil, errors.New("sim: dial tcp registry.sim:443: connection refused")
	case f5xx:
		return simText(req, []int{500, 502, 503}[verifsim.Draw("5xx", 3)], `{"errors":[{"code":"INTERNAL","message":"injected"}]}`), nil
	case f429:
		return simText(req, 429, `{"errors":[{"code":"TOOMANYREQUESTS"}]}`), nil
	}
	if k := r.plan.pick(f401Malformed); k != "" {
		h := http.Header{"Www-Authenticate": {malformedChallenges[verifsim.Draw("challenge", len(malformedChallenges))]}}
		return simResp(req, 401, h, nil, 0), nil
	}
	if r.needAuth && req.Header.Get("Authorization") != "Bearer "+r.token {
		verifsim.Probe("auth_challenge")
		repo := strings.Join(p[:2], "/")
		h := http.Header{"Www-Authenticate": {fmt.Sprintf(`Bearer realm="https://%s/token",service="%s",scope="repository:%s:pull"`, simAuthHost, simRegHost, repo)}}
		return simResp(req, 401, h, nil, 0), nil
	}
	repo := p[0] + "/" + p[1]
	kind := p[2]
	rest := strings.Join(p[3:], "/")
	if r.foldCase {
		repo = strings.ToLower(repo)
		if kind == "manifests" {
			rest = strings.ToLower(rest)
		}
	}
	switch {
	case kind == "manifests" && req.Method == http.MethodGet:
		name := repo + ":" + rest
		m, ok := r.manifests[name]
		if !ok || r.plan.pick(f404) != "" {
			return simText(req, 404, `{"errors":[{"code":"MANIFEST_UNKNOWN"}]}`), nil
		}
		b := &simBody{ctx: req.Context(), data: m, end: len(m), plan: r.plan, kinds: []string{fShortBody, fReset, fStall}}
		if r.plan.pick(fManifestGarble) != "" {
			// a manifest body damaged in transit: nothing in the legacy protocol can detect it
			g := append([]byte(nil), m...)
			if n := bytes.Count(g, []byte(`"sha256:`)); n > 0 && verifsim.Draw("garble-spelling", 4) == 0 {
				// the other spelling of one digest (GetBlobsPath takes sha256-<hex> as
				// well): the same blob under a different name
				verifsim.Probe("manifest_digest_dash_spelling")
				k := verifsim.Draw("garble-which", n)
				at := 0
				for i := 0; i <= k; i++ {
					at += bytes.Index(g[at:], []byte(`"sha256:`)) + 1
				}
				g[at+len("sha256")] = '-'
			} else if len(g) > 0 {
				g[verifsim.Draw("garble-pos", len(g))] ^= byte(1 + verifsim.Draw("garble-bit", 255))
			}
			b.data = g
			r.tampered[name] = true
		} else {
			r.served[name] = m
		}
		return simResp(req, 200, http.Header{"Content-Type": {"application/vnd.docker.distribution.manifest.v2+json"}, "Content-Length": {strconv.Itoa(len(m))}}, b, int64(len(m))), nil
	case kind == "manifests" && req.Method == http.MethodPut:
		name := repo + ":" + rest
		if r.plan.pick("net_manifest_put_rejected") != "" {
			return simText(req, 500, `{"errors":[{"code":"INTERNAL","message":"injected"}]}`), nil
		}
		if r.onPutMan != nil {
			r.onPutMan(name, body)
		}
		r.manifests[name] = body
		return simResp(req, 201, nil, nil, 0), nil
	case kind == "blobs" && rest != "" && !strings.HasPrefix(rest, "uploads"):
		rest = strings.Replace(rest, "sha256-", "sha256:", 1)
		data, ok := r.blobs[rest]
		if ok && !r.has(repo, rest) {
			ok = false
		}
		if !ok || r.plan.pick(f404) != "" {
			return simText(req, 404, `{"errors":[{"code":"BLOB_UNKNOWN"}]}`), nil
		}
		if req.Method == http.MethodHead {
			h := http.Header{"Content-Length": {strconv.Itoa(len(data))}, "Docker-Content-Digest": {rest}}
			switch r.plan.pick(fHeadWrongLen, fHeadNoLen) {
			case fHeadWrongLen:
				n := len(data)
				switch verifsim.Draw("wronglen", 4) {
				case 0:
					n += 1 + verifsim.Draw("wronglen-d", 5000)
				case 1:
					n -= 1 + verifsim.Draw("wronglen-d", n+1)
					if n < 0 {
						n = 0
					}
				case 2:
					n = 0
				case 3:
					n = n*2 + 1
				}
				h.Set("Content-Length", strconv.Itoa(n))
			case fHeadNoLen:
				h.Del("Content-Length")
			}
			return simResp(req, 200, h, nil, int64(len(data))), nil
		}
		// GET: the registry redirects to the CDN
		hop, _ := strconv.Atoi(req.URL.Query().Get("hop"))
		switch k := r.plan.pick(fRedirectChain, fRedirectLoop, fRedirectNoLoc); {
		case k == fRedirectNoLoc:
			return simResp(req, 307, nil, nil, 0), nil
		case k == fRedirectLoop || req.URL.Query().Get("loop") == "1":
			return simResp(req, 307, http.Header{"Location": {fmt.Sprintf("https://%s%s?loop=1&hop=%d", simRegHost, req.URL.Path, hop+1)}}, nil, 0), nil
		case k == fRedirectChain || (hop > 0 && hop < 3):
			return simResp(req, 307, http.Header{"Location": {fmt.Sprintf("https://%s%s?hop=%d", simRegHost, req.URL.Path, hop+1)}}, nil, 0), nil
		}
		verifsim.Probe("redirect_cdn")
		return simResp(req, 307, http.Header{"Location": {fmt.Sprintf("https://%s/blobs/%s?sig=%d", simCDNHost, rest, r.nreq)}}, nil, 0), nil
	case kind == "blobs" && strings.HasPrefix(rest, "uploads"):
		return r.upload(req, repo, rest, body)
	}
	return simText(req, 404, `{"errors":[{"code":"NOT_FOUND"}]}`), nil
}

func parseRange(h string, n int) (lo, hi int, ok bool) {
	if !strings.HasPrefix(h, "bytes=") {
		return 0, 0, false
	}
	a, b, found := strings.Cut(strings.TrimPrefix(h, "bytes="), "-")
	if !found {
		return 0, 0, false
	}
	lo, err := strconv.Atoi(a)
	if err != nil {
		return 0, 0, false
	}
	hi = n - 1
	if b != "" {
		if hi, err = strconv.Atoi(b); err != nil {
			return 0, 0, false
		}
	}
	if hi >= n {
		hi = n - 1
	}
	return lo, hi, true
}

func (r *simRegistry) cdn(req *http.Request, body []byte) (*http.Response, error) {
	if req.Method == http.MethodPut {
		return r.cdnPut(req, body)
	}
	digest := strings.TrimPrefix(req.URL.Path, "/blobs/")
	data, ok := r.blobs[digest]
	switch k := r.plan.pick(fConnError, f5xx, f404); {
	case k == fConnError:
		return nil, errors.New("sim: read tcp cdn.sim:443: connection reset by peer")
	case k == f5xx:
		return simText(req, 503, "injected"), nil
	case k == f404 || !ok:
		return simText(req, 404, "not found"), nil
	}
	n := len(data)
	lo, hi, ranged := parseRange(req.Header.Get("Range"), n)
	bodyKinds := []string{fShortBody, fReset, fFlip, fStall}
	if !ranged || r.plan.pick(fRangeIgnored) != "" {
		b := &simBody{ctx: req.Context(), data: data, end: n, plan: r.plan, kinds: bodyKinds}
		return simResp(req, 200, http.Header{"Content-Length": {strconv.Itoa(n)}}, b, int64(n)), nil
	}
	if lo >= n || lo > hi {
		return simResp(req, 416, http.Header{"Content-Range": {fmt.Sprintf("bytes */%d", n)}}, nil, 0), nil
	}
	b := &simBody{ctx: req.Context(), data: data, pos: lo, end: hi + 1, plan: r.plan, kinds: bodyKinds}
	h := http.Header{"Content-Length": {strconv.Itoa(hi + 1 - lo)}, "Content-Range": {fmt.Sprintf("bytes %d-%d/%d", lo, hi, n)}}
	return simResp(req, 206, h, b, int64(hi+1-lo)), nil
}

func (r *simRegistry) auth(req *http.Request) (*http.Response, error) {
	if k := r.plan.pick(fTokenError); k != "" {
		switch verifsim.Draw("token-err", 4) {
		case 0:
			return simText(req, 500, "injected"), nil
		case 1:
			return simText(req, 200, `{"token":`), nil
		case 2:
			return simText(req, 401, ``), nil
		default:
			return nil, errors.New("sim: dial tcp auth.sim:443: i/o timeout")
		}
	}
	if req.URL.Path != "/token" || req.Header.Get("Authorization") == "" {
		return simText(req, 401, `{"error":"unauthorized"}`), nil
	}
	b, _ := json.Marshal(map[string]string{"token": r.token})
	return simText(req, 200, string(b)), nil
}

// simBody is a response body: every Read is a pre-emption point and a fault point.
type simBody struct {
	ctx    context.Context
	data   []byte
	pos    int
	end    int
	plan   *faultPlan
	kinds  []string
	closed bool
	cut    int // >0: deliver up to this position, then fail with cutErr
	cutErr error
	flipAt int
	flip   bool
	armed  bool
}

func simSleepCtx(ctx context.Context, d time.Duration) {
	t := time.NewTimer(d)
	select {
	case <-t.C:
	case <-ctx.Done():
		t.Stop()
	}
	verifsim.Yield("sim:net-wake")
}

func (b *simBody) Read(p []byte) (int, error) {
	verifsim.Yield("sim:net-read")
	if verifsim.Dead() {
		return 0, errors.New("sim: network down (process is dead)")
	}
	if b.closed {
		return 0, errors.New("http: read on closed response body")
	}
	if err := b.ctx.Err(); err != nil {
		return 0, err
	}
	if !b.armed {
		b.armed = true
		if b.end-b.pos > 0 {
			switch b.plan.pick(b.kinds...) {
			case fShortBody:
				b.cut, b.cutErr = b.pos+verifsim.Draw("cut", b.end-b.pos), io.ErrUnexpectedEOF
			case fReset:
				b.cut, b.cutErr = b.pos+verifsim.Draw("cut", b.end-b.pos), errors.New("sim: read tcp: connection reset by peer")
			case fFlip:
				b.flip, b.flipAt = true, b.pos+verifsim.Draw("flip", b.end-b.pos)
			case fStall:
				// the connection goes quiet for longer than the part stall detector tolerates
				simSleepCtx(b.ctx, time.Duration(31+verifsim.Draw("stall-s", 90))*time.Second)
				if err := b.ctx.Err(); err != nil {
					return 0, err
				}
				if verifsim.Dead() {
					return 0, errors.New("sim: network down (process is dead)")
				}
			}
		}
	}
	if len(p) == 0 {
		return 0, nil
	}
	limit := b.end
	if b.cutErr != nil && b.cut < limit {
		limit = b.cut
	}
	if b.pos >= limit {
		if b.cutErr != nil {
			return 0, b.cutErr
		}
		return 0, io.EOF
	}
	n := limit - b.pos
	if n > len(p) {
		n = len(p)
	}
	// deliver a tape-chosen number of bytes so that write boundaries fall everywhere
	if n > 1 && verifsim.Draw("net-frag?", 2) == 0 {
		n = 1 + verifsim.Draw("net-frag", n)
	}
	copy(p, b.data[b.pos:b.pos+n])
	if b.flip && b.flipAt >= b.pos && b.flipAt < b.pos+n {
		p[b.flipAt-b.pos] ^= 0x40
	}
	b.pos += n
	if verifsim.Draw("net-slow?", 6) == 0 {
		simSleepCtx(b.ctx, time.Duration(1+verifsim.Draw("net-slow", 3000))*time.Millisecond)
	}
	return n, nil
}

func (b *simBody) Close() error {
	b.closed = true
	return nil
}

// ---- push side ------------------------------------------------------------------------

func (r *simRegistry) upload(req *http.Request, repo, rest string, body []byte) (*http.Response, error) {
	// POST /v2/<repo>/blobs/uploads/            -> 202 Location: /v2/<repo>/blobs/uploads/<id>
	// PATCH <location> (Content-Range)          -> 202 Location
	// PUT <location>?digest=...                 -> 201
	id := strings.Trim(strings.TrimPrefix(rest, "uploads"), "/")
	switch req.Method {
	case http.MethodPost:
		if from := req.URL.Query().Get("from"); from != "" {
			// cross-repository mount
			d := req.URL.Query().Get("mount")
			if r.has(strings.ToLower(from), d) || (!r.perRepo && r.blobs[d] != nil) {
				verifsim.Probe("upload_mounted")
				r.grant(repo, d)
				return simResp(req, 201, nil, nil, 0), nil
			}
		}
		r.nextUp++
		u := &simUpload{id: "up" + strconv.Itoa(r.nextUp), repo: repo, data: map[int64][]byte{}}
		r.uploads[u.id] = u
		loc := fmt.Sprintf("https://%s/v2/%s/blobs/uploads/%s", simRegHost, repo, u.id)
		return simResp(req, 202, http.Header{"Location": {loc}, "Docker-Upload-Location": {loc}}, nil, 0), nil
	case http.MethodPatch:
		u := r.uploads[id]
		if u == nil {
			return simText(req, 404, "unknown upload"), nil
		}
		var lo int64
		if cr := req.Header.Get("Content-Range"); cr != "" {
			a, _, _ := strings.Cut(cr, "-")
			lo, _ = strconv.ParseInt(strings.TrimPrefix(a, "bytes "), 10, 64)
		}
		next := fmt.Sprintf("https://%s/v2/%s/blobs/uploads/%s?part=%d", simRegHost, u.repo, u.id, len(u.data)+1)
		switch r.plan.pick("net_upload_part_rejected", "net_upload_location_lost") {
		case "net_upload_part_rejected":
			return simText(req, 500, `{"errors":[{"code":"INTERNAL","message":"injected"}]}`), nil
		case "net_upload_location_lost":
			// the part is stored but the response does not say where the next one goes
			u.data[lo] = body
			return simResp(req, 202, nil, nil, 0), nil
		}
		if req.Header.Get("X-Redirect-Uploads") == "1" && verifsim.Draw("upload-redirect", 2) == 0 {
			// direct upload: the part goes to the CDN, the next PATCH to the registry
			verifsim.Probe("upload_redirected")
			loc := fmt.Sprintf("https://%s/upload/%s?off=%d", simCDNHost, u.id, lo)
			return simResp(req, 307, http.Header{"Location": {loc}, "Docker-Upload-Location": {next}}, nil, 0), nil
		}
		u.data[lo] = body
		return simResp(req, 202, http.Header{"Location": {next}, "Docker-Upload-Location": {next}}, nil, 0), nil
	case http.MethodPut:
		u := r.uploads[id]
		if u == nil {
			return simText(req, 404, "unknown upload"), nil
		}
		d := req.URL.Query().Get("digest")
		if u.reject {
			verifsim.Probe("commit_rejected_persistently")
			return simText(req, 400, `{"errors":[{"code":"DIGEST_INVALID","message":"injected, persistent"}]}`), nil
		}
		if r.plan.pick("net_upload_commit_rejected") != "" {
			// a registry that does not accept the assembled blob keeps saying so
			u.reject = verifsim.Draw("commit-reject-sticky", 2) == 0
			return simText(req, []int{500, 400}[verifsim.Draw("commit-reject", 2)], `{"errors":[{"code":"BLOB_UPLOAD_INVALID","message":"injected"}]}`), nil
		}
		var offs []int64
		for o := range u.data {
			offs = append(offs, o)
		}
		sort.Slice(offs, func(i, j int) bool { return offs[i] < offs[j] })
		var buf bytes.Buffer
		for _, o := range offs {
			if int64(buf.Len()) != o {
				return simText(req, 400, fmt.Sprintf(`{"errors":[{"code":"BLOB_UPLOAD_INVALID","message":"gap at %d"}]}`, buf.Len())), nil
			}
			buf.Write(u.data[o])
		}
		if sha256Digest(buf.Bytes()) != d {
			return simText(req, 400, `{"errors":[{"code":"DIGEST_INVALID"}]}`), nil
		}
		r.blobs[d] = buf.Bytes()
		r.committed[d] = true
		r.grant(u.repo, d)
		delete(r.uploads, id)
		return simResp(req, 201, nil, nil, 0), nil
	}
	return simText(req, 405, "method not allowed"), nil
}

func (r *simRegistry) cdnPut(req *http.Request, body []byte) (*http.Response, error) {
	id := strings.TrimPrefix(req.URL.Path, "/upload/")
	u := r.uploads[id]
	if u == nil {
		return simText(req, 404, "unknown upload"), nil
	}
	off, _ := strconv.ParseInt(req.URL.Query().Get("off"), 10, 64)
	switch r.plan.pick(fConnError, f5xx) {
	case fConnError:
		return nil, errors.New("sim: write tcp cdn.sim:443: broken pipe")
	case f5xx:
		return simText(req, 503, "injected"), nil
	}
	u.data[off] = body
	return simResp(req, 201, http.Header{"Etag": {fmt.Sprintf("etag-%d", off)}}, nil, 0), nil
}
