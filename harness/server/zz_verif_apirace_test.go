//go:build verif

package server

import (
	"testing"

	"github.com/ollama/ollama/verifsim"
)

func TestVerifAPIRace(t *testing.T) {
	verifQuietLogs()
	_ = verifsim.RaceBuild
	t.Skip("not yet")
}
