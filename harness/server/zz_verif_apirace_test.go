//go:build verif

package server

// C15 — concurrent API use: no data race, no panic, no torn view of running
// models (DESIGN.md section 5 C15, 3.4). Built with -race (harness "apirace").
//
// 3-10 client tasks issue a tape-drawn mix of generate, chat, embed, embeddings,
// ps, tags, show, create, copy, delete, blob upload/head, unload and a few /v1
// requests against one server instance (real router, real Scheduler over
// simLlama, real store). Oracles:
//  (a) the Go race detector as a schedule-independent happens-before oracle: the
//      kernel's hand-offs are invisible to it, so two accesses not ordered by the
//      code's own synchronisation are reported although they ran one after the
//      other; reports are read from the GORACE log after the run and filtered to
//      those whose two accesses are both in repository code (detsim/racelog.go);
//  (b) panics: gin's Recovery output is captured (a recovered panic is a
//      violation), goroutines spawned by instrumented code are covered by the
//      kernel's Done capture;
//  (c) ps view: every /api/ps answers 200 and every model it lists had a runner
//      that was alive (started, Close not yet finished) at some instant between
//      the request's invocation and its return.

import (
	"context"
	"crypto/sha256"
	"encoding/json"
	"fmt"
	"net/http"
	"os"
	"strconv"
	"strings"
	"sync/atomic"
	"testing"
	"time"

	"github.com/ollama/ollama/api"
	"github.com/ollama/ollama/llm"
	"github.com/ollama/ollama/openai"
	"github.com/ollama/ollama/verifsim"
)

type c15World struct {
	*apiWorld
	nClients int
	nOps     int
	done     int
	setupErr string
	ready    bool
	opN      [len(c15OpNames)][6]int // [operation][status/100]
	extra    [][]byte                // small non-model blobs clients may upload

	remote    *apiFamily // model published on the simulated registry (nil: none this run)
	pullBurst bool       // every client starts by pulling it: concurrent pulls share one download
}

var c15OpNames = [...]string{"generate", "chat", "embed", "embeddings", "ps", "tags", "show", "create", "copy", "delete", "blob-upload", "blob-head",
	"unload-or-load", "v1-chat", "v1-models", "v1-embeddings", "version", "pull", "push"}

// Harness bookkeeping shared between tasks lives in arrays touched from
// //go:norace functions (no maps, no growing slices): it must not appear in race
// reports and must not cost report processing.

// completion for C15: a short scripted answer in a few fragments.
func (cw *c15World) completion(ctx context.Context, req llm.CompletionRequest, fn func(llm.CompletionResponse)) error {
	verifsim.Yield("sim:completion")
	out := []string{"hello ", "wonderful ", `{"name":"get_weather","arguments":{"city":"Paris"}}`, " world"}
	n := 1 + verifsim.Draw("c15-frags", len(out))
	if n >= 3 {
		// what models really emit where a tool call is expected: arguments as a string of
		// JSON (the OpenAI shape), null, a list, a number; a name that is not a string
		odd := []string{out[2], out[2], `{"name":"get_weather","arguments":"{\"city\":\"Paris\"}"}`, `{"name":"get_weather","arguments":null}`,
			`{"name":"get_weather","arguments":["Paris"]}`, `{"name":"get_weather","arguments":7}`, `{"name":null,"arguments":{"city":"Paris"}}`, `{"name":"get_weather"}`}
		out[2] = odd[verifsim.Draw("c15-call-shape", len(odd))]
	}
	for i := 0; i < n; i++ {
		verifsim.Sleep(time.Duration(verifsim.Draw("lat", 30)) * time.Millisecond)
		if err := ctx.Err(); err != nil {
			// the caller has gone. The real client (llm.Completion) tests the context and
			// delivers the line it has just read in two steps: one more fragment may arrive
			// after the cancellation
			if verifsim.Draw("c15-frag-in-flight", 2) == 0 {
				verifsim.Probe("c15_fragment_after_cancel")
				fn(llm.CompletionResponse{Content: out[i]})
			}
			return err
		}
		fn(llm.CompletionResponse{Content: out[i]})
	}
	if verifsim.Draw("c15-runner-fail", 12) == 0 {
		verifsim.Fault("runner_fail")
		return fmt.Errorf("sim: runner failed")
	}
	fn(llm.CompletionResponse{Done: true, DoneReason: llm.DoneReasonStop, PromptEvalCount: 3, EvalCount: n})
	return nil
}

//go:norace
func (cw *c15World) count(op string, code int) {
	for i := range c15OpNames {
		if c15OpNames[i] == op {
			if c := code / 100; c >= 0 && c < 6 {
				cw.opN[i][c]++
			}
			return
		}
	}
}

//go:norace
func (cw *c15World) clientDone() { cw.done++ }

//go:norace
func (cw *c15World) progressState() uint64 {
	var x uint64
	for i := range cw.opN {
		for _, v := range cw.opN[i] {
			if v > 0 {
				x |= 1 << uint(i)
			}
		}
	}
	return cw.abstractState(x<<8 | uint64(cw.done))
}

//go:norace
func (cw *c15World) allDone() bool { return cw.ready && (cw.setupErr != "" || cw.done == cw.nClients) }

//go:norace
func (cw *c15World) setReady(err string) { cw.setupErr, cw.ready = err, true }

//go:norace
func (cw *c15World) psWindowOpen() int {
	cw.seq++
	return cw.seq
}

// psAlive: did a runner of the model at path exist at some instant of [start,end]?
//
//go:norace
func (cw *c15World) psAlive(path string, start, end int) (alive bool, lastID, lastCreated, lastClosed int) {
	lastID = -1
	for _, s := range cw.srvs {
		if s.model != path {
			continue
		}
		c, x := cw.createdSq[s.id], cw.closedSq[s.id]
		if c <= end && (x == 0 || x >= start) {
			alive = true
		}
		if x != 0 {
			lastID, lastCreated, lastClosed = s.id, c, x
		}
	}
	return
}

func drawKeepAlive() *api.Duration {
	switch verifsim.Draw("ka", 8) {
	case 0:
		return &api.Duration{Duration: 0}
	case 1, 2:
		return &api.Duration{Duration: time.Duration(1+verifsim.Draw("ka-ms", 200)) * time.Millisecond}
	case 3:
		return &api.Duration{Duration: time.Duration(1+verifsim.Draw("ka-s", 20)) * time.Second}
	case 4:
		if c15NoInfiniteKeepAlive {
			return nil
		}
		return &api.Duration{Duration: -1}
	}
	return nil
}

// c15NoInfiniteKeepAlive: the C02 stage checks that everything drains once the keep-alive
// periods have elapsed, so its requests never ask for an unlimited one.
var c15NoInfiniteKeepAlive bool

func (cw *c15World) drawName() (string, *apiFamily) {
	f := cw.fams[verifsim.Draw("fam", len(cw.fams))]
	// mostly the name that exists from the start
	if verifsim.Draw("first-name", 3) != 0 {
		return f.names[0], f
	}
	return f.names[verifsim.Draw("name", len(f.names))], f
}

func boolp(b bool) *bool { return &b }

// one client request; returns a short description
func (cw *c15World) op(client int) {
	d := verifsim.Draw
	ctx := context.Background()
	name, fam := cw.drawName()
	switch k := d("op", 30); {
	case k < 5: // generate
		stream := d("stream", 2) == 0
		req := api.GenerateRequest{Model: name, Prompt: "why is the sky blue", Stream: &stream, KeepAlive: drawKeepAlive()}
		if d("raw", 5) == 0 {
			req.Raw = true
		}
		r := cw.apiJSON(ctx, "POST", "/api/generate", req)
		cw.count("generate", r.code)
		if r.code == 200 {
			verifsim.Probe("c15_generate_ok")
		}
	case k < 9: // chat
		stream := d("stream", 2) == 0
		req := api.ChatRequest{Model: name, Messages: []api.Message{{Role: "user", Content: "hi there"}}, Stream: &stream, KeepAlive: drawKeepAlive()}
		if fam.tmpl == apiTmplToolsA && d("tools", 2) == 0 {
			req.Tools = c17Tools()
		}
		r := cw.apiJSON(ctx, "POST", "/api/chat", req)
		cw.count("chat", r.code)
		if r.code == 200 {
			verifsim.Probe("c15_chat_ok")
		}
	case k < 11: // embed
		req := api.EmbedRequest{Model: name, KeepAlive: drawKeepAlive()}
		if d("embed-list", 2) == 0 {
			req.Input = []string{"one", "two words", "three little words"}
		} else {
			req.Input = "a single input"
		}
		r := cw.apiJSON(ctx, "POST", "/api/embed", req)
		cw.count("embed", r.code)
		if r.code == 200 {
			verifsim.Probe("c15_embed_ok")
		}
	case k < 12: // embeddings (legacy)
		r := cw.apiJSON(ctx, "POST", "/api/embeddings", api.EmbeddingRequest{Model: name, Prompt: "legacy embedding", KeepAlive: drawKeepAlive()})
		cw.count("embeddings", r.code)
		if r.code == 200 {
			verifsim.Probe("c15_embed_ok")
		}
	case k < 17: // ps
		cw.ps()
	case k < 18: // tags
		r := cw.apiDo(ctx, "GET", "/api/tags", nil)
		cw.count("tags", r.code)
		if r.code == 200 {
			verifsim.Probe("c15_tags_ok")
		}
	case k < 20: // show
		r := cw.apiJSON(ctx, "POST", "/api/show", api.ShowRequest{Model: name, Verbose: d("verbose", 3) == 0})
		cw.count("show", r.code)
		if r.code == 200 {
			verifsim.Probe("c15_show_ok")
		}
	case k < 22: // create
		req := api.CreateRequest{Model: fam.names[d("newname", len(fam.names))], Stream: boolp(d("stream", 2) == 0), Template: fam.tmpl}
		if d("from", 2) == 0 {
			req.From = fam.names[0]
		} else {
			req.Files = map[string]string{"model.gguf": fam.digest}
			if d("twopart", 3) == 0 {
				// an uploaded file that holds more than one GGUF (model followed by projector):
				// create cuts the layers out of it instead of adopting the uploaded blob
				b := append(append([]byte(nil), fam.gguf...), fam.gguf...)
				dg := fmt.Sprintf("sha256:%x", sha256.Sum256(b))
				ur := cw.apiDo(ctx, "POST", "/api/blobs/"+dg, b)
				cw.count("blob-upload", ur.code)
				req.Files = map[string]string{"model.gguf": dg}
				verifsim.Probe("c15_create_from_multi_gguf_file")
			}
		}
		if d("sys", 2) == 0 {
			req.System = "system " + strconv.Itoa(d("sysn", 3))
		}
		if d("params", 3) == 0 {
			req.Parameters = map[string]any{"temperature": 0.5, "stop": []string{"</s>"}}
		}
		r := cw.apiJSON(ctx, "POST", "/api/create", req)
		cw.count("create", r.code)
		if r.code == 200 && strings.Contains(r.body.String(), `"success"`) {
			verifsim.Probe("c15_create_ok")
			if req.From == "" && req.Files["model.gguf"] != fam.digest {
				verifsim.Probe("c15_create_from_multi_gguf_file_ok")
			}
		}
	case k < 23: // copy
		r := cw.apiJSON(ctx, "POST", "/api/copy", api.CopyRequest{Source: fam.names[0], Destination: fam.names[1+d("dst", len(fam.names)-1)]})
		cw.count("copy", r.code)
		if r.code == 200 {
			verifsim.Probe("c15_copy_ok")
		}
	case k < 24: // delete (never the base name too often: keep things running)
		n := fam.names[1+d("del", len(fam.names)-1)]
		if d("del-base", 6) == 0 {
			n = fam.names[0]
		}
		r := cw.apiJSON(ctx, "DELETE", "/api/delete", api.DeleteRequest{Model: n})
		cw.count("delete", r.code)
		if r.code == 200 {
			verifsim.Probe("c15_delete_ok")
		}
	case k < 25: // blob upload / head
		switch d("blob", 3) {
		case 0:
			r := cw.apiDo(ctx, "POST", "/api/blobs/"+fam.digest, fam.gguf)
			cw.count("blob-upload", r.code)
			verifsim.Probe("c15_blob_upload")
		case 1:
			b := cw.extra[d("extra", len(cw.extra))]
			r := cw.apiDo(ctx, "POST", "/api/blobs/"+fmt.Sprintf("sha256:%x", sha256.Sum256(b)), b)
			cw.count("blob-upload", r.code)
			verifsim.Probe("c15_blob_upload")
		default:
			r := cw.apiDo(ctx, "HEAD", "/api/blobs/"+fam.digest, nil)
			cw.count("blob-head", r.code)
		}
	case k < 28: // unload (keep_alive 0, nothing to do) / load only
		var r *memWriter
		switch d("unload", 3) {
		case 0:
			r = cw.apiJSON(ctx, "POST", "/api/generate", api.GenerateRequest{Model: name, KeepAlive: &api.Duration{Duration: 0}})
			verifsim.Probe("c15_unload")
		case 1:
			r = cw.apiJSON(ctx, "POST", "/api/chat", api.ChatRequest{Model: name, KeepAlive: &api.Duration{Duration: 0}})
			verifsim.Probe("c15_unload")
		default:
			r = cw.apiJSON(ctx, "POST", "/api/generate", api.GenerateRequest{Model: name, KeepAlive: drawKeepAlive()})
		}
		cw.count("unload-or-load", r.code)
	default: // OpenAI-compatible endpoints and the rest
		switch d("v1", 9) {
		case 6:
			r := cw.apiDo(ctx, "GET", "/v1/models/"+name, nil)
			cw.count("v1-models", r.code)
		case 7:
			r := cw.apiJSON(ctx, "POST", "/v1/completions", openai.CompletionRequest{Model: name, Prompt: "complete this", Stream: d("stream", 2) == 0})
			cw.count("v1-chat", r.code)
		case 8:
			r := cw.apiDo(ctx, "HEAD", "/api/tags", nil)
			cw.count("tags", r.code)
		case 4:
			// the registry is unreachable: exercises the pull handler, its goroutine and the error path
			r := cw.apiJSON(ctx, "POST", "/api/pull", api.PullRequest{Model: "registry.sim/library/" + name, Stream: boolp(d("stream", 2) == 0)})
			cw.count("pull", r.code)
		case 5:
			r := cw.apiJSON(ctx, "POST", "/api/push", api.PushRequest{Model: name, Stream: boolp(d("stream", 2) == 0)})
			cw.count("push", r.code)
		case 0:
			req := openai.ChatCompletionRequest{Model: name, Stream: d("stream", 2) == 0, Messages: []openai.Message{{Role: "user", Content: "hello"}}}
			r := cw.apiJSON(ctx, "POST", "/v1/chat/completions", req)
			cw.count("v1-chat", r.code)
		case 1:
			r := cw.apiDo(ctx, "GET", "/v1/models", nil)
			cw.count("v1-models", r.code)
		case 2:
			r := cw.apiJSON(ctx, "POST", "/v1/embeddings", openai.EmbedRequest{Model: name, Input: "text"})
			cw.count("v1-embeddings", r.code)
		default:
			r := cw.apiDo(ctx, "GET", "/api/version", nil)
			cw.count("version", r.code)
		}
	}
}

// ps issues GET /api/ps and checks the view (oracle c).
func (cw *c15World) ps() {
	w := cw.apiWorld
	start := cw.psWindowOpen()
	r := cw.apiDo(context.Background(), "GET", "/api/ps", nil)
	end := cw.psWindowOpen()
	cw.count("ps", r.code)
	verifsim.Probe("c15_ps_checked")
	if r.code != http.StatusOK {
		verifsim.Violate("C15", "ps-view", "ps-view:handler-failed", fmt.Sprintf("GET /api/ps answered %d: %s", r.code, firstN(r.body.String(), 300)))
		return
	}
	var pr api.ProcessResponse
	if err := json.Unmarshal(r.body.Bytes(), &pr); err != nil {
		verifsim.Violate("C15", "ps-view", "ps-view:bad-body", "GET /api/ps: "+err.Error()+": "+firstN(r.body.String(), 300))
		return
	}
	if len(pr.Models) > 0 {
		verifsim.Probe("c15_ps_nonempty")
	}
	for _, m := range pr.Models {
		fam := w.famOfName(m.Name)
		if fam == nil {
			verifsim.Violate("C15", "ps-view", "ps-view:unknown-model", fmt.Sprintf("GET /api/ps lists %q which no request ever created", m.Name))
			continue
		}
		alive, id, c, x := cw.psAlive(fam.blobPath, start, end)
		last := "never started"
		if id >= 0 {
			last = fmt.Sprintf("runner #%d started at event %d, shut down at event %d", id, c, x)
		}
		if !alive {
			verifsim.Violate("C15", "ps-view", "ps-view:torn-down-runner-listed",
				fmt.Sprintf("GET /api/ps (events %d..%d) lists %s but no runner of that model was alive at any instant of the request (%s)", start, end, m.Name, last))
		}
	}
}

func (cw *c15World) pullRemote() {
	req := api.PullRequest{Model: cw.remote.names[0], Insecure: true, Stream: boolp(verifsim.Draw("stream", 2) == 0)}
	r := cw.apiJSON(context.Background(), "POST", "/api/pull", req)
	cw.count("pull", r.code)
	if r.code == 200 && strings.Contains(r.body.String(), `"success"`) {
		verifsim.Probe("c15_pull_ok")
	}
}

func (cw *c15World) clientTask(id int) {
	for i := 0; i < cw.nOps; i++ {
		if i == 0 && cw.pullBurst {
			verifsim.Sleep(time.Duration(verifsim.Draw("think", 20)) * time.Millisecond)
			cw.pullRemote()
			continue
		}
		verifsim.Sleep(time.Duration(verifsim.Draw("think", 400)) * time.Millisecond)
		if cw.remote != nil && verifsim.Draw("pull-remote", 10) == 0 {
			cw.pullRemote()
			continue
		}
		if verifsim.Draw("abandon", 5) == 0 {
			cw.abandonedRequest()
			continue
		}
		cw.op(id)
	}
	cw.clientDone()
}

// abandonedRequest: the client goes away after a while - before, during or
// after the load its request needs - and does not wait for the handler, which C02 allows to
// stay unanswered. What C02 does not allow is that this costs anybody else their reply.
func (cw *c15World) abandonedRequest() {
	name, _ := cw.drawName()
	ctx, cancel := context.WithCancel(context.Background())
	stream := verifsim.Draw("stream", 2) == 0
	req := api.GenerateRequest{Model: name, Prompt: "never mind", Stream: &stream, KeepAlive: drawKeepAlive()}
	chat := verifsim.Draw("abandon-chat", 2) == 0
	var answered atomic.Bool
	verifsim.Go("abandoned", func() {
		if chat {
			r := cw.apiJSON(ctx, "POST", "/api/chat", api.ChatRequest{Model: name, Messages: []api.Message{{Role: "user", Content: "never mind"}}, Stream: &stream, KeepAlive: req.KeepAlive})
			cw.count("chat", r.code)
		} else {
			r := cw.apiJSON(ctx, "POST", "/api/generate", req)
			cw.count("generate", r.code)
		}
		answered.Store(true)
	})
	verifsim.Sleep(time.Duration(verifsim.Draw("abandon-after", 3000)) * time.Millisecond)
	if !answered.Load() {
		verifsim.Fault("client_interrupt")
	}
	cancel()
}

func runC15(t *testing.T, tape *verifsim.Tape, prop, tier string, keepLog bool) verifsim.Result {
	verifsim.RaceLogMark()
	st0 := verifsim.RaceLogStats
	res := verifsim.Run(t, tape, keepLog, func(sim *verifsim.Sim, res *verifsim.Result) {
		d := verifsim.Draw
		gpu := apiGPU{kind: []int{0, 0, 1, 2, 3}[d("gpukind", 5)], gb: []int{48, 16, 4}[d("gpugb", 3)]}
		maxClients, maxOps := 8, 5
		if tier == "thorough" {
			maxClients, maxOps = 8, 9
		}
		w := newAPIWorld(t, sim, prop, gpu, []int{0, 1, 2, 3, 1}[d("maxrunners", 5)], []int{0, 1, 4}[d("parallel", 3)], 512)
		cw := &c15World{apiWorld: w}
		c15NoInfiniteKeepAlive = prop == "C02"
		w.script = cw.completion
		w.onCloseInUse = func(s *simLlama, n int) {
			verifsim.Probe("c01_http_monitor_armed")
			verifsim.Violate("C01", "close-in-use", "close-in-use:http:"+callerRepoFunc(), fmt.Sprintf("runner #%d (%s) is being shut down while %d completion(s) of requests that have not ended are running on it", s.id, s.model[strings.LastIndex(s.model, "/")+1:], n))
		}
		w.loadFail = []int{0, 0, 8, 4}[d("loadfail", 4)]
		w.pingFail = []int{0, 0, 10}[d("pingfail", 3)]
		w.slowClose = d("slowclose", 2) == 0
		cw.nClients = 3 + d("clients", maxClients)
		cw.nOps = 2 + d("ops", maxOps)
		w.addFamily("ga", 1, false, apiTmplToolsA, "alpha", "alpha2", "team/alpha:v2")
		// one run in two the second family has no TEMPLATE layer: its models share the
		// package-level default template (and whatever that caches on first use)
		tmplB := apiTmplPlain
		if d("gb-default-template", 2) == 0 {
			tmplB = ""
		}
		w.addFamily("gb", 2, false, tmplB, "beta", "beta2", "Beta:Mixed")
		if d("embed-fam", 3) != 0 {
			w.addFamily("em", 1, true, "", "embed", "embed2")
		}
		if d("remote", 4) != 0 {
			cw.remote = w.addRemote("ra", 2, apiTmplPlain, "rem")
			w.net.failRate = []int{0, 0, 6}[d("cdnfail", 3)]
			cw.pullBurst = d("pullburst", 3) == 0
		}
		cw.extra = [][]byte{[]byte("license text A"), []byte("{\"some\":\"json\"}"), []byte("")}
		w.quiet = false
		w.note("config: gpu=%v max_loaded=%s parallel=%s clients=%d ops/client=%d loadfail=1/%d pingfail=1/%d slowclose=%v families=%d",
			gpu, getenvOr("OLLAMA_MAX_LOADED_MODELS"), getenvOr("OLLAMA_NUM_PARALLEL"), cw.nClients, cw.nOps, w.loadFail, w.pingFail, w.slowClose, len(w.fams))
		w.quiet = verifsim.RaceBuild && !keepLog
		sim.Go("setup", func() {
			cw.setReady(w.setup(nil))
			if cw.setupErr != "" {
				return
			}
			for i := 0; i < cw.nClients; i++ {
				id := i
				verifsim.Go("client"+strconv.Itoa(i), func() { cw.clientTask(id) })
			}
		})
		states := map[uint64]bool{}
		sim.OnStep = func() {
			if len(states) < 2048 {
				states[cw.progressState()] = true
			}
		}
		stop := sim.RunUntil(cw.allDone, 2*time.Hour, 600000)
		sim.OnStep = nil
		for h := range states {
			res.States = append(res.States, h)
		}
		res.Info["stop_"+stop.String()]++
		if cw.setupErr != "" {
			res.HarnessErr = "setup failed: " + cw.setupErr
		}
		// (b) recovered panics
		for _, gp := range w.ginPanics() {
			verifsim.Violate("C15", "panic", "panic:"+verifsim.PanicClass(gp.msg)+"@"+gp.fn, "a request made the server panic (recovered by gin): "+gp.msg+"\n"+gp.text)
		}
		cw.summarise(res)
		if stop == verifsim.Idle || stop == verifsim.SimBudget {
			res.Info["stuck_runs"]++ // liveness is C02's business (its HTTP stage, below)
		}
		if prop == "C02" && cw.setupErr == "" {
			if stop == verifsim.Violated {
				if f, err := os.OpenFile("/tmp/allviol.log", os.O_APPEND|os.O_CREATE|os.O_WRONLY, 0o644); err == nil {
					for _, v := range sim.Violations() {
						fmt.Fprintf(f, "%s %s %s\n", v.Property, v.Signature, firstN(v.Msg, 400))
					}
					f.Close()
				}
			}
			cw.checkC02(sim, stop)
		}
		w.teardown()
	})
	// (a) data races reported during this run. The determinism self-test compares
	// schedules and outcomes; the detector's view is an observer of the execution, not part
	// of it (see c15ConfirmRaces), so it is left out there.
	rv := verifsim.RaceViolations("C15")
	if os.Getenv("VERIF_SELFTEST") == "" {
		res.Violations = append(res.Violations, rv...)
		res.Info["race_reports_kept"] += len(rv)
		st := verifsim.RaceLogStats
		res.Info["race_reports_total"] += st.Blocks - st0.Blocks
		res.Info["race_reports_dropped_harness_access"] += st.DroppedHarness - st0.DroppedHarness
		res.Info["race_reports_dropped_no_repo_frame"] += st.DroppedNoRepo - st0.DroppedNoRepo
		res.Info["race_reports_with_unrestorable_stack"] += st.Unrestorable - st0.Unrestorable
	}
	return res
}

// summarise runs on the controller after the workload (nothing else is running).
//
//go:norace
func (cw *c15World) summarise(res *verifsim.Result) {
	var ops []string
	for i, name := range c15OpNames {
		n := 0
		for c, v := range cw.opN[i] {
			if v > 0 {
				res.Info["status_"+name+"="+strconv.Itoa(c)+"xx"] += v
				n += v
			}
		}
		if n > 0 {
			res.Info["op_"+name] += n
			res.Info["requests"] += n
			ops = append(ops, name+"x"+strconv.Itoa(n))
		}
		if name == "ps" {
			res.Info["ps_checks"] += n
		}
	}
	res.Info["runners_started"] += len(cw.srvs)
	cw.quiet = false
	cw.note("requests: %s; runners started: %d", strings.Join(ops, " "), len(cw.srvs))
	res.Sample = cw.desc
}

func getenvOr(k string) string {
	if v, ok := os.LookupEnv(k); ok {
		return v
	}
	return "unset"
}

// checkC02 is the HTTP-level stage of C02: no client of this workload cancels a request, every
// load finishes, so every request must be answered (a run that ends with nothing runnable, no
// timer pending and clients still waiting has lost a reply), and once the keep-alive periods
// (at most the default five minutes here, after a load of at most 154 s) have elapsed every runner that was started has been
// closed and GET /api/ps reports nothing. Controller only.
func (cw *c15World) checkC02(sim *verifsim.Sim, stop verifsim.Stop) {
	w := cw.apiWorld
	switch stop {
	case verifsim.Idle:
		verifsim.Violate("C02", "no-reply", "http:no-reply:server-idle", fmt.Sprintf("%d of %d clients are still waiting for the response to a request that nobody cancelled, and nothing in the server is runnable and no timer is pending", cw.nClients-cw.done, cw.nClients))
		return
	case verifsim.CondTrue:
	default:
		verifsim.Probe("c02_http_run_out_of_budget")
		return
	}
	// the longest keep-alive here is the default five minutes; a request that its client
	// abandoned may still finish a load (up to 154 s) after the last response
	sim.RunUntil(nil, 15*time.Minute, 400000)
	if live := w.live(); len(live) > 0 {
		verifsim.Violate("C02", "drain", "http:drain:runner-never-closed", fmt.Sprintf("all requests have been answered and more than the longest keep-alive period has elapsed, but %d of %d runners that were started have not been shut down (first: #%d for %s)", len(live), len(w.srvs), live[0].id, w.famOfPath(live[0].model)))
		return
	}
	psDone := false
	sim.Go("drain-ps", func() {
		defer func() { psDone = true }()
		r := cw.apiDo(context.Background(), "GET", "/api/ps", nil)
		var pr api.ProcessResponse
		if r.code != http.StatusOK || json.Unmarshal(r.body.Bytes(), &pr) != nil {
			return
		}
		verifsim.Probe("c02_http_drain_checked")
		if len(pr.Models) > 0 {
			verifsim.Violate("C02", "drain", "http:drain:still-reported-loaded", fmt.Sprintf("all requests have been answered and more than the longest keep-alive period has elapsed, but GET /api/ps still reports %d loaded model(s) (first: %s)", len(pr.Models), pr.Models[0].Name))
		}
	})
	sim.RunUntil(func() bool { return psDone }, time.Minute, 50000)
}

var c15Warm bool

// c15ConfirmRaces: whether the detector sees a given pair of accesses as unordered can
// hinge on happens-before edges that are not part of the schedule (lazily filled caches
// of the standard library, detector history). A race report with a signature that is not
// a known finding is therefore kept only if two immediate re-executions of the recorded
// tape report it again; what does not reproduce is counted and dropped (inconclusive),
// so the worker's confirmation and minimisation work on stable reports only.
func c15ConfirmRaces(t *testing.T, r verifsim.Result, prop, tier string) verifsim.Result {
	unknown := map[string]bool{}
	for _, v := range r.Violations {
		if v.Class == "race" && !apiKnown[v.Property+"\x00"+v.Signature] {
			unknown[v.Signature] = true
		}
	}
	if len(unknown) == 0 {
		return r
	}
	for k := 0; k < 2 && len(unknown) > 0; k++ {
		r2 := runC15(t, verifsim.ReplayTape(r.Tape), prop, tier, false)
		seen := map[string]bool{}
		for _, v := range r2.Violations {
			seen[v.Signature] = true
		}
		for s := range unknown {
			if !seen[s] {
				delete(unknown, s)
			}
		}
	}
	for i := range r.Violations {
		v := &r.Violations[i]
		if v.Class == "race" && !apiKnown[v.Property+"\x00"+v.Signature] && !unknown[v.Signature] {
			// not seen again in this process: left to the worker, which re-executes the tape in
			// fresh processes (a race on state that is initialised once per process shows only there)
			r.Info["race_reports_not_reproduced_in_process"]++
			v.Unconfirmed = true
		}
	}
	return r
}

func TestVerifAPIRace(t *testing.T) {
	verifQuietLogs()
	if ok, why := verifsim.RaceLogConfigured(); !ok && verifsim.RaceBuild {
		t.Fatalf("race log not configured: %s", why)
	}
	verifsim.WorkerMain(t, verifsim.Harness{
		Name: "apirace",
		RunOne: func(t *testing.T, tape *verifsim.Tape, prop, tier string, keepLog bool) verifsim.Result {
			// The first execution in a process synchronises more than later ones: one-time
			// initialisations (type and template caches, sync.Once) publish with release
			// stores that later executions only read. A replay in a fresh process must see
			// what a worker that has been running for a while saw, so it warms up first by
			// executing the same tape once without looking at the result.
			if verifsim.RaceBuild && !c15Warm && tape.Replaying() && !verifsim.FreshReplay {
				c15Warm = true
				runC15(t, verifsim.ReplayTape(tape.Vals), prop, tier, false)
			}
			c15Warm = true
			if os.Getenv("VERIF_DEBUG_NOKEEP") != "" {
				keepLog = false
			}
			if n, _ := strconv.Atoi(os.Getenv("VERIF_DEBUG_REPEAT")); n > 0 && tape.Replaying() {
				for i := 0; i < n; i++ {
					rr := orderKnownLast(runC15(t, verifsim.ReplayTape(tape.Vals), prop, tier, i%2 == 1), prop)
					first := "<none>"
					if len(rr.Violations) > 0 {
						first = rr.Violations[0].Signature
					}
					fmt.Fprintf(os.Stderr, "debug: repeat %d keeplog=%v hash=%x n=%d first=%s\n", i, i%2 == 1, rr.SchedHash, len(rr.Violations), first)
				}
			}
			r := orderKnownLast(runC15(t, tape, prop, tier, keepLog), prop)
			if !tape.Replaying() && !r.TapeOver {
				r = c15ConfirmRaces(t, r, prop, tier)
			}
			if os.Getenv("VERIF_DEBUG_SIGS") != "" {
				var sigs []string
				for _, v := range r.Violations {
					sigs = append(sigs, v.Signature)
				}
				fmt.Fprintf(os.Stderr, "debug: keeplog=%v replay=%v tape=%d steps=%d hash=%x violations=%v racelog=%+v\n", keepLog, tape.Replaying(), r.TapeUsed, r.Steps, r.SchedHash, sigs, verifsim.RaceLogStats)
			}
			return r
		},
		PanicProps: []string{"C15"},
		Real: []string{"server/routes.go (whole router: GenerateRoutes and every handler driven), sched.go, create.go, images.go, layer.go, manifest.go, model.go, modelpath.go, prompt.go, download.go, upload.go (instrumented, unmodified logic)",
			"openai middlewares, gin, real model store on tmpfs", "Go race detector (-race build) as happens-before oracle"},
		Stub: []string{"llm.LlamaServer (simLlama: tape-drawn load time/outcome, ping faults, slow Close, scripted completion)", "GPU discovery (simInventory incl. cuda free-memory lag)",
			"TCP/HTTP transport (requests enter at router.ServeHTTP)", "registry network (unreachable)"},
		Rule: map[string]string{"*": "one evaluation = one simulated server lifetime under the race detector: models created through the API, then 3-10 concurrent clients each issuing 2-10 tape-drawn requests (generate, chat, embed, embeddings, ps, tags, show, create, copy, delete, blob upload/head, unload, /v1) over 2-3 models with tape-drawn limits, GPU inventory, load/ping faults and interleaving; non-trivial = at least two tasks runnable at some step, at least one runner started and at least one /api/ps checked; distinct = different hash of the whole (task, label, simulated time) decision sequence"},
		NonTrivial: func(prop string, r *verifsim.Result) bool {
			return r.MaxRunnable >= 2 && r.Info["runners_started"] > 0 && r.Info["ps_checks"] > 0
		},
		Assumptions: []string{"instrumentation (yields at synchronisation points, mutex type swap, select/map-range determinisation) preserves single-threaded semantics",
			"testing/synctest fake clock and quiescence detection",
			"race detection is happens-before based on the code's own synchronisation (kernel hand-offs are hidden with runtime.RaceDisable, sim mutexes carry RaceAcquire/RaceRelease); accesses older than the detector's per-goroutine history may be missed",
			"a race report counts only if both accesses are in repository code (innermost module frame outside harness files)",
			"pre-emption only at synchronisation points: a torn read between two plain memory accesses is left to the race oracle",
			"a runner is 'torn down' when its Close() has returned"},
	})
	if verifsim.RaceBuild {
		// The testing package marks a test during which the race detector reported anything
		// as failed. Reports are results here (they are in the worker's output file, as
		// violations or known findings), so leave with status 0 once the output is written.
		os.Exit(0)
	}
}
