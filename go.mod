module verif

go 1.24
