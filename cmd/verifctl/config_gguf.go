package main

// H-gguf: the GGUF decoder under enumerated file faults (DESIGN.md section 5, C10, decoder part).
// Nothing is instrumented: the decoder is sequential and the io.ReadSeeker it is handed is the seam.
// The API-level stage of C10 (upload/create/show through HTTP) lives in another harness.
func init() {
	register(&harnessSpec{
		name:     "gguf",
		testPkg:  "fs/ggml",
		testFunc: "TestVerifGGUF",
		files: map[string]string{
			"harness/ggml/zz_verif_gguf_test.go":       "fs/ggml/zz_verif_gguf_test.go",
			"harness/ggml/zz_verif_gguf_asm_test.go":   "fs/ggml/zz_verif_gguf_asm_test.go",
			"harness/ggml/zz_verif_gguf_child_test.go": "fs/ggml/zz_verif_gguf_child_test.go",
		},
	}, map[string]propSpec{
		"C10": {level: "fault_enumeration", quickS: 45, thoroughS: 660,
			extra: []stageSpec{{harness: "store", quickS: 20, thoroughS: 240}},
			probes: []string{"ref_decoded_ok", "trunc_then_err", "ow_then_err", "ow_then_ok", "flip_then_ok", "flip_then_err",
				"retype_decoded", "accessors_on_faulty_model", "rderr_fired", "skerr_fired", "short_reads",
				"keeps_serving", "create_rejected_damaged_file", "show_error_on_damaged"}},
	})
}
