package main

// H-blob: the content-addressable disk cache of the new registry client
// (server/internal/cache/blob) on the simulated disk, with crash-point
// enumeration. DESIGN.md 5 (C08), C.6.
func init() {
	register(&harnessSpec{
		name:     "blob",
		testPkg:  "server/internal/cache/blob",
		testFunc: "TestVerifBlob",
		pkgs: []pkgSpec{{
			dir:  "server/internal/cache/blob",
			full: []string{"cache.go", "chunked.go"},
			vfs:  true,
		}},
		files: map[string]string{
			"harness/blob/zz_verif_blob_test.go": "server/internal/cache/blob/zz_verif_blob_test.go",
		},
	}, map[string]propSpec{
		"C08": {level: "fault_enumeration", quickS: 40, thoroughS: 780,
			probes: []string{"put_ok", "put_failed", "import_ok", "chunked_complete", "chunked_incomplete", "link_ok", "link_refused", "resolve_ok", "resolve_not_linked",
				"unlink_ok", "same_digest_writers_overlap", "crash_reopened", "put_trusted_existing_file"}},
	})
}
