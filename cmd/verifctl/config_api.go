package main

// H-api: the whole gin router (server/routes.go) over the real Scheduler and a
// real model store, driven in-process. Two builds of the same files:
//   api     (normal build)  -> C17 streaming == non-streaming == OpenAI
//   apirace (-race build)   -> C15 data races / panics / ps view
// DESIGN.md section 5 (C15, C17), 3.4, C.6.

var apiFiles = map[string]string{
	"harness/server/zz_verif_common_test.go":  "server/zz_verif_common_test.go",
	"harness/server/zz_verif_api_test.go":     "server/zz_verif_api_test.go",
	"harness/server/zz_verif_apirace_test.go": "server/zz_verif_apirace_test.go",
	"harness/server/zz_verif_apic17_test.go":  "server/zz_verif_apic17_test.go",
}

// the -race build has one more file (it refers to the overlaid sync package)
var apiraceFiles = func() map[string]string {
	m := map[string]string{"harness/server/zz_verif_racepool_test.go": "server/zz_verif_racepool_test.go"}
	for k, v := range apiFiles {
		m[k] = v
	}
	return m
}()

var apiPkgs = []pkgSpec{{
	dir: "server",
	full: []string{"routes.go", "sched.go", "create.go", "model.go", "download.go", "upload.go", "images.go",
		"layer.go", "manifest.go", "modelpath.go", "prompt.go"},
	redirect: map[string]string{"discover.GetGPUInfo": "verifGetGPUInfo"},
}}

// the -race build also routes the store's file-system calls through the vfs seam:
// every call is a pre-emption point, so listings, deletes, creates and pulls of
// concurrent requests interleave call by call
var apiracePkgs = []pkgSpec{{
	dir:      apiPkgs[0].dir,
	full:     apiPkgs[0].full,
	redirect: apiPkgs[0].redirect,
	vfs:      true,
}}

func init() {
	register(&harnessSpec{
		name:     "api",
		testPkg:  "server",
		testFunc: "TestVerifAPI",
		pkgs:     apiPkgs,
		files:    apiFiles,
	}, map[string]propSpec{
		"C17": {level: "exploration", quickS: 45, thoroughS: 780,
			probes: []string{"c17_quad_compared", "c17_metamorphic_compared", "c17_tools_stream_buffered", "c17_fail_before_first",
				"c17_fail_between", "c17_fail_after_last", "c17_client_decoded_stream", "c17_client_decoded_nonstream", "c17_multibyte_split",
				"c17_stream_nonstream_compared", "c17_openai_native_compared", "c17_client_cancel_midstream"}},
	})
	register(&harnessSpec{
		name:        "apirace",
		testPkg:     "server",
		testFunc:    "TestVerifAPIRace",
		pkgs:        apiracePkgs,
		files:       apiraceFiles,
		race:        true,
		generations: 4,
	}, map[string]propSpec{
		"C15": {level: "exploration", quickS: 60, thoroughS: 780,
			probes: []string{"c15_ps_checked", "c15_ps_nonempty", "c15_generate_ok", "c15_chat_ok", "c15_embed_ok", "c15_create_ok",
				"c15_copy_ok", "c15_delete_ok", "c15_blob_upload", "c15_unload", "c15_show_ok", "c15_tags_ok", "c15_pull_ok", "cdn_chunk_served"}},
	})
}
