package main

import (
	"bytes"
	"fmt"
	"os"
	"os/exec"
	"path/filepath"
	"strings"
)

// overlayNoPoolReuse (race builds only) adds an overlay entry for the standard
// library's sync/pool.go in which Pool.Put always takes the branch that the
// race-enabled Pool already takes at random one time in four: drop the object.
//
// Why: under -race a Put/Get pair on a sync.Pool is a happens-before edge
// (race.ReleaseMerge / race.Acquire on a hash of the object's address). In the
// simulation every goroutine runs on one P and one at a time, so fmt, encoding/json
// and gin's context pool hand the same few objects from each request to the next and
// order practically everything a handler did before everything the next handler does:
// the race detector, used as a happens-before oracle (DESIGN 3.4), then misses races
// between requests except when the random drop happens to break every chain (measured:
// an unsynchronised counter in a handler was reported in 1 of ~1500 runs, and not again
// on replay). A Pool that never retains anything is a legal Pool (objects may be dropped
// at any time) and models the executions in which the pools were empty; with it the
// detector sees only the code's own synchronisation and its verdict is a deterministic
// function of the schedule. Nothing else of the standard library is changed.
func (b *build) overlayNoPoolReuse(overlay map[string]string) error {
	cmd := exec.Command(goBin, "env", "GOROOT")
	cmd.Env = goEnv()
	out, err := cmd.Output()
	if err != nil {
		return fmt.Errorf("go env GOROOT: %v", err)
	}
	src := filepath.Join(strings.TrimSpace(string(out)), "src", "sync", "pool.go")
	data, err := os.ReadFile(src)
	if err != nil {
		return err
	}
	const old = "if runtime_randn(4) == 0 {"
	if bytes.Count(data, []byte(old)) != 1 {
		fmt.Fprintf(&b.log, "note: %s does not have the expected shape; sync.Pool left as it is (race oracle less sensitive)\n", src)
		return nil
	}
	data = bytes.Replace(data, []byte(old), []byte("if true || runtime_randn(4) == 0 { // verif: never retain (see cmd/verifctl/racepool.go)"), 1)
	dir := filepath.Join(b.scratch, "std")
	if err := os.MkdirAll(dir, 0o755); err != nil {
		return err
	}
	dst := filepath.Join(dir, "sync_pool.go.txt")
	if err := os.WriteFile(dst, data, 0o644); err != nil {
		return err
	}
	overlay[src] = dst
	b.instr = append(b.instr, "std: sync/pool.go overlaid so that Pool.Put never retains (race build only)")
	return nil
}
