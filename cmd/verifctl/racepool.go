package main

import (
	"bytes"
	"fmt"
	"os"
	"os/exec"
	"path/filepath"
	"strings"
)

// overlayNoPoolReuse (race builds only) adds an overlay entry for the standard
// library's sync/pool.go in which Pool.Put always takes the branch that the
// race-enabled Pool already takes at random one time in four: drop the object.
//
// Why: under -race a Put/Get pair on a sync.Pool is a happens-before edge
// (race.ReleaseMerge / race.Acquire on a hash of the object's address). In the
// simulation every goroutine runs on one P and one at a time, so fmt, encoding/json
// and gin's context pool hand the same few objects from each request to the next and
// order practically everything a handler did before everything the next handler does:
// the race detector, used as a happens-before oracle (DESIGN 3.4), then misses races
// between requests except when the random drop happens to break every chain (measured:
// an unsynchronised counter in a handler was reported in 1 of ~1500 runs, and not again
// on replay). A Pool that never retains anything is a legal Pool (objects may be dropped
// at any time) and models the executions in which the pools were empty; with it the
// detector sees only the code's own synchronisation and its verdict is a deterministic
// function of the schedule. Nothing else of the standard library is changed.
//
// One pool is exempt: the pool the harness names with sync.VerifKeepPool (the gin router's pool
// of *gin.Context). Use of a pooled context after its handler has returned is a realistic defect
// (a goroutine of request A still reads c.Request while the router re-initialises the same
// object for request B) that can only show when the object really is handed on. For that one
// pool Put keeps the object in a LIFO list (deterministic, unlike the per-P lists of the real
// Pool) with the same happens-before edge the real race-enabled Pool makes (ReleaseMerge on Put,
// Acquire on Get, on the object's own address): everything the handler goroutine of A did
// is ordered before B, as in reality; what A's other goroutines do later is not.
func (b *build) overlayNoPoolReuse(overlay map[string]string) error {
	cmd := exec.Command(goBin, "env", "GOROOT")
	cmd.Env = goEnv()
	out, err := cmd.Output()
	if err != nil {
		return fmt.Errorf("go env GOROOT: %v", err)
	}
	src := filepath.Join(strings.TrimSpace(string(out)), "src", "sync", "pool.go")
	data, err := os.ReadFile(src)
	if err != nil {
		return err
	}
	const old = "if runtime_randn(4) == 0 {"
	if bytes.Count(data, []byte(old)) != 1 {
		fmt.Fprintf(&b.log, "note: %s does not have the expected shape; sync.Pool left as it is (race oracle less sensitive)\n", src)
		return nil
	}
	data = bytes.Replace(data, []byte(old), []byte("if verifKeep(p, x) {\n\t\t\treturn\n\t\t}\n\t\tif true || runtime_randn(4) == 0 { // verif: never retain (see cmd/verifctl/racepool.go)"), 1)
	const oldGet = "func (p *Pool) Get() any {\n\tif race.Enabled {\n"
	if bytes.Count(data, []byte(oldGet)) != 1 {
		fmt.Fprintf(&b.log, "note: %s does not have the expected shape; sync.Pool left as it is (race oracle less sensitive)\n", src)
		return nil
	}
	data = bytes.Replace(data, []byte(oldGet), []byte("func (p *Pool) Get() any {\n\tif race.Enabled {\n\t\tif x, ok := verifTake(p); ok {\n\t\t\treturn x\n\t\t}\n"), 1)
	data = append(data, []byte(verifPoolExtra)...)
	dir := filepath.Join(b.scratch, "std")
	if err := os.MkdirAll(dir, 0o755); err != nil {
		return err
	}
	dst := filepath.Join(dir, "sync_pool.go.txt")
	if err := os.WriteFile(dst, data, 0o644); err != nil {
		return err
	}
	overlay[src] = dst
	b.instr = append(b.instr, "std: sync/pool.go overlaid so that Pool.Put never retains, except the pool named by the harness (the router's pool of request contexts), which keeps objects in a LIFO list with the real Pool's happens-before edge (race build only)")
	return nil
}

// verifPoolExtra is appended to the overlaid sync/pool.go (race builds only).
const verifPoolExtra = `

// ---- verif (cmd/verifctl/racepool.go) ----

// VerifKeepPool names the one Pool that retains objects in this build.
var VerifKeepPool atomic.Pointer[Pool]

// The helpers are not instrumented (go:norace) and use no runtime helper that reports
// accesses on behalf of its caller (no append, no map): the race detector sees nothing of
// this bookkeeping but the two explicit happens-before calls.
var (
	verifKeepLock  atomic.Int32
	verifKeepItems [512]any
	verifKeepN     int
)

// verifRaceAddr: the object itself is the synchronisation address (the real Pool hashes the
// address into 128 buckets, which makes unrelated objects share an edge now and then, at the
// mercy of the allocator: not a function of the schedule).
//
//go:norace
func verifRaceAddr(x any) unsafe.Pointer {
	return (*[2]unsafe.Pointer)(unsafe.Pointer(&x))[1]
}

//go:norace
func verifKeepLockAcquire() {
	for !verifKeepLock.CompareAndSwap(0, 1) {
		runtime.Gosched()
	}
}

// VerifKeepReset names the pool to keep (nil: none) and forgets what was kept.
//
//go:norace
func VerifKeepReset(p *Pool) {
	race.Disable()
	verifKeepLockAcquire()
	for i := 0; i < verifKeepN; i++ {
		verifKeepItems[i] = nil
	}
	verifKeepN = 0
	VerifKeepPool.Store(p)
	verifKeepLock.Store(0)
	race.Enable()
}

//go:norace
func verifKeep(p *Pool, x any) bool {
	if p == nil || VerifKeepPool.Load() != p {
		return false
	}
	race.ReleaseMerge(verifRaceAddr(x))
	race.Disable()
	verifKeepLockAcquire()
	if verifKeepN < len(verifKeepItems) {
		verifKeepItems[verifKeepN] = x
		verifKeepN++
	}
	verifKeepLock.Store(0)
	race.Enable()
	return true
}

//go:norace
func verifTake(p *Pool) (any, bool) {
	if p == nil || VerifKeepPool.Load() != p {
		return nil, false
	}
	race.Disable()
	verifKeepLockAcquire()
	var x any
	if verifKeepN > 0 {
		verifKeepN--
		x = verifKeepItems[verifKeepN]
		verifKeepItems[verifKeepN] = nil
	}
	verifKeepLock.Store(0)
	race.Enable()
	if x != nil {
		race.Acquire(verifRaceAddr(x))
		return x, true
	}
	if p.New != nil {
		return p.New(), true
	}
	return nil, true
}
`
