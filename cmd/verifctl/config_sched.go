package main

func init() {
	register(&harnessSpec{
		name:     "sched",
		testPkg:  "server",
		testFunc: "TestVerifSched",
		pkgs: []pkgSpec{{
			dir:      "server",
			full:     []string{"sched.go"},
			redirect: map[string]string{"discover.GetGPUInfo": "verifGetGPUInfo"},
		}},
		files: map[string]string{
			"harness/server/zz_verif_common_test.go": "server/zz_verif_common_test.go",
			"harness/server/zz_verif_sched_test.go":  "server/zz_verif_sched_test.go",
		},
	}, map[string]propSpec{
		"C01": {level: "exploration", quickS: 40, thoroughS: 900,
			// second stage: the same property seen from the HTTP layer (routes.go scheduleRunner,
			// handlers holding a runner for the duration of a completion) in the H-api world
			extra:  []stageSpec{{harness: "api", quickS: 20, thoroughS: 300}},
			probes: []string{"grant", "load_fail", "explicit_unload", "cancel_before_grant", "cancel_while_loading"}},
		"C02": {level: "exploration", quickS: 40, thoroughS: 900,
			// second stage: replies and drain seen from the HTTP layer (what routes.go does with
			// the two reply channels is part of "receives exactly one reply")
			extra:  []stageSpec{{harness: "api", quickS: 20, thoroughS: 300}},
			probes: []string{"grant", "queue_full", "drain_complete", "load_fail"}},
		"C11": {level: "exploration", quickS: 40, thoroughS: 900,
			probes: []string{"grant", "reuse", "evict_idle_ok", "fit_checked"}},
	})
}
