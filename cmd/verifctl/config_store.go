package main

// H-store: the legacy model store of package server (pull, create, copy,
// delete, start-up prune) over the simulated registry/CDN/auth servers and the
// simulated disk. DESIGN.md 5 (C03, C04, C12), C.6.
func init() {
	register(&harnessSpec{
		name:     "store",
		testPkg:  "server",
		testFunc: "TestVerifStore",
		pkgs: []pkgSpec{{
			dir: "server",
			full: []string{"images.go", "download.go", "upload.go", "create.go", "layer.go", "manifest.go", "modelpath.go",
				"fixblobs.go", "model.go", "routes.go", "sparse_common.go", "auth.go"},
			vfs:        true,
			constToVar: []string{"minDownloadPartSize", "maxDownloadPartSize", "minUploadPartSize", "maxUploadPartSize"},
			sliceServe: true,
		}},
		files: map[string]string{
			"harness/server/zz_verif_common_test.go":  "server/zz_verif_common_test.go",
			"harness/server/zz_verif_store_test.go":   "server/zz_verif_store_test.go",
			"harness/server/zz_verif_simnet_test.go":  "server/zz_verif_simnet_test.go",
			"harness/server/zz_verif_pull_test.go":    "server/zz_verif_pull_test.go",
			"harness/server/zz_verif_ops_test.go":     "server/zz_verif_ops_test.go",
			"harness/server/zz_verif_crash_test.go":   "server/zz_verif_crash_test.go",
			"harness/server/zz_verif_push_test.go":    "server/zz_verif_push_test.go",
			"harness/server/zz_verif_ggufapi_test.go": "server/zz_verif_ggufapi_test.go",
		},
	}, map[string]propSpec{
		"C03": {level: "exploration", quickS: 45, thoroughS: 900,
			probes: []string{"pull_success", "pull_failed", "resume_from_parts", "multi_part", "auth_challenge", "redirect_cdn", "final_retry_ok"}},
		"C04": {level: "exploration", quickS: 45, thoroughS: 900,
			probes: []string{"op_create_ok", "op_create-from_ok", "op_copy_ok", "op_delete_ok", "op_pull_ok", "op_restart_ok", "prune_exact", "two_models_coexist"}},
		"C12": {level: "fault_enumeration", quickS: 60, thoroughS: 900,
			probes: []string{"crashed_in_pull", "crashed_in_create", "crashed_in_create-from", "crashed_in_copy", "crashed_in_delete", "redo_ok", "converged"}},
	})
}
