// verifctl is the driver behind /verif/bin/check: instrument the current tree,
// build the harness binary through an overlay, run seeded workers, aggregate,
// write evidence, print VIOLATION / KNOWN-FINDING lines. DESIGN.md 3.9 and 8.
package main

import (
	"bytes"
	"encoding/json"
	"fmt"
	"io"
	"os"
	"os/exec"
	"path/filepath"
	"sort"
	"strconv"
	"strings"
	"sync"
	"time"

	"verif/internal/instr"
)

const goBin = "go1.26.8"

// repo is the tree under test: /repo, or a scratch worktree of it for
// sensitivity experiments (VERIF_REPO). Registered checks never set VERIF_REPO.
var repo = func() string {
	if d := os.Getenv("VERIF_REPO"); d != "" {
		return d
	}
	return "/repo"
}()

// verif is the root of the verification tree this driver belongs to
// (bin/check exports VERIF_DIR; default /verif).
var verif = func() string {
	if d := os.Getenv("VERIF_DIR"); d != "" {
		return d
	}
	return "/verif"
}()

func goEnv() []string {
	env := os.Environ()
	env = append(env, "GOFLAGS=-mod=mod", "GOPROXY=off", "GOSUMDB=off", "GOTOOLCHAIN=local", "CGO_ENABLED=1")
	return env
}

type listPkg struct {
	ImportPath   string
	Export       string
	Dir          string
	GoFiles      []string
	CgoFiles     []string
	TestGoFiles  []string
	XTestGoFiles []string
}

func fatal(code int, f string, a ...any) {
	fmt.Fprintf(os.Stderr, "verifctl: "+f+"\n", a...)
	os.Exit(code)
}

func main() {
	if len(os.Args) < 2 {
		fatal(2, "usage: verifctl check <id> <quick|thorough> | replay <file> | selftest <harness> [runs] | warm")
	}
	switch os.Args[1] {
	case "check":
		if len(os.Args) < 4 {
			fatal(2, "usage: verifctl check <id> <quick|thorough>")
		}
		os.Exit(check(os.Args[2], os.Args[3]))
	case "replay":
		if len(os.Args) < 3 {
			fatal(2, "usage: verifctl replay <file>")
		}
		os.Exit(replay(os.Args[2]))
	case "selftest":
		if len(os.Args) < 3 {
			fatal(2, "usage: verifctl selftest <harness> [runs]")
		}
		runs := 300
		if len(os.Args) > 3 {
			runs, _ = strconv.Atoi(os.Args[3])
		}
		os.Exit(selftest(os.Args[2], runs))
	case "warm":
		os.Exit(warm())
	case "instrument":
		// debugging aid: verifctl instrument <harness> <outdir>
		h := harnessByName(os.Args[2])
		b := &build{h: h, scratch: os.Args[3], keep: true}
		if err := b.prepare(); err != nil {
			fatal(2, "%v", err)
		}
		fmt.Println("overlay:", filepath.Join(b.scratch, "overlay.json"))
	default:
		fatal(2, "unknown command %q", os.Args[1])
	}
}

// ---- build -----------------------------------------------------------------------

type build struct {
	h       *harnessSpec
	scratch string
	bin     string
	keep    bool
	log     bytes.Buffer
	instr   []string
}

func newScratch() string {
	base := "/dev/shm"
	if st, err := os.Stat(base); err != nil || !st.IsDir() {
		base = os.TempDir()
	}
	d, err := os.MkdirTemp(base, "verif-")
	if err != nil {
		fatal(2, "scratch: %v", err)
	}
	return d
}

func (b *build) cleanup() {
	if !b.keep && b.scratch != "" {
		os.RemoveAll(b.scratch)
	}
}

func (b *build) prepare() error {
	if err := os.MkdirAll(b.scratch, 0o755); err != nil {
		return err
	}
	// 1. package metadata + export data for type checking
	args := []string{"list", "-export", "-deps", "-test=false", "-json=ImportPath,Export,Dir,GoFiles,CgoFiles,TestGoFiles,XTestGoFiles"}
	seen := map[string]bool{}
	for _, p := range b.h.pkgs {
		if !seen[p.dir] {
			args = append(args, "./"+p.dir)
			seen[p.dir] = true
		}
	}
	if !seen[b.h.testPkg] {
		args = append(args, "./"+b.h.testPkg)
	}
	for _, d := range b.h.extraTestDirs {
		if !seen[d] {
			args = append(args, "./"+d)
			seen[d] = true
		}
	}
	// packages replaced as a whole (harnessSpec.replaceDirs): part of the overlay from the start
	pre, err := b.replaceOverlay()
	if err != nil {
		return err
	}
	if len(pre) > 0 {
		pb, _ := json.MarshalIndent(map[string]any{"Replace": pre}, "", " ")
		prePath := filepath.Join(b.scratch, "overlay-pre.json")
		if err := os.WriteFile(prePath, pb, 0o644); err != nil {
			return err
		}
		args = append(args[:1:1], append([]string{"-overlay", prePath}, args[1:]...)...)
	}
	cmd := exec.Command(goBin, args...)
	cmd.Dir = repo
	cmd.Env = goEnv()
	var stderr bytes.Buffer
	cmd.Stderr = &stderr
	out, err := cmd.Output()
	if err != nil {
		return fmt.Errorf("go list: %v\n%s", err, stderr.String())
	}
	exports := map[string]string{}
	pkgs := map[string]*listPkg{}
	dec := json.NewDecoder(bytes.NewReader(out))
	for {
		var p listPkg
		if err := dec.Decode(&p); err == io.EOF {
			break
		} else if err != nil {
			return fmt.Errorf("go list output: %v", err)
		}
		exports[p.ImportPath] = p.Export
		pp := p
		pkgs[p.ImportPath] = &pp
	}
	overlay := map[string]string{}
	for k, v := range pre {
		overlay[k] = v
	}
	// 2. instrument
	for _, p := range b.h.pkgs {
		ip := "github.com/ollama/ollama/" + p.dir
		lp := pkgs[ip]
		if lp == nil {
			return fmt.Errorf("package %s not in go list output", ip)
		}
		var full []string
		for _, f := range p.full {
			if _, err := os.Stat(filepath.Join(lp.Dir, f)); err == nil {
				full = append(full, f)
			} else {
				fmt.Fprintf(&b.log, "note: %s/%s does not exist in the current tree\n", p.dir, f)
			}
		}
		if p.fullAll {
			full = append([]string(nil), lp.GoFiles...)
		}
		res, err := instr.Instrument(instr.Options{
			Dir: lp.Dir, ImportPath: ip, GoFiles: lp.GoFiles, Full: full, VFS: p.vfs, ConstToVar: p.constToVar,
			Redirect: p.redirect, SliceServe: p.sliceServe, Exports: exports,
			OutDir: filepath.Join(b.scratch, "out", strings.ReplaceAll(p.dir, "/", "_")),
		})
		if err != nil {
			return fmt.Errorf("instrument %s: %v", p.dir, err)
		}
		for k, v := range res.Replace {
			overlay[k] = v
		}
		b.instr = append(b.instr, p.dir+": "+res.Describe())
		for _, w := range res.Warnings {
			fmt.Fprintf(&b.log, "instr warning: %s\n", w)
		}
	}
	// 3. remove the repo's own tests of every package that receives harness files
	removeTests := func(dir string) {
		lp := pkgs["github.com/ollama/ollama/"+dir]
		if lp == nil {
			return
		}
		for _, f := range append(append([]string{}, lp.TestGoFiles...), lp.XTestGoFiles...) {
			overlay[filepath.Join(lp.Dir, f)] = ""
		}
		// test files excluded by build constraints are not listed; remove by glob too
		m, _ := filepath.Glob(filepath.Join(lp.Dir, "*_test.go"))
		for _, f := range m {
			overlay[f] = ""
		}
	}
	removeTests(b.h.testPkg)
	for _, d := range b.h.extraTestDirs {
		removeTests(d)
	}
	// 4. kernel + harness files
	addDir := func(src, dst string) error {
		ents, err := os.ReadDir(src)
		if err != nil {
			return err
		}
		for _, e := range ents {
			if e.IsDir() || !strings.HasSuffix(e.Name(), ".go") {
				continue
			}
			overlay[filepath.Join(dst, e.Name())] = filepath.Join(src, e.Name())
		}
		return nil
	}
	if err := addDir(filepath.Join(verif, "detsim"), filepath.Join(repo, "verifsim")); err != nil {
		return err
	}
	// every sub-directory of detsim is an overlay-only sub-package of verifsim (vfs, simnet, ...)
	if subs, err := os.ReadDir(filepath.Join(verif, "detsim")); err == nil {
		for _, e := range subs {
			if e.IsDir() {
				if err := addDir(filepath.Join(verif, "detsim", e.Name()), filepath.Join(repo, "verifsim", e.Name())); err != nil {
					return err
				}
			}
		}
	}
	for src, dst := range b.h.files {
		overlay[filepath.Join(repo, dst)] = filepath.Join(verif, src)
	}
	if b.h.race {
		if err := b.overlayNoPoolReuse(overlay); err != nil {
			return err
		}
	}
	ob, _ := json.MarshalIndent(map[string]any{"Replace": overlay}, "", " ")
	if err := os.WriteFile(filepath.Join(b.scratch, "overlay.json"), ob, 0o644); err != nil {
		return err
	}
	return nil
}

// replaceOverlay builds the overlay entries of harnessSpec.replaceDirs: every regular file of
// the repo directory is deleted, the .go files of the stand-in directory are added.
func (b *build) replaceOverlay() (map[string]string, error) {
	ov := map[string]string{}
	for dst, src := range b.h.replaceDirs {
		ents, err := os.ReadDir(filepath.Join(repo, dst))
		if err != nil {
			return nil, fmt.Errorf("replaceDirs: %v", err)
		}
		for _, e := range ents {
			if !e.IsDir() {
				ov[filepath.Join(repo, dst, e.Name())] = ""
			}
		}
		ents, err = os.ReadDir(filepath.Join(verif, src))
		if err != nil {
			return nil, fmt.Errorf("replaceDirs: %v", err)
		}
		for _, e := range ents {
			if !e.IsDir() && strings.HasSuffix(e.Name(), ".go") && !strings.HasSuffix(e.Name(), "_test.go") {
				ov[filepath.Join(repo, dst, e.Name())] = filepath.Join(verif, src, e.Name())
			}
		}
	}
	return ov, nil
}

func (b *build) compile() error {
	b.bin = filepath.Join(b.scratch, "harness.test")
	args := []string{"test", "-c", "-tags", "verif", "-vet=off", "-overlay", filepath.Join(b.scratch, "overlay.json"), "-o", b.bin}
	if b.h.race {
		args = append(args, "-race")
	}
	args = append(args, "./"+b.h.testPkg)
	cmd := exec.Command(goBin, args...)
	cmd.Dir = repo
	cmd.Env = goEnv()
	out, err := cmd.CombinedOutput()
	if err != nil {
		return fmt.Errorf("go test -c failed: %v\n%s", err, out)
	}
	return nil
}

// ---- workers ---------------------------------------------------------------------

type workerOut struct {
	Harness     string            `json:"harness"`
	Property    string            `json:"property"`
	Runs        int               `json:"runs"`
	Cases       int               `json:"cases"`
	NonTrivial  int               `json:"nontrivial"`
	Hashes      []string          `json:"hashes"`
	States      []string          `json:"states"`
	Steps       int64             `json:"steps"`
	SimSeconds  float64           `json:"sim_seconds"`
	Faults      map[string]int    `json:"faults"`
	Probes      map[string]int    `json:"probes"`
	Strategies  map[string]int    `json:"strategies"`
	Info        map[string]int    `json:"info"`
	Known       map[string]int    `json:"known"`
	Violations  []workerViolation `json:"violations"`
	Samples     [][]string        `json:"samples"`
	Errors      []string          `json:"errors"`
	Discarded   int               `json:"discarded_overflow"`
	NonBaton    int               `json:"non_baton_draws"`
	WallS       float64           `json:"wall_s"`
	Real        []string          `json:"real"`
	Stub        []string          `json:"stub"`
	Rule        string            `json:"rule"`
	Assumptions []string          `json:"assumptions"`
	DetHashes   map[string]string `json:"det_hashes"`
	Replay      *replayOutcome    `json:"replay"`
	MaxRunnable int               `json:"max_runnable"`
}

type workerViolation struct {
	Property  string `json:"property"`
	Class     string `json:"class"`
	Signature string `json:"signature"`
	Msg       string `json:"msg"`
	Replay    string `json:"replay"`
	RunIndex  uint64 `json:"run_index"`
}

type replayOutcome struct {
	Reproduced bool   `json:"reproduced"`
	Got        string `json:"got"`
	Want       string `json:"want"`
	Msg        string `json:"msg"`
}

type workerRun struct {
	out    *workerOut
	err    error
	stderr string
}

func runWorker(b *build, idx int, env []string, wall time.Duration) workerRun {
	wdir := filepath.Join(b.scratch, fmt.Sprintf("w%d", idx))
	os.MkdirAll(filepath.Join(wdir, "home"), 0o755)
	os.MkdirAll(filepath.Join(wdir, "tmp"), 0o755)
	outPath := filepath.Join(wdir, "out.json")
	cmd := exec.Command(b.bin, "-test.run", "^"+b.h.testFunc+"$", "-test.cpu", "1", "-test.timeout", "12h", "-test.count", "1")
	cmd.Dir = wdir
	cmd.Env = append(os.Environ(),
		"HOME="+filepath.Join(wdir, "home"), "TMPDIR="+filepath.Join(wdir, "tmp"),
		"OLLAMA_MODELS="+filepath.Join(wdir, "models"),
		"VERIF_OUT="+outPath, "VERIF_SCRATCH="+wdir,
		"VERIF_KNOWN="+filepath.Join(verif, "known_findings.json"),
		"VERIF_REPLAY_DIR="+filepath.Join(verif, "replays"),
		// -race builds only (ignored otherwise): keep running after a report, do not turn reports into
		// an exit status or an exit delay, report every execution's races (no per-process
		// de-duplication: confirmation/minimisation/replay re-run a schedule in the same process),
		// deeper access history; reports are read back from <log_path>.<pid> (detsim/racelog.go)
		"GORACE=halt_on_error=0 exitcode=0 atexit_sleep_ms=0 suppress_equal_stacks=0 suppress_equal_addresses=0 history_size=4 log_path="+filepath.Join(wdir, "race"),
	)
	cmd.Env = append(cmd.Env, env...)
	var buf bytes.Buffer
	cmd.Stdout = &buf
	cmd.Stderr = &buf
	if err := cmd.Start(); err != nil {
		return workerRun{err: err}
	}
	done := make(chan error, 1)
	go func() { done <- cmd.Wait() }()
	var werr error
	select {
	case werr = <-done:
	case <-time.After(wall):
		cmd.Process.Signal(os.Interrupt)
		select {
		case <-done:
		case <-time.After(5 * time.Second):
			cmd.Process.Kill()
			<-done
		}
		werr = fmt.Errorf("watchdog: worker %d exceeded %v wall clock", idx, wall)
	}
	res := workerRun{stderr: tail(buf.String(), 6000)}
	data, rerr := os.ReadFile(outPath)
	if rerr == nil {
		var o workerOut
		if jerr := json.Unmarshal(data, &o); jerr == nil {
			res.out = &o
		} else {
			res.err = fmt.Errorf("worker %d: bad output: %v", idx, jerr)
		}
	}
	if res.out == nil && res.err == nil {
		res.err = fmt.Errorf("worker %d produced no output (%v)", idx, werr)
	}
	if werr != nil && res.err == nil && res.out != nil && len(res.out.Violations) == 0 && res.out.Replay == nil {
		// non-zero exit without a recorded violation: harness trouble
		if !strings.Contains(buf.String(), "\nPASS") && !strings.HasPrefix(buf.String(), "PASS") {
			res.err = fmt.Errorf("worker %d: %v", idx, werr)
		}
	}
	return res
}

func tail(s string, n int) string {
	if len(s) > n {
		return "..." + s[len(s)-n:]
	}
	return s
}

type knownFinding struct {
	Property  string `json:"property"`
	Signature string `json:"signature"`
	What      string `json:"what"`
	Status    string `json:"status"`
	Commit    string `json:"commit,omitempty"`
}

func loadKnown() []knownFinding {
	var k []knownFinding
	b, err := os.ReadFile(filepath.Join(verif, "known_findings.json"))
	if err == nil {
		if err := json.Unmarshal(b, &k); err != nil {
			fatal(2, "known_findings.json: %v", err)
		}
	}
	return k
}

func tierOf(arg string) string {
	if v := os.Getenv("VERIF_TIER"); v == "quick" || v == "thorough" {
		return v
	}
	if arg != "quick" && arg != "thorough" {
		fatal(2, "tier must be quick or thorough")
	}
	return arg
}

func seedOf() uint64 {
	if v := os.Getenv("VERIF_SEED"); v != "" {
		if n, err := strconv.ParseUint(v, 10, 64); err == nil {
			return n
		}
		if n, err := strconv.ParseInt(v, 10, 64); err == nil {
			return uint64(n)
		}
	}
	return 1
}

func envIntD(name string, def int) int {
	if v := os.Getenv(name); v != "" {
		if n, err := strconv.Atoi(v); err == nil {
			return n
		}
	}
	return def
}

func check(prop, tierArg string) int {
	start := time.Now()
	tier := tierOf(tierArg)
	seed := seedOf()
	spec, ok := properties[prop]
	if !ok {
		fatal(2, "property %s is not claimed (see MANIFEST.json not_applicable)", prop)
	}
	h := harnessByName(spec.harness)
	// a property may be decided by several harness stages (e.g. a decoder stage
	// and an API stage); they run one after the other and are aggregated
	stages := []stageSpec{{harness: spec.harness, quickS: spec.quickS, thoroughS: spec.thoroughS}}
	stages = append(stages, spec.extra...)
	if only := os.Getenv("VERIF_STAGE"); only != "" {
		// development aid (never set by registered checks): run the stage of one harness only
		var sel []stageSpec
		for _, st := range stages {
			if st.harness == only {
				sel = append(sel, st)
			}
		}
		if len(sel) == 0 {
			fatal(2, "VERIF_STAGE=%s: property %s has no such stage", only, prop)
		}
		stages = sel
	}
	var results []workerRun
	var buildS float64
	var instrLog []string
	for si, st := range stages {
		sh := harnessByName(st.harness)
		fmt.Printf("verifctl: property=%s tier=%s VERIF_SEED=%d harness=%s race=%v (stage %d/%d)\n", prop, tier, seed, sh.name, sh.race, si+1, len(stages))
		t0 := time.Now()
		b := &build{h: sh, scratch: newScratch(), keep: os.Getenv("VERIF_KEEP") != ""}
		if err := b.prepare(); err != nil {
			fmt.Fprintf(os.Stderr, "verifctl: prepare failed: %v\n", err)
			b.cleanup()
			return 2
		}
		if err := b.compile(); err != nil {
			fmt.Fprintf(os.Stderr, "verifctl: build of the instrumented tree failed (not a verdict):\n%v\n%s", err, b.log.String())
			b.cleanup()
			return 2
		}
		buildS += time.Since(t0).Seconds()
		instrLog = append(instrLog, b.instr...)
		nworkers := envIntD("VERIF_WORKERS", 16)
		wallS := st.quickS
		if tier == "thorough" {
			wallS = st.thoroughS
		}
		if v := envIntD("VERIF_WALL_S", 0); v > 0 {
			wallS = v
		}
		env := []string{
			"VERIF_PROP=" + prop, "VERIF_TIER=" + tier, "VERIF_SEED=" + strconv.FormatUint(seed, 10),
			"VERIF_NWORKERS=" + strconv.Itoa(nworkers), "VERIF_WALL_S=" + strconv.Itoa(wallS),
		}
		if v := os.Getenv("VERIF_MAXRUNS"); v != "" {
			env = append(env, "VERIF_MAXRUNS="+v)
		}
		gens := 1
		if sh.generations > 1 && os.Getenv("VERIF_MAXRUNS") == "" {
			gens = sh.generations
			if tier == "thorough" {
				gens *= 3
			}
			gens = envIntD("VERIF_GENERATIONS", gens)
		}
		env[3] = "VERIF_NWORKERS=" + strconv.Itoa(nworkers*gens)
		env[4] = "VERIF_WALL_S=" + strconv.Itoa(max(wallS/gens, 1))
		for g := 0; g < gens; g++ {
			stageResults := make([]workerRun, nworkers)
			var wg sync.WaitGroup
			for i := 0; i < nworkers; i++ {
				wg.Add(1)
				go func(i int) {
					defer wg.Done()
					e := append(append([]string{}, env...), "VERIF_WORKER="+strconv.Itoa(g*nworkers+i))
					// minimisation may add up to ~100 s after the budget
					stageResults[i] = runWorker(b, g*nworkers+i, e, time.Duration(wallS/gens)*time.Second+240*time.Second)
				}(i)
			}
			wg.Wait()
			results = append(results, stageResults...)
			found := false
			for _, r := range stageResults {
				if r.out != nil && len(r.out.Violations) > 0 {
					found = true
				}
			}
			if found {
				break
			}
		}
		b.cleanup()
	}

	agg := aggregate(results)
	agg.buildS = buildS
	agg.instr = instrLog
	known := loadKnown()
	code := 0
	if len(agg.errors) > 0 {
		for _, e := range agg.errors {
			fmt.Fprintf(os.Stderr, "verifctl: ERROR %s\n", e)
		}
		code = 2
	}
	for _, k := range known {
		if k.Property == prop && k.Status == "open" {
			fmt.Printf("KNOWN-FINDING: property=%s %s [signature %s; reached in %d runs of this invocation]\n", prop, k.What, k.Signature, agg.known[k.Signature])
		}
	}
	for _, v := range agg.violations {
		fmt.Printf("violation: class=%s signature=%s\n  %s\n", v.Class, v.Signature, strings.ReplaceAll(firstLines(v.Msg, 12), "\n", "\n  "))
		fmt.Printf("VIOLATION property=%s replay=%s\n", prop, v.Replay)
		code = 1
	}
	wall := time.Since(start).Seconds()
	if code != 2 || agg.runs > 0 {
		if err := writeEvidence(prop, tier, seed, spec, h, agg, wall, len(agg.violations)); err != nil {
			fmt.Fprintf(os.Stderr, "verifctl: evidence: %v\n", err)
			if code == 0 {
				code = 2
			}
		}
	}
	fmt.Printf("verifctl: %s %s: %d runs (%d non-trivial, %d distinct schedules), %.0f simulated s, %d steps, %d violations, %d known-finding hits, build %.1fs, wall %.1fs\n",
		prop, tier, agg.runs, agg.nontrivial, len(agg.hashes), agg.simSeconds, agg.steps, len(agg.violations), sum(agg.known), buildS, wall)
	if len(agg.zeroProbes(spec)) > 0 {
		fmt.Printf("verifctl: warning: probes never hit: %s\n", strings.Join(agg.zeroProbes(spec), ", "))
	}
	if agg.runs == 0 && code == 0 {
		fmt.Fprintf(os.Stderr, "verifctl: no runs completed\n")
		code = 2
	}
	return code
}

func unionStrings(a, b []string) []string {
	for _, x := range b {
		found := false
		for _, y := range a {
			if x == y {
				found = true
				break
			}
		}
		if !found {
			a = append(a, x)
		}
	}
	return a
}

func firstLines(s string, n int) string {
	l := strings.Split(s, "\n")
	if len(l) > n {
		l = append(l[:n], "...")
	}
	return strings.Join(l, "\n")
}

func sum(m map[string]int) int {
	n := 0
	for _, v := range m {
		n += v
	}
	return n
}

type aggT struct {
	runs, nontrivial int
	cases            int
	hashes           map[string]bool
	states           map[string]bool
	steps            int64
	simSeconds       float64
	faults, probes   map[string]int
	strategies, info map[string]int
	known            map[string]int
	violations       []workerViolation
	samples          [][]string
	errors           []string
	discarded        int
	nonBaton         int
	real, stub       []string
	rule             string
	assumptions      []string
	buildS           float64
	instr            []string
	maxRunnable      int
	workerWall       float64
}

func (a *aggT) zeroProbes(spec propSpec) []string {
	var z []string
	for _, p := range spec.probes {
		if a.probes[p] == 0 {
			z = append(z, p)
		}
	}
	return z
}

func aggregate(results []workerRun) *aggT {
	a := &aggT{hashes: map[string]bool{}, states: map[string]bool{}, faults: map[string]int{}, probes: map[string]int{},
		strategies: map[string]int{}, info: map[string]int{}, known: map[string]int{}}
	for i, r := range results {
		if r.err != nil {
			a.errors = append(a.errors, fmt.Sprintf("%v\n%s", r.err, r.stderr))
		}
		o := r.out
		if o == nil {
			continue
		}
		a.runs += o.Runs
		a.cases += o.Cases
		a.nontrivial += o.NonTrivial
		for _, h := range o.Hashes {
			a.hashes[h] = true
		}
		for _, h := range o.States {
			a.states[h] = true
		}
		a.steps += o.Steps
		a.simSeconds += o.SimSeconds
		for k, v := range o.Faults {
			a.faults[k] += v
		}
		for k, v := range o.Probes {
			a.probes[k] += v
		}
		for k, v := range o.Strategies {
			a.strategies[k] += v
		}
		for k, v := range o.Info {
			a.info[k] += v
		}
		for k, v := range o.Known {
			a.known[k] += v
		}
		a.violations = append(a.violations, o.Violations...)
		if len(a.samples) < 3 {
			a.samples = append(a.samples, o.Samples...)
		}
		for _, e := range o.Errors {
			a.errors = append(a.errors, fmt.Sprintf("worker %d: %s", i, e))
		}
		a.discarded += o.Discarded
		a.nonBaton += o.NonBaton
		if o.MaxRunnable > a.maxRunnable {
			a.maxRunnable = o.MaxRunnable
		}
		if o.WallS > a.workerWall {
			a.workerWall = o.WallS
		}
		if a.rule == "" {
			a.rule = o.Rule
		} else if o.Rule != "" && !strings.Contains(a.rule, o.Rule) {
			a.rule += " || further stage (harness " + o.Harness + "): " + o.Rule
		}
		a.real = unionStrings(a.real, o.Real)
		a.stub = unionStrings(a.stub, o.Stub)
		a.assumptions = unionStrings(a.assumptions, o.Assumptions)
	}
	// one VIOLATION line per distinct signature
	sort.Slice(a.violations, func(i, j int) bool { return a.violations[i].RunIndex < a.violations[j].RunIndex })
	seen := map[string]bool{}
	var vs []workerViolation
	for _, v := range a.violations {
		if !seen[v.Signature] {
			seen[v.Signature] = true
			vs = append(vs, v)
		}
	}
	a.violations = vs
	return a
}

func writeEvidence(prop, tier string, seed uint64, spec propSpec, h *harnessSpec, a *aggT, wall float64, nviol int) error {
	samples := make([]any, 0, len(a.samples))
	for _, s := range a.samples {
		if len(s) > 60 {
			s = append(append([]string{}, s[:60]...), fmt.Sprintf("... (%d more events)", len(s)-60))
		}
		samples = append(samples, s)
	}
	if len(samples) == 0 {
		samples = append(samples, "no sample recorded")
	}
	rph := 0.0
	if a.workerWall > 0 {
		rph = float64(a.runs) / a.workerWall * 3600
	}
	var knownSeen []string
	for k, n := range a.known {
		knownSeen = append(knownSeen, fmt.Sprintf("%s x%d", k, n))
	}
	sort.Strings(knownSeen)
	cov := map[string]any{
		"evaluations":                        a.runs,
		"cases_generated":                    a.cases,
		"distinct_nontrivial":                len(a.hashes),
		"nontrivial_runs":                    a.nontrivial,
		"rule":                               a.rule,
		"samples":                            samples,
		"runs_per_hour":                      int64(rph),
		"simulated_seconds":                  int64(a.simSeconds),
		"steps":                              a.steps,
		"faults_fired":                       a.faults,
		"probes":                             a.probes,
		"probes_never_hit":                   a.zeroProbes(spec),
		"distinct_states":                    len(a.states),
		"strategies":                         a.strategies,
		"counters":                           a.info,
		"max_runnable_tasks":                 a.maxRunnable,
		"real_components":                    a.real,
		"stub_components":                    a.stub,
		"known_findings_seen":                knownSeen,
		"runs_discarded_for_budget_overflow": a.discarded,
		"instrumentation":                    a.instr,
		"race_build":                         h.race,
		"build_s":                            a.buildS,
		"exhaustive":                         false,
	}
	ev := map[string]any{
		"property_id": prop,
		"tier":        tier,
		"seed":        int64(seed),
		"level":       spec.level,
		"coverage":    cov,
		"assumptions": a.assumptions,
		"wall_s":      wall,
		"violations":  nviol,
	}
	b, err := json.MarshalIndent(ev, "", " ")
	if err != nil {
		return err
	}
	os.MkdirAll(filepath.Join(verif, "evidence"), 0o755)
	return os.WriteFile(filepath.Join(verif, "evidence", prop+".json"), append(b, '\n'), 0o644)
}

// ---- replay ----------------------------------------------------------------------

func replay(path string) int {
	abs, err := filepath.Abs(path)
	if err != nil {
		fatal(2, "%v", err)
	}
	data, err := os.ReadFile(abs)
	if err != nil {
		fatal(2, "%v", err)
	}
	var rf struct {
		Property string `json:"property"`
		Harness  string `json:"harness"`
		Tier     string `json:"tier"`
	}
	if err := json.Unmarshal(data, &rf); err != nil {
		fatal(2, "replay file: %v", err)
	}
	h := harnessByName(rf.Harness)
	b := &build{h: h, scratch: newScratch(), keep: os.Getenv("VERIF_KEEP") != ""}
	defer b.cleanup()
	if err := b.prepare(); err != nil {
		fmt.Fprintf(os.Stderr, "verifctl: prepare failed: %v\n", err)
		return 2
	}
	if err := b.compile(); err != nil {
		fmt.Fprintf(os.Stderr, "verifctl: build failed (not a verdict):\n%v\n", err)
		return 2
	}
	r := runWorker(b, 0, []string{"VERIF_PROP=" + rf.Property, "VERIF_TIER=" + rf.Tier, "VERIF_REPLAY=" + abs}, 10*time.Minute)
	if r.err != nil || r.out == nil || r.out.Replay == nil {
		fmt.Fprintf(os.Stderr, "verifctl: replay failed to run: %v\n%s\n", r.err, r.stderr)
		if r.out != nil {
			for _, e := range r.out.Errors {
				fmt.Fprintln(os.Stderr, e)
			}
		}
		return 2
	}
	ro := r.out.Replay
	if len(r.out.Samples) > 0 && os.Getenv("VERIF_TRACE") != "" {
		for _, l := range r.out.Samples[0] {
			fmt.Println("  ", l)
		}
	}
	if ro.Reproduced {
		fmt.Printf("violation reproduced: %s\n  %s\n", ro.Got, strings.ReplaceAll(firstLines(ro.Msg, 30), "\n", "\n  "))
		fmt.Printf("VIOLATION property=%s replay=%s\n", rf.Property, abs)
		return 1
	}
	fmt.Printf("verifctl: replay did not reproduce %q on the current tree (got %q)\n", ro.Want, ro.Got)
	return 0
}

// ---- determinism self-test -----------------------------------------------------

func selftest(name string, runs int) int {
	var h *harnessSpec
	prop := ""
	if hn, id, ok := strings.Cut(name, ":"); ok {
		// <harness>:<property>: a later stage of a multi-stage property
		h, prop = harnessByName(hn), id
	} else if p, ok := properties[name]; ok {
		h = harnessByName(p.harness)
		prop = name
	} else {
		h = harnessByName(name)
		for id, p := range properties {
			if p.harness == name && (prop == "" || id < prop) {
				prop = id
			}
		}
	}
	b := &build{h: h, scratch: newScratch()}
	defer b.cleanup()
	if err := b.prepare(); err != nil {
		fmt.Fprintf(os.Stderr, "prepare: %v\n", err)
		return 2
	}
	if err := b.compile(); err != nil {
		fmt.Fprintf(os.Stderr, "build: %v\n", err)
		return 2
	}
	procs := []int{1, 1, 4, 4, 16, 16, 2, 8}
	results := make([]workerRun, len(procs))
	var wg sync.WaitGroup
	for i, p := range procs {
		wg.Add(1)
		go func(i, p int) {
			defer wg.Done()
			env := []string{"VERIF_PROP=" + prop, "VERIF_TIER=quick", "VERIF_SEED=" + strconv.FormatUint(seedOf(), 10), "VERIF_NWORKERS=1", "VERIF_WORKER=0",
				"VERIF_WALL_S=3600", "VERIF_MAXRUNS=" + strconv.Itoa(runs), "VERIF_SELFTEST=1", "GOMAXPROCS=" + strconv.Itoa(p)}
			results[i] = runWorker(b, i, env, 2*time.Hour)
		}(i, p)
	}
	wg.Wait()
	bad := 0
	var ref map[string]string
	for i, r := range results {
		if r.err != nil || r.out == nil {
			fmt.Fprintf(os.Stderr, "selftest worker %d: %v\n%s\n", i, r.err, r.stderr)
			return 2
		}
		for _, e := range r.out.Errors {
			fmt.Fprintf(os.Stderr, "selftest worker %d error: %s\n", i, e)
			bad++
		}
		if ref == nil {
			ref = r.out.DetHashes
			continue
		}
		for k, v := range ref {
			if r.out.DetHashes[k] != v {
				bad++
				if bad < 20 {
					fmt.Printf("DIVERGENCE run %s: GOMAXPROCS=%d %s vs GOMAXPROCS=%d %s\n", k, procs[0], v, procs[i], r.out.DetHashes[k])
				}
			}
		}
		if len(r.out.DetHashes) != len(ref) {
			bad++
			fmt.Printf("DIVERGENCE: worker %d completed %d runs, reference %d\n", i, len(r.out.DetHashes), len(ref))
		}
	}
	nb := 0
	for _, r := range results {
		nb += r.out.NonBaton
	}
	fmt.Printf("selftest %s (%s): %d runs x %d processes (GOMAXPROCS %v): %d divergences, %d non-baton draws\n", h.name, prop, len(ref), len(procs), procs, bad, nb)
	if bad > 0 {
		return 2
	}
	return 0
}

func warm() int {
	code := 0
	done := map[string]bool{}
	var names []string
	for _, p := range properties {
		if !done[p.harness] {
			done[p.harness] = true
			names = append(names, p.harness)
		}
	}
	sort.Strings(names)
	for _, n := range names {
		t0 := time.Now()
		h := harnessByName(n)
		b := &build{h: h, scratch: newScratch()}
		if err := b.prepare(); err != nil {
			fmt.Fprintf(os.Stderr, "warm %s: %v\n", n, err)
			code = 2
		} else if err := b.compile(); err != nil {
			fmt.Fprintf(os.Stderr, "warm %s: %v\n", n, err)
			code = 2
		} else {
			fmt.Printf("warm %s: built in %.1fs\n", n, time.Since(t0).Seconds())
		}
		b.cleanup()
	}
	return code
}
