package main

// H-registry: the new registry client (server/internal/client/ollama) driven
// through registry.Local and directly, over a simulated registry, with the
// real blob cache on the simulated disk. DESIGN.md 5 (C09), C.6.
func init() {
	register(&harnessSpec{
		name:     "registry",
		testPkg:  "server/internal/registry",
		testFunc: "TestVerifRegistry",
		pkgs: []pkgSpec{
			{dir: "server/internal/client/ollama", full: []string{"registry.go", "trace.go"}},
			{dir: "server/internal/registry", full: []string{"server.go"}},
			{dir: "server/internal/internal/backoff", full: []string{"backoff.go"}},
			{dir: "server/internal/cache/blob", full: []string{"cache.go", "chunked.go"}, vfs: true},
		},
		files: map[string]string{
			"harness/registry/zz_verif_registry_test.go": "server/internal/registry/zz_verif_registry_test.go",
			"harness/registry/zz_verif_simreg_test.go":   "server/internal/registry/zz_verif_simreg_test.go",
		},
	}, map[string]propSpec{
		// main stage: the new registry client (pull + Registry.Push); second stage: the legacy push
		// (PushModel / uploadBlob / blobUpload.Run) in harness "store"
		"C09": {level: "exploration", quickS: 50, thoroughS: 840,
			probes: []string{"pull_success", "pull_failed", "push_success", "push_failed", "push_layer_uploaded", "push_layer_already_present", "push_manifest_accepted", "crash_restarted", "tag_updated"},
			extra:  []stageSpec{{harness: "store", quickS: 20, thoroughS: 240}}},
	})
}
