package main

// H-kvcache: direct driver of the KV cache (C06). The package has no
// concurrency, clock or I/O, so nothing is instrumented: the harness files are
// overlaid into package kvcache and the package's own tests are removed.
func init() {
	register(&harnessSpec{
		name:     "kvcache",
		testPkg:  "kvcache",
		testFunc: "TestVerifKVCache",
		files: map[string]string{
			"harness/kvcache/zz_verif_backend_test.go": "kvcache/zz_verif_backend_test.go",
			"harness/kvcache/zz_verif_cache_test.go":   "kvcache/zz_verif_cache_test.go",
		},
	}, map[string]propSpec{
		"C06": {level: "exploration", quickS: 30, thoroughS: 600,
			probes: []string{"defrag_ran", "defrag_with_moves", "cache_full", "remove_middle_shifted", "remove_no_shift_support",
				"shift_failed", "copy_prefix", "swa_evicted", "wrapper_used", "permuted_v"}},
	})
}
