package main

// Static description of harnesses and properties (DESIGN.md C.6).

type pkgSpec struct {
	dir        string   // relative to /repo
	full       []string // files instrumented fully
	fullAll    bool     // instrument every non-test file fully
	vfs        bool
	constToVar []string
	redirect   map[string]string
	sliceServe bool
}

type harnessSpec struct {
	name          string
	pkgs          []pkgSpec
	testPkg       string   // package whose test binary is the harness
	extraTestDirs []string // other packages whose own tests must be removed (they receive harness helper files)
	testFunc      string
	files         map[string]string // /verif-relative source -> /repo-relative destination
	race          bool
	// generations > 1: the wall budget is spent by that many successive sets of fresh worker
	// processes (quick tier; three times as many in the thorough tier) instead of one set:
	// what a process does only once (one-time initialisation of package-level state, first use
	// of lazily filled caches) is then executed - under a different schedule - that many more times
	generations int

	// replaceDirs: /repo-relative package directory -> /verif-relative directory. Every file of the
	// repo directory (not its sub-directories) is removed from the harness build and the .go files of
	// the /verif directory take its place: a pure-Go stand-in for a cgo package. The replacement is
	// already in force for the driver's `go list -export`, so the real package is never compiled.
	replaceDirs map[string]string
}

// stageSpec is an additional harness stage of a property.
type stageSpec struct {
	harness   string
	quickS    int
	thoroughS int
}

type propSpec struct {
	extra     []stageSpec // further harness stages that serve the same property
	harness   string
	level     string
	quickS    int // per-worker wall budget (s)
	thoroughS int
	probes    []string // probes that a healthy run is expected to hit
}

var harnesses []*harnessSpec

var properties = map[string]propSpec{}

// register is called from the init functions of the per-harness config files.
func register(h *harnessSpec, props map[string]propSpec) {
	harnesses = append(harnesses, h)
	for id, p := range props {
		p.harness = h.name
		properties[id] = p
	}
}

func harnessByName(n string) *harnessSpec {
	for _, h := range harnesses {
		if h.name == n {
			return h
		}
	}
	fatal(2, "unknown harness %q", n)
	return nil
}
