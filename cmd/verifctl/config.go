package main

// Static description of harnesses and properties (DESIGN.md C.6).

type pkgSpec struct {
	dir        string   // relative to /repo
	full       []string // files instrumented fully
	fullAll    bool     // instrument every non-test file fully
	vfs        bool
	constToVar []string
	redirect   map[string]string
	sliceServe bool
}

type harnessSpec struct {
	name          string
	pkgs          []pkgSpec
	testPkg       string            // package whose test binary is the harness
	extraTestDirs []string          // other packages whose own tests must be removed (they receive harness helper files)
	testFunc      string
	files         map[string]string // /verif-relative source -> /repo-relative destination
	race          bool
}

type propSpec struct {
	harness   string
	level     string
	quickS    int // per-worker wall budget (s)
	thoroughS int
	probes    []string // probes that a healthy run is expected to hit
}

var harnesses = []*harnessSpec{
	{
		name:     "sched",
		testPkg:  "server",
		testFunc: "TestVerifSched",
		pkgs: []pkgSpec{{
			dir:      "server",
			full:     []string{"sched.go"},
			redirect: map[string]string{"discover.GetGPUInfo": "verifGetGPUInfo"},
		}},
		files: map[string]string{
			"harness/server/zz_verif_common_test.go": "server/zz_verif_common_test.go",
			"harness/server/zz_verif_sched_test.go":  "server/zz_verif_sched_test.go",
		},
	},
}

var properties = map[string]propSpec{
	"C01": {harness: "sched", level: "exploration", quickS: 40, thoroughS: 900,
		probes: []string{"grant", "load_fail", "explicit_unload", "cancel_before_grant"}},
	"C02": {harness: "sched", level: "exploration", quickS: 40, thoroughS: 900,
		probes: []string{"grant", "queue_full", "drain_complete", "load_fail"}},
	"C11": {harness: "sched", level: "exploration", quickS: 40, thoroughS: 900,
		probes: []string{"grant", "reuse", "evict_idle_ok", "fit_checked"}},
}

func harnessByName(n string) *harnessSpec {
	for _, h := range harnesses {
		if h.name == n {
			return h
		}
	}
	fatal(2, "unknown harness %q", n)
	return nil
}
