package main

// H-runner: the real runner/ollamarunner Server (run loop, completion handler,
// input cache) over the real kvcache with a scripted model on a simulated
// backend. DESIGN.md section 5 (C07, C14), 3.8, C.6.
func init() {
	register(&harnessSpec{
		name:     "runner",
		testPkg:  "runner/ollamarunner",
		testFunc: "TestVerifRunner",
		pkgs: []pkgSpec{{
			dir:  "runner/ollamarunner",
			full: []string{"runner.go", "cache.go"},
		}},
		// package model only receives the constructor shim; its own tests are not built
		// (the harness binary is the test binary of runner/ollamarunner), nothing to remove.
		files: map[string]string{
			"harness/model/zz_verif_shim.go":                "model/zz_verif_shim.go",
			"harness/ollamarunner/zz_verif_backend_test.go": "runner/ollamarunner/zz_verif_backend_test.go",
			"harness/ollamarunner/zz_verif_model_test.go":   "runner/ollamarunner/zz_verif_model_test.go",
			"harness/ollamarunner/zz_verif_runner_test.go":  "runner/ollamarunner/zz_verif_runner_test.go",
			"harness/ollamarunner/zz_verif_oracle_test.go":  "runner/ollamarunner/zz_verif_oracle_test.go",
		},
	}, map[string]propSpec{
		// second stage of both: the llama.cpp runner (runner/llamarunner) over a pure-Go model of
		// llama.cpp's KV cache (harness "llamarunner", config_llamarunner.go)
		"C07": {level: "exploration", quickS: 45, thoroughS: 780,
			extra:  []stageSpec{{harness: "llamarunner", quickS: 25, thoroughS: 400}},
			probes: []string{"prefix_cache_hit", "fork", "shift_ok", "shift_fallback", "prompt_truncated", "differential_checked", "multi_seq_batch", "cancel_midstream", "image_row_forwarded", "same_batch_group_whole"}},
		"C14": {level: "exploration", quickS: 45, thoroughS: 780,
			extra:  []stageSpec{{harness: "llamarunner", quickS: 25, thoroughS: 400}},
			probes: []string{"stop_hit", "stop_split_across_pieces", "utf8_split_withheld", "eos", "limit", "stop_truncated_token", "cancel_midstream"}},
	})
}
