package main

// H-llamarunner: the real runner/llamarunner Server (run loop, completion
// handler, input cache; runner.go and cache.go instrumented) over a pure-Go
// model of llama.cpp's KV cache that replaces package llama for this build.
// Second stage of C07 and C14 (their first stage is harness "runner", the Go
// engine runner); the stage entries are in config_runner.go.
func init() {
	register(&harnessSpec{
		name:     "llamarunner",
		testPkg:  "runner/llamarunner",
		testFunc: "TestVerifLlamaRunner",
		pkgs: []pkgSpec{{
			dir:  "runner/llamarunner",
			full: []string{"runner.go", "cache.go"},
		}},
		replaceDirs: map[string]string{"llama": "harness/llamafake"},
		files: map[string]string{
			"harness/llamarunner/zz_verif_runner_test.go": "runner/llamarunner/zz_verif_runner_test.go",
			"harness/llamarunner/zz_verif_model_test.go":  "runner/llamarunner/zz_verif_model_test.go",
			"harness/llamarunner/zz_verif_oracle_test.go": "runner/llamarunner/zz_verif_oracle_test.go",
		},
	}, map[string]propSpec{})
}
